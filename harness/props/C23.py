"""C23 — discrete interval sets and region value sets are sound abstractions.
prove (Lean: generic lifting theorems) -> correspondence (set-level model vs real DiscreteStridedIntervalSet) ->
oracle on the real code (DiscreteStridedIntervalSet and ValueSet, member enumeration)."""
import collections, itertools, logging

from lib import vsa, vsa_sets as vs
from lib import vsa_check as vc
from lib import vsa_setops_corr as setops_corr

PROP = "C23"
L = "Claripy.VSA."
P = "Claripy.Props.C23."
THEOREMS = [P + n for n in ("C23_lift2", "C23_lift1", "C23_collapse", "C23_normalize", "C23_valueset_per_region",
                            "C23_dsis_add_sound", "C23_collapse_sound", "C23_normalize_sound", "C23_dsis_add", "C23_dsis_min_max_bound",
                            "C23_dsis_binops", "C23_dsis_mul_mod", "C23_dsis_unops", "C23_dsis_orderings", "C23_dsis_eq", "C23_dsis_reflected", "C23_dsis_eval", "C23_dsis_eval_list", "C23_dsis_union", "C23_dsis_intersection", "dsis_widen_unsound", "C23_valueset_union_meet", "C23_dsis_udiv", "C23_valueset_arith", "C23_valueset_meetVS")] + \
           [L + "joinOK"] + \
           [L + n for n in ("lift2_sound", "lift1_sound", "collapse_sound", "normalize_sound", "finishSet_sound",
                            "mapRegions_sound", "applyEach2_sound", "dedupe_mem", "permute_mem", "foldl_join_sup", "dsis_card_zero", "dsis_min_le", "dsis_le_max",
                            "lift2_spec", "lift1_spec", "collapse_prop", "collapse_WFw", "collapse_nrm", "collapse_aligned", "collapse_NE", "finishSet_P", "finishSet_WF", "finishSet_NE", "dsis_sub", "dsis_and", "dsis_or", "dsis_xor", "dsis_mul", "dsis_mod", "dsis_shl", "dsis_lshr", "dsis_ashr", "dsis_concat", "dsis_neg", "dsis_not", "dsis_zext", "dsis_sext", "dsis_extract", "dsis_ucmp", "dsis_scmp", "dsis_eq", "eq_sound", "dsis_rsub", "dsis_rudiv", "dsis_rmod", "dsis_eval", "dsis_unionSI", "dsis_unionDS", "unionFold_sound", "dsis_meetSI", "dsis_meetDS", "meetParts_sound", "vs_unionSI", "vs_unionVS", "vs_meetSI", "vsUnionStep_sound", "pseudoJoin_nb", "dsis_udiv", "vs_arith", "vs_opSI", "applyEach2o_mem", "vs_meetVS", "vsMeetStep_sound", "dsis_eval_list", "evalGather_mem")]
TESTS = [P + "test_lift_example"]

PY_METHOD = {"add": "__add__", "sub": "__sub__", "and": "__and__", "or": "__or__", "xor": "__xor__", "mod": "__mod__",
             "shl": "__lshift__", "ashr": "__rshift__", "concat": "concat", "udiv": "__floordiv__", "mul": "__mul__", "lshr": "LShR"}


def key(t):
    return (t.bits, t.lower_bound, t.upper_bound, t.stride, t.is_empty)


def order_of(ins, st):
    dist = []
    for t in ins:
        if key(t) not in dist:
            dist.append(key(t))
    return [dist.index(key(t)) for t in st]


def ds_line(op, A, B, extra):
    """-> (line for the driver, real result canonical).  The real objects are built once so that the iteration orders
    sent to the model are those of the objects the real operation runs on."""
    a = vs.mk_dsis(A[1], A[2]) if A[0] == "d" else None
    a_list = list(a._si_set)
    b = None
    b_list = None
    if B is not None:
        if B[0] == "d":
            b = vs.mk_dsis(B[1], B[2]); b_list = list(b._si_set)
        else:
            b = vsa.mk(B[1]); b_list = [b]
    # recorded iteration order of the result set (replicates the loop of apply_on_each_si / extract / _intersection_with_si)
    order = [0]
    try:
        ins, st = [], set()
        if op in PY_METHOD and b_list is not None:
            for x in a_list:
                for y in b_list:
                    t = getattr(x, PY_METHOD[op])(y); ins.append(t); st.add(t)
        elif op in ("opneg", "not", "zext", "sext", "extract") or (op == "intersection" and B is not None and B[0] == "s"):
            for x in a_list:
                t = {"opneg": lambda s: -s, "not": lambda s: ~s, "zext": lambda s: s.zero_extend(*extra),
                     "sext": lambda s: s.sign_extend(*extra), "extract": lambda s: s.extract(*extra),
                     "intersection": lambda s: s.intersection(b)}[op](x)
                ins.append(t); st.add(t)
        if ins:
            order = order_of(ins, st)
    except Exception:  # noqa
        pass
    fa = " , ".join(vc.fmt_arg(vsa.tup(s)) for s in a_list)
    if B is None:
        fb = "-"
    elif B[0] == "d":
        fb = "D " + " , ".join(vc.fmt_arg(vsa.tup(s)) for s in b_list)
    else:
        fb = "S " + vc.fmt_arg(B[1])
    line = "ds %s %d ; %s ; %s ; %s ; %s" % (op, A[1], fa, fb, " ".join(str(e) for e in extra), " ".join(str(i) for i in order))
    # real result on the same objects
    fn = {**{k: v[0] for k, v in vs.DS_BIN.items()}, **{k: v[0] for k, v in vs.DS_CMP.items()}, **{k: v[0] for k, v in vs.DS_UN.items()},
          **vs.DS_SET}
    if op in fn:
        real = vs.call(fn[op], a, b) if b is not None else vs.call(fn[op], a)
    elif op == "concat":
        real = vs.call(lambda p, q: p.concat(q), a, b)
    elif op in ("collapse", "normalize"):
        real = vs.call(lambda p: getattr(p, op)(), a)
    elif op == "cardinality":
        real = vs.call(lambda p: p.cardinality, a)
    elif op in ("min", "max", "smin", "smax"):
        real = vs.ds_query_real(op, a, A)
    elif op == "eval":
        real = vs.call(lambda p: p.eval(extra[0]), a)
    elif op == "zext":
        real = vs.call(lambda p: p.zero_extend(extra[0]), a)
    elif op == "sext":
        real = vs.call(lambda p: p.sign_extend(extra[0]), a)
    elif op == "extract":
        real = vs.call(lambda p: p.extract(extra[0], extra[1]), a)
    else:
        raise KeyError(op)
    return line, real


def canon_str(c):
    if c[0] == "si":
        return "si " + vc.canon(c[1])
    if c[0] == "dsis":
        return "dsis %d : %s" % (c[1], " , ".join("%d %d %d %d" % t for t in c[2]))
    if c[0] == "bool":
        return "bool:" + c[1]
    if c[0] == "val":
        return "int %s" % c[1] if isinstance(c[1], int) and not isinstance(c[1], bool) else str(c[1])
    if c[0] == "err":
        return "err:" + c[1]
    return str(c)


def classify(op, kind, A, B, what):
    """signature: property / container / operation / kind / predicate class"""
    sis = list(A[2].values()) if A[0] == "v" else (list(A[2]) if A[0] == "d" else [A[1]])
    if B is not None:
        sis = sis + (list(B[2].values()) if B[0] == "v" else (list(B[2]) if B[0] == "d" else [B[1]]))
    cont = "valueset" if A[0] == "v" else "dsis"
    via = ""
    if op.startswith("ast_"):       # the same operation built as an AST and evaluated by the backend: same classes, marked
        op, via = op[4:], ",through-the-backend"
    head = "C23/%s/%s/%s/" % (cont, op, kind)
    if op == "widen":
        return head + "inherits-C22-widen"
    if any(not vsa.aligned(t) for t in sis):
        return head + "unaligned-member"        # inherited from the interval operations whichever way the operation is reached
    if A[0] == "v" and B is not None and B[0] == "v":
        # two value sets: how the region sets are related, and whether the shared regions hold the same intervals
        ra, rb = set(A[2]), set(B[2])
        rel = ("equal" if ra == rb else "strict-subset-of-the-other" if ra < rb else "strict-superset-of-the-other" if ra > rb
               else "disjoint" if not (ra & rb) else "overlapping")
        same = bool(ra & rb) and all(A[2][r] == B[2][r] for r in ra & rb)
        return head + "aligned-members/regions-%s%s%s" % (rel, ",same-intervals-on-shared-regions" if same else "", via)
    return head + "aligned-members" + via


def classify_seq(cont, op, o, A, B):
    """a failing comparison of a result with its own operand.  If the same comparison of FRESH objects with the same bounds
    fails as well, it is the plain finding of that comparison (same signature as the plain case); otherwise the failure hangs
    on the identity / names of the operand's intervals."""
    kind, detail, cmp, cr = o
    name = "valueset" if cont == "v" else "dsis"
    if cont == "d":
        R = ("d", cr[1], [t for t in cr[2] if t[1] >= 0]) if cr[0] == "dsis" else ("s", cr[1])
        if R[0] == "d" and isinstance(R[1], int) and R[2] and all(isinstance(t, tuple) for t in R[2]) or (R[0] == "s" and isinstance(R[1], tuple)):
            for X, Y in ((R, A), (A, R)):
                if X[0] != "d":
                    continue
                fresh = vs.ds_case_real(cmp, X, Y)
                if vs.ds_oracle(cmp, X, Y, (), fresh):
                    return classify(cmp, kind, X, Y, detail)
    else:
        R = ("v", cr[1], dict(cr[2]))
        for X, Y in ((R, A), (A, R)):
            fresh = vs.vs_real(cmp, X, Y)
            if vs.vs_oracle(cmp, X, Y, (), fresh):
                return classify(cmp, kind, X, Y, detail)
    return "C23/%s/%s/%s/result-of-%s-shares-intervals-or-names-with-its-operand" % (name, cmp, kind, op)


def gen_cases(ctx):
    rng = ctx.rng
    cases = []     # (container, op, A, B, extra)
    W = 2
    pool2 = vsa.all_sis(2)
    pool3 = vsa.all_sis(3)
    sets2 = [("d", 2, [a]) for a in pool2] + [("d", 2, [a, b]) for a, b in itertools.combinations(pool2, 2)]
    # every set of <= 2 intervals of width 2 (and of width 1: all non-empty subsets), unary-shaped operations
    pool1 = vsa.all_sis(1)
    sets1 = [("d", 1, list(c)) for k in (1, 2, 3) for c in itertools.combinations(pool1, k)]
    un_ops = [("opneg", ()), ("not", ()), ("collapse", ()), ("normalize", ()), ("cardinality", ()), ("min", ()), ("max", ()), ("smin", ()), ("smax", ()),
              ("hull", ()), ("bk", ()), ("eval", (1,)), ("eval", (3,)), ("eval", (64,))]
    for A in sets1 + sets2:
        w = A[1]
        for op, ex in un_ops + [("zext", (w + 1,)), ("zext", (w + 3,)), ("sext", (w + 1,)), ("sext", (w + 2,))]:
            cases.append(("d", op, A, None, ex))
        for lo in range(w):
            for hi in range(lo, w):
                cases.append(("d", "extract", A, None, (hi, lo)))
    bin_ops = list(vs.DS_BIN) + list(vs.DS_CMP) + list(vs.DS_SET) + ["concat"]
    rbin_ops = list(vs.DS_RBIN)          # interval (op) set: only with an interval as the other operand
    # width 1: every pair of sets; width 2/3: sampled pairs (set x set, set x interval)
    for A in sets1:
        for B in sets1 + [("s", t) for t in pool1]:
            for op in bin_ops + (rbin_ops if B[0] == "s" else []):
                cases.append(("d", op, A, B, ()))
    sets3 = None
    for _ in range(ctx.pick(500, 12000)):
        if rng.random() < 0.6:
            A = rng.choice(sets2); B = rng.choice(sets2 + [("s", t) for t in pool2] * 4)
        else:
            k = rng.choice([1, 2, 3])
            A = ("d", 3, rng.sample(pool3, k)); B = rng.choice([("d", 3, rng.sample(pool3, rng.choice([1, 2]))), ("s", rng.choice(pool3))])
        for op in bin_ops + (rbin_ops if B[0] == "s" else []):
            cases.append(("d", op, A, B, ()))
        if A[1] == 3:
            for op in ("min", "max", "smin", "smax", "hull", "bk"):
                cases.append(("d", op, A, None, ()))
    for _ in range(ctx.pick(60, 1500)):          # wider members: collapse above 256 values
        w = rng.choice([8, 8, 9, 16, 32])
        A = ("d", w, [vsa.rand_si(rng, w) for _ in range(rng.choice([1, 2, 3, 4]))])
        B = rng.choice([("d", w, [vsa.rand_si(rng, w) for _ in range(rng.choice([1, 2]))]), ("s", vsa.rand_si(rng, w))])
        for op in bin_ops:
            cases.append(("d", op, A, B, ()))
        for op, ex in un_ops[:11]:
            cases.append(("d", op, A, None, ex))
    # value sets: regions from a small pool
    REG = ["global", "stack", "heap"]
    for _ in range(ctx.pick(700, 20000)):
        w = rng.choice([2, 3, 3, 4])
        pool = pool2 if w == 2 else (pool3 if w == 3 else None)
        pick = (lambda: rng.choice(pool)) if pool else (lambda: vsa.rand_si(rng, w))
        A = ("v", w, {r: pick() for r in rng.sample(REG, rng.choice([1, 1, 2, 3]))})
        Bs = ("s", pick())
        for op in list(vs.VS_OPS_SI) + ["union", "intersection", "widen", "concat", "lshr"]:
            cases.append(("v", op, A, Bs, ()))
        Bv = ("v", w, {r: pick() for r in rng.sample(REG, rng.choice([1, 2, 3]))})
        for op in ("union", "intersection", "widen"):
            cases.append(("v", op, A, Bv, ()))
        cases.append(("v", "subvs", A, ("v", w, {r: pick() for r in A[2]}), ()))
        # query - combine - query histories (a result must not remember what was read from its operands)
        for op in ("union", "intersection", "widen"):
            cases.append(("v", "hist_" + op, A, Bv, ()))
        for op in ("sub", "mod", "and", "add", "union"):
            cases.append(("v", "hist_" + op, A, Bs, ()))
        for op, ex in [("cardinality", ()), ("eval", (1,)), ("eval", (3,)), ("eval", (50,)), ("min", ()), ("max", ()),
                       ("extract", (w - 1, 0)), ("extract", (w - 2 if w > 1 else 0, 0)), ("extract", (w - 1, w - 1))]:
            cases.append(("v", op, A, None, ex))
    # value sets whose region sets are RELATED (equal / strict subset / strict superset / overlapping), with identical,
    # nested or different intervals on the shared regions: fast paths that compare the operands walk one side's regions only
    VOPS = ("union", "intersection", "widen", "eq", "ne", "ast_union", "ast_intersection", "hist_union")

    def related(A, pick):
        w, regs = A[1], A[2]
        out = [("v", w, dict(regs))]                                           # identical
        free = [r for r in REG if r not in regs]
        if free:                                                               # strict superset, same intervals on the shared regions
            more = dict(regs)
            for r in rng.sample(free, rng.randrange(1, len(free) + 1)):
                more[r] = pick()
            out.append(("v", w, more))
        if len(regs) > 1:                                                      # strict subset
            keep = rng.sample(sorted(regs), rng.randrange(1, len(regs)))
            out.append(("v", w, {r: regs[r] for r in keep}))
        ch = dict(regs)                                                        # same regions, one interval changed
        r0 = rng.choice(sorted(regs))
        ch[r0] = pick()
        out.append(("v", w, ch))
        if free:                                                               # overlapping: one region dropped, one added, one changed
            ov = {r: t for r, t in ch.items() if r != r0 or len(ch) == 1}
            ov[free[0]] = pick()
            out.append(("v", w, ov))
        return out

    for _ in range(ctx.pick(250, 6000)):
        w = rng.choice([2, 3, 3, 4, 8])
        pool = pool2 if w == 2 else (pool3 if w == 3 else None)
        pick = (lambda: rng.choice(pool)) if pool else (lambda: vsa.rand_si(rng, w, p_unaligned=0.05))
        A = ("v", w, {r: pick() for r in rng.sample(REG, rng.choice([1, 1, 2, 2, 3]))})
        for B in related(A, pick):
            for op in VOPS:
                cases.append(("v", op, A, B, ()))
                if B[2] != A[2]:
                    cases.append(("v", op, B, A, ()))
    # sequences: r = a OP b on ONE object a, then r cmp a (all ten comparisons on sets, == / != on value sets), both orders
    al2, al3 = vsa.all_sis(2, aligned_only=True), vsa.all_sis(3, aligned_only=True)
    for _ in range(ctx.pick(350, 8000)):
        w = rng.choice([2, 3, 3])
        pool = al2 if w == 2 else al3
        A = ("d", w, rng.sample(pool, rng.choice([1, 1, 2, 3])))
        B = ("s", rng.choice(pool)) if rng.random() < 0.7 else ("d", w, rng.sample(pool, rng.choice([1, 2])))
        op = rng.choice(vs.SEQ_DS_OPS + ["union", "union"])
        if op == "union" and rng.random() < 0.5:
            B = ("s", rng.choice(A[2]))          # another variable with the bounds of a member (the set compares by value)
        cases.append(("d", "seq_" + op, A, None if op in vs.DS_UN else B, ()))
    for _ in range(ctx.pick(350, 8000)):
        w = rng.choice([2, 3, 3, 4])
        pool = al2 if w == 2 else (al3 if w == 3 else None)
        pick = (lambda: rng.choice(pool)) if pool else (lambda: vsa.rand_si(rng, w, p_unaligned=0.0))
        A = ("v", w, {r: pick() for r in rng.sample(REG, rng.choice([1, 1, 2, 3]))})
        op = rng.choice(vs.SEQ_VS_OPS)
        if op in vs.VS_OPS_SI or rng.random() < 0.3:
            B = ("s", pick())
        else:
            B = rng.choice(related(A, pick))
        cases.append(("v", "seq_" + op, A, B, ()))
    # bounded-exhaustive: every value set over two regions, each absent or one of five intervals; every ordered pair
    for w, five in ((3, [(3, 0, 1, 1), (3, 0, 5, 5), (3, 1, 2, 4), (3, 2, 1, 7), (3, 1, 6, 1)]),):
        opts = [None] + five
        sets_ = [("v", w, {r: t for r, t in zip(("stack", "heap"), c) if t is not None}) for c in itertools.product(opts, repeat=2)]
        for A in sets_:
            for B in sets_:
                for op in ("union", "intersection", "eq", "ne") + (("widen", "ast_union") if ctx.thorough() else ()):
                    cases.append(("v", op, A, B, ()))
    return cases


def run(ctx):
    logging.disable(logging.CRITICAL)
    ctx.cov["trusted_base"] += [
        "concretisation of a set of intervals = union of the members' member sets; of a value set = per region (harness/lib/vsa_sets.py, Lean DSIS.mem / VS.memAt)",
        "the iteration order of Python sets is recorded on the real run and given to the model; theorems hold for every order",
    ]
    ctx.cov["rule"] = ("case = container (set of intervals | region value set) + operation + operands; exhaustive: all sets of <=3 width-1 intervals "
                       "(all pairs, all operations), all sets of <=2 width-2 intervals (unary-shaped operations); sampled pairs at width 2-3; random wide sets "
                       "(collapse above 256 values); value sets over regions {global, stack, heap}; non-trivial = some member is not a singleton")
    ctx.prove("ClaripyProofs.Props.C23", THEOREMS, tests=TESTS, driver_exe="driver_vsa")
    cases = gen_cases(ctx)
    lines, idx, reals = [], [], []
    per_op = collections.defaultdict(lambda: {"modelled": 0, "unmodelled": 0, "cases": 0})
    for i, (cont, op, A, B, ex) in enumerate(cases):
        if cont == "d" and op != "eval" and op not in ("union", "widen", "udiv", "hull", "bk") and op not in vs.DS_RBIN and not op.startswith("seq_") and \
                not (op == "intersection" and B[0] == "d"):
            line, real = ds_line(op, A, B, ex)
            lines.append(line); idx.append(i)
        elif op.startswith("seq_"):
            real = vs.seq_real(cont, op[4:], A, B)
        elif cont == "d":
            real = vs.ds_case_real(op, A, B, ex)
        else:
            real = vs.vs_real(op, A, B, ex)
        reals.append(real)
    try:
        outs = ctx.driver(lines, exe="driver_vsa") if lines else []
    except RuntimeError as e:
        ctx.tie_broken("driver_vsa", str(e)[:300]); outs = ["unmodelled"] * len(lines)
    disagree = {}
    modelled = set()
    for line, i, m in zip(lines, idx, outs):
        cont, op, A, B, ex = cases[i]
        st = per_op["dsis/" + op]
        if m == "unmodelled":
            st["unmodelled"] += 1
            continue
        modelled.add(i)
        st["modelled"] += 1
        ctx.cov["traces_validated_against_impl"] += 1
        if m != canon_str(reals[i]) and op not in disagree:
            disagree[op] = "%s model=%s real=%s" % (line, m, canon_str(reals[i]))
    for op, d in sorted(disagree.items()):
        ctx.tie_broken("corr:dsis.%s" % op, d)
    # the set-level functions of Claripy/VSA/SetOps.lean (the terms the C23_dsis_* / C23_valueset_* theorems are stated about:
    # comparisons, widen, udiv, reflected operations, eval, union, intersection, value-set operations) against the real methods
    setops_corr.run(ctx, {k[5:]: v["modelled"] for k, v in sorted(per_op.items()) if k.startswith("dsis/") and v["modelled"]})
    fails = collections.defaultdict(list)
    idx_set = set(idx)
    for i, (cont, op, A, B, ex) in enumerate(cases):
        ctx.count()
        name = ("dsis/" if cont == "d" else "valueset/") + op
        per_op[name]["cases"] += 1
        if i not in modelled and not (cont == "d" and i in idx_set):
            per_op[name]["unmodelled"] += 1
        ctx.distinct((cont, op, str(A), str(B), ex))
        if op.startswith("seq_"):
            o = vs.seq_oracle(cont, op[4:], A, B, reals[i])
            if o:
                fails[classify_seq(cont, op[4:], o, A, B)].append((cont, op, A, B, ex, reals[i], o))
            continue
        o = vs.ds_oracle(op, A, B, ex, reals[i]) if cont == "d" else vs.vs_oracle(op, A, B, ex, reals[i])
        if o:
            fails[classify(op, o[0], A, B, o[1])].append((cont, op, A, B, ex, reals[i], o))
    for sig, lst in sorted(fails.items()):
        cont, op, A, B, ex, r, o = min(lst, key=lambda c: len(str(c[2])) + len(str(c[3])))
        ctx.violation(sig, "%s %s(%s, %s%s) = %s: %s  [%d case(s)]" % (cont, op, A, B, (", %s" % (ex,)) if ex else "", canon_str(r), o[1], len(lst)),
                      {"container": cont, "op": op, "A": A, "B": B, "extra": list(ex), "observed": canon_str(r)})
    ctx.cov["per_operation"] = {k: dict(v) for k, v in sorted(per_op.items())}
    ctx.cov["failing_classes_seen"] = {k: len(v) for k, v in sorted(fails.items())}
    for i in (0, len(lines) // 2, len(lines) - 1):
        if lines:
            ctx.sample({"case": lines[i], "model": outs[i], "real": canon_str(reals[idx[i]])})


def replay(ctx, obj):
    logging.disable(logging.CRITICAL)
    r = obj["replay"]
    def fix(X):
        if X is None:
            return None
        if X[0] == "v":
            return ("v", X[1], {k: tuple(v) for k, v in X[2].items()})
        if X[0] == "d":
            return ("d", X[1], [tuple(t) for t in X[2]])
        return ("s", tuple(X[1]))
    A, B, ex = fix(r["A"]), fix(r["B"]), tuple(r["extra"])
    if r["op"].startswith("seq_"):
        real = vs.seq_real(r["container"], r["op"][4:], A, B)
        print("case:", r["container"], r["op"], A, B)
        print("real code returns:", real)
        o = vs.seq_oracle(r["container"], r["op"][4:], A, B, real)
        if o:
            print("VIOLATION property=C23 replay=(given)"); print("failure:", o[:2], "signature:", classify_seq(r["container"], r["op"][4:], o, A, B))
            return 1
        print("no failure on the current tree")
        return 0
    real = vs.ds_case_real(r["op"], A, B, ex) if r["container"] == "d" else vs.vs_real(r["op"], A, B, ex)
    print("case:", r["container"], r["op"], A, B, ex)
    print("real code returns:", canon_str(real), "(recorded: %s)" % r.get("observed"))
    o = vs.ds_oracle(r["op"], A, B, ex, real) if r["container"] == "d" else vs.vs_oracle(r["op"], A, B, ex, real)
    if o:
        print("VIOLATION property=C23 replay=(given)"); print("failure:", o)
        return 1
    print("no failure on the current tree")
    return 0
