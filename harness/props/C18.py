"""C18 — pickled expressions and solvers round-trip with identical meaning.
translate (per-class __getstate__/__setstate__ plan) -> prove -> (a) histories with in-place pickle round trips on
every frontend class, judged by brute force and, for the FullFrontend classes, replayed through the Lean model
(which applies `pickleRestore`), (b) solver trees pickled after a random prefix and continued in a FRESH process
with another PYTHONHASHSEED, judged there, (c) expressions: identity in-process, structural equality and equal
truth / value tables in a fresh process."""
import json, os, pickle, subprocess, sys

from lib.common import LEAN, VERIF, write_if_changed
from lib import solvercheck as SC, solverlib as L
import translate_solver as ts
import translate_pickle as tp

THEOREMS = ["Claripy.Props.C18.C18_plan_matches_model", "Claripy.Props.C18.C18_restore_keeps", "Claripy.Props.C18.C18_restore_resets",
            "Claripy.Props.C18.C18_restore_woAnnot", "Claripy.Props.C18.C18_restore_idempotent",
            # the round trip keeps the full C11 invariant SI; a restored solver continues any history like the original
            "Claripy.Props.C18.C18_restore_keeps_invariant", "Claripy.Props.C18.C18_child_restore_keeps_invariant",
            "Claripy.Props.C18.C18_pickle_step_keeps_world", "Claripy.Props.C18.C18_restored_continues",
            "Claripy.Props.C18.C18_restored_same_verdict", "Claripy.Props.C18.C18_restored_twin",
            "Claripy.Solver.si_pickle", "Claripy.Solver.tinvS_append_restored", "Claripy.Solver.tinvS_append_restored_child"]
MODELLED = ["Solver", "SolverCacheless", "SolverStrings", "SolverCompositeChild"]
OTHERS = ["SolverComposite", "SolverHybrid", "SolverReplacement"]
WEIGHTS = {"add": 22, "satisfiable": 8, "eval": 14, "batch_eval": 4, "min": 9, "max": 9, "solution": 6, "simplify": 4, "downsize": 2,
           "branch": 5, "pickle": 12}
A = lambda c, s=0: {"s": s, "op": "add", "cs": [c]}  # noqa: E731
E = lambda e, n, s=0: {"s": s, "op": "eval", "e": e, "n": n, "extra": []}  # noqa: E731
P = lambda s=0: {"s": s, "op": "pickle"}  # noqa: E731
RULES = {
    "caches-dropped": [A("Or(x == 1, x == 2)"), E("x", 5), {"s": 0, "op": "min", "e": "x", "signed": True, "extra": []}, P(), E("x", 5),
                       {"s": 0, "op": "max", "e": "x", "signed": False, "extra": []}, A("x != 2"), E("x", 5)],
    "cached-unsat-kept": [A("ULT(x, 3)"), A("UGE(x, 8)"), {"s": 0, "op": "satisfiable", "extra": []}, P(), {"s": 0, "op": "satisfiable", "extra": []},
                          A("y == 6"), {"s": 0, "op": "satisfiable", "extra": []}],
    "dedup-hashes-kept": [A("ULT(x, 3)"), A("Or(x == 1, x == 2)"), {"s": 0, "op": "simplify"}, P(), A("ULT(x, 3)"), E("x", 5)],
    "pending-constraints": [A("ULT(x, 5)"), {"s": 0, "op": "satisfiable", "extra": []}, A("x != 1"), P(), E("x", 20)],
    "after-branch": [A("ULT(x, 5)"), {"s": 0, "op": "branch"}, P(1), A("x != 1", 1), E("x", 20, 1), E("x", 20, 0), P(0), E("x", 20, 0)],
    "twice": [A("SLT(y, 0)"), P(), P(), E("y", 20)],
    # nothing was checked before the round trip (SolverComposite remembers which children it still has to check)
    "unchecked-before": [A("UGE(x, 8)"), A("ULT(x, 3)"), P(), {"s": 0, "op": "satisfiable", "extra": []}],
    "unchecked-before-two-children": [A("y == 6"), A("UGE(x, 8)"), A("ULT(x, 3)"), P(), {"s": 0, "op": "satisfiable", "extra": []}, E("y", 5)],
    # ONE add() call brings several constraints, one of which contradicts syntactically what is held (the solver that receives it
    # alone notices at once and remembers `unsatisfiable`; whoever sits above it may not) - pickled before the first question
    "contradiction-in-a-multi-add-before": [A("x == 1"), {"s": 0, "op": "add", "cs": ["y == 3", "x == 2"]}, P(), {"s": 0, "op": "satisfiable", "extra": []},
                                            E("y", 5)],
    "contradiction-in-a-multi-add-before-branch": [A("Or(b, y == 0)"), A("x == 5"), {"s": 0, "op": "branch"},
                                                   {"s": 1, "op": "add", "cs": ["x != 5", "ULT(z, 2)"]}, P(1), P(0), E("z", 5, 1),
                                                   {"s": 0, "op": "satisfiable", "extra": []}, {"s": 1, "op": "satisfiable", "extra": []}],
}
# oracle-only classes: ALL solvers of the history through one dump (a solver and its branches come back sharing what they shared)
PA = lambda: {"s": 0, "op": "pickle", "all": True}  # noqa: E731
RULES_TOGETHER = {
    "branches-pickled-together-parent-grows": [A("ULE(x, 11)"), {"s": 0, "op": "branch"}, PA(), A("ULT(x, 3)", 0), E("x", 20, 1), E("x", 20, 0)],
    "branches-pickled-together-child-grows": [A("ULE(x, 11)"), A("y == 6"), E("x", 2), {"s": 0, "op": "branch"}, {"s": 1, "op": "branch"}, PA(),
                                              A("UGE(x, 8)", 2), A("z == y", 1), E("x", 20, 0), E("x", 20, 1), E("z", 20, 2), E("z", 20, 1),
                                              {"s": 0, "op": "max", "e": "x", "signed": False, "extra": []}],
}
# user-level replacements (no brute-force reading): (history, cut) - the solver tuple is copied through pickle after `cut` calls
# and both tuples run the rest, every answer compared.  What a replacement solver WORKED OUT from its replacements (x + 1 under
# x -> 5) is not a replacement: when the replacement changes after the round trip, the restored solver must follow like the original
RP = lambda v, c, s=0: {"s": s, "op": "add", "cs": ["(%s) == %d" % (v, c)], "repl": [v, c]}  # noqa: E731
TWIN_RULES = {
    "replacement-changes-after-round-trip": ([RP("x", 5), E("x + ZeroExt(1, y)", 40), E("x - 1", 40), {"s": 0, "op": "max", "e": "x & 3", "signed": False, "extra": []},
                                              RP("x", 7), E("x - 1", 40), E("x & 3", 40), E("x + ZeroExt(1, y)", 40), E("x", 40)], 4),
    "replacement-changes-on-a-branch-after-round-trip": ([RP("y", 6), A("ULE(x, 11)"), E("y ^ z", 40), E("If(b, y, y + 1)", 40), {"s": 0, "op": "branch"},
                                                          RP("y", 1, 1), E("y ^ z", 40, 1), E("If(b, y, y + 1)", 40, 1), E("y ^ z", 40, 0),
                                                          {"s": 0, "op": "downsize"}, RP("y", 2, 0), E("If(b, y, y + 1)", 40, 0)], 4),
}


def jobs_for(ctx, classes, mult=1):
    jobs = []
    for cls in classes:
        if cls in OTHERS:
            for name, h in RULES_TOGETHER.items():
                jobs.append({"cls": cls, "cfg": {"track": False, "reuse": False}, "hist": h})
        for name, h in RULES.items():
            for cfg in ({"track": False, "reuse": False}, {"track": cls not in ("SolverReplacement", "SolverReplacement:noauto"), "reuse": False}):
                jobs.append({"cls": cls, "cfg": cfg, "hist": h})
        n = ctx.pick(20, 160) * mult
        lens = ctx.pick([10, 20, 30], [30, 60, 100])
        for i in range(n):
            jobs.append({"cls": cls, "cfg": {"track": cls != "SolverReplacement" and i % 5 == 0, "reuse": i % 3 == 0},
                         "len": lens[i % len(lens)], "gen": dict({"weights": WEIGHTS}, **({"pickle_all": 0.4, "max_solvers": 5} if cls in OTHERS else {}))})
        # round trip BEFORE the first question: add() calls with several constraints, half of them contradicting syntactically what the
        # solver holds, pickle, then the first question; random tail with more such adds
        for i in range(ctx.pick(14, 100) * mult):
            jobs.append({"cls": cls, "cfg": {"track": cls != "SolverReplacement" and i % 5 == 0, "reuse": i % 3 == 0},
                         "len": ctx.pick(6, 20), "gen": {"shape": "early-pickle", "weights": WEIGHTS, "contra": 0.25}})
    return jobs


def child(job, hashseed):
    env = dict(os.environ)
    env["PYTHONHASHSEED"] = str(hashseed)
    p = subprocess.run([sys.executable, os.path.join(VERIF, "harness", "lib", "pickle_child.py")], input=json.dumps(job),
                       capture_output=True, text=True, env=env, timeout=300)
    if p.returncode != 0:
        raise RuntimeError("fresh process failed: " + p.stderr[-600:])
    return json.loads(p.stdout)


def cross_process_solvers(ctx, n):
    """prefix here, pickle the whole solver tree, suffix in a fresh process with another hash seed"""
    import claripy
    uni = L.Universe()
    fails = []
    classes = MODELLED[:3] + OTHERS
    for i in range(n):
        cls = classes[i % len(classes)]
        cfg = {"track": cls not in ("SolverReplacement",) and i % 4 == 0, "reuse": False}
        if i % 3 == 2:
            # dumped BEFORE the first question (multi-constraint / contradicting adds only), first asked in the fresh process
            pre = L.prefix_early_pickle(ctx.rng)
            cut = next(k for k, d in enumerate(pre) if d["op"] == "pickle")
            hist = L.gen_history(ctx.rng, ctx.pick(10, 24), prefix=[d for d in pre if d["op"] != "pickle"], contra=0.25)
        else:
            hist = L.gen_history(ctx.rng, ctx.pick(24, 50))
            cut = ctx.rng.randrange(4, max(5, len(hist) - 4))
        prefix, suffix = hist[:cut], hist[cut:]
        kw = {"track": True} if cfg["track"] else {}
        solvers = [L.SOLVER_CLASSES[cls](**kw)]
        for d in prefix:
            if d["s"] < len(solvers):
                L.apply_op(uni, solvers, d)
        blob = pickle.dumps(solvers, -1).hex()
        res = child({"mode": "solvers", "cls": cls, "cfg": cfg, "prefix": prefix, "suffix": suffix, "blob": blob}, ctx.rng.randrange(1, 2 ** 31))
        ctx.count(len(suffix))
        ctx.distinct("xproc:" + str(i) + cls)
        for k, kind, why in res["fails"]:
            if kind.endswith(":replaced-to-constant"):
                continue          # the open C13 finding, round trip or not
            fails.append({"cls": cls, "cfg": cfg, "hist": prefix + [{"s": s_, "op": "pickle"} for s_ in range(len(solvers))] + suffix,
                          "fails": [[len(prefix) + len(solvers) + k, kind + ":fresh-process", why]]})
            break
    return fails


def cross_process_twin(ctx, n):
    """SolverReplacement with user-level replacements, over the annotated variable `xa` (an AST whose hash is different in
    every process): the original answers the suffix here, the restored tuple answers it in a fresh process"""
    import re
    uni = L.Universe()
    w = {"add": 24, "satisfiable": 8, "eval": 14, "batch_eval": 5, "min": 8, "max": 8, "solution": 8, "simplify": 3, "downsize": 4, "branch": 4}
    sub = lambda t: re.sub(r"\bx\b", "xa", t)  # noqa: E731
    bad = []
    for i in range(n):
        cls = ("SolverReplacement", "SolverReplacement:noauto")[i % 2]
        hist = []
        for d in L.gen_history(ctx.rng, ctx.pick(14, 24), weights=w, replace=0.35, replace_any=i % 2 == 1):
            d = dict(d)
            for key in ("cs", "es", "extra"):
                if key in d:
                    d[key] = [sub(t) for t in d[key]]
            if "e" in d:
                d["e"] = sub(d["e"])
            if "repl" in d:
                d["repl"] = [sub(d["repl"][0]), d["repl"][1]]
            if "n" in d:
                d["n"] = 40
            hist.append(d)
        if i == 0:
            hist = [{"s": 0, "op": "add", "cs": ["(xa) == 5"], "repl": ["xa", 5]}, {"s": 0, "op": "eval", "e": "xa + 1", "n": 40, "extra": []},
                    {"s": 0, "op": "max", "e": "xa & 3", "signed": False, "extra": []}]
            cut = 1
        else:
            cut = ctx.rng.randrange(1, max(2, len(hist) - 2))
        solvers = [L.SOLVER_CLASSES[cls]()]
        for d in hist[:cut]:
            if d["s"] < len(solvers):
                L.apply_op(uni, solvers, d)
        blob = pickle.dumps(solvers, -1).hex()
        mine = []
        for d in hist[cut:]:
            mine.append(["skip"] if d["s"] >= len(solvers) else L._norm_out(d, L.apply_op(uni, solvers, d)))
        res = child({"mode": "twin", "blob": blob, "suffix": hist[cut:]}, ctx.rng.randrange(1, 2 ** 31))
        ctx.count(len(hist))
        ctx.distinct("xtwin:%d" % i)
        for k, (a, b) in enumerate(zip(json.loads(json.dumps(mine)), res["outs"])):
            if a != b:
                bad.append({"cls": cls, "hist": hist, "cut": cut, "k": cut + k, "why": "original: %s, restored in a fresh process: %s" % (str(a)[:160], str(b)[:160])})
                break
    return bad


def cross_process_twin_deep(ctx, n):
    """as cross_process_twin, but what gets replaced is a COMPOUND expression standing in for a variable everywhere in the history:
    mostly one whose root carries nothing while a sub-term two or three levels down carries a plain annotation with a string-based
    __hash__ (lib/deepann.py); also root-annotated, floating-point inside, un-annotated.  The history opens with the replacement."""
    import re
    from lib import deepann as DA
    uni = DA.install(L.Universe())
    w = {"add": 24, "satisfiable": 8, "eval": 16, "batch_eval": 5, "min": 8, "max": 8, "solution": 10, "simplify": 3, "downsize": 4, "branch": 4}
    kinds = {"deep-annotated": DA.DEEP, "root-annotated": DA.ROOT, "float-inside": DA.FLOAT, "plain": DA.PLAIN}
    order = ("deep-annotated", "deep-annotated", "root-annotated", "deep-annotated", "float-inside", "deep-annotated", "plain", "deep-annotated")
    bad, dist = [], {"root_has_annotations": 0, "annotations_only_below_root": 0}
    for i in range(n):
        cls = ("SolverReplacement", "SolverReplacement:noauto")[i % 2]
        v, kind = "xyz"[(i // 2) % 3], order[i % len(order)]
        e = ctx.rng.choice(kinds[kind][v])
        dist[kind] = dist.get(kind, 0) + 1
        root, below = DA.shape(uni.parse(e))
        dist["root_has_annotations"] += root
        dist["annotations_only_below_root"] += below and not root
        sub = lambda t: re.sub(r"\b%s\b" % v, lambda _m: e, t)  # noqa: E731, B023
        c0 = ctx.rng.randrange(8)
        hist = [{"s": 0, "op": "add", "cs": ["(%s) == %d" % (e, c0)], "repl": [e, c0]}]
        if i < 2:
            hist += [{"s": 0, "op": "eval", "e": e, "n": 40, "extra": []}, {"s": 0, "op": "eval", "e": "%s + 1" % e, "n": 40, "extra": []},
                     {"s": 0, "op": "max", "e": "%s & 3" % e, "signed": False, "extra": []}, {"s": 0, "op": "solution", "e": e, "v": c0, "extra": []}]
            cut = 1
        else:
            for d in L.gen_history(ctx.rng, ctx.pick(12, 22), weights=w, replace=0.3, replace_any=i % 2 == 1):
                d = dict(d)
                for key in ("cs", "es", "extra"):
                    if key in d:
                        d[key] = [sub(t) for t in d[key]]
                if "e" in d:
                    d["e"] = sub(d["e"])
                if "repl" in d:
                    d["repl"] = [sub(d["repl"][0]), d["repl"][1]]
                if "n" in d:
                    d["n"] = 40
                hist.append(d)
            cut = ctx.rng.randrange(1, max(2, len(hist) - 2))
        seed = ctx.rng.randrange(1, 2 ** 31)
        r = DA.differs(cls, hist, cut, seed)
        ctx.count(len(hist))
        ctx.distinct("xdeep:%d" % i)
        if r and not bad and DA.differs(cls, hist, cut, seed + 1):
            sh, sc = DA.shrink(cls, hist, cut, r[0], seed)
            r2 = DA.differs(cls, sh, sc, seed)
            if not r2:
                sh, sc, r2 = hist, cut, r
            bad.append({"cls": cls, "hist": sh, "cut": sc, "k": r2[0], "why": r2[1], "kind": kind, "hashseed": seed})
    ctx.cov["input_distribution"]["fresh-process-replacements(compound, annotated below the root)"] = dict(dist, solver_tuples=n)
    return bad


# expressions whose hash is different in every process (annotations, floating point) next to ordinary ones
IDENT_SRCS = ["xa", "xa + 1", "xs & 3", "If(ULT(xa, 3), xs, x)", "fa", "fa + FPV(1.5, FSORT_DOUBLE)", "fa == FPV(1.5, FSORT_DOUBLE)",
              "x + 1", "Or(b, x == 7)", "Or(b, xa == 7)", "ZeroExt(1, y) == xs + 1"]


def cross_process_identity(ctx, nchild):
    """a restored expression is an expression of the receiving process like any other: interned under the hash that process
    computes for it, so that building the same expression again yields the same object and dictionaries keyed by hash find it.
    (Whether it is also the object built from SOURCE there is recorded but not demanded: the order of an annotation tuple comes
    from a frozenset and differs between processes, so `xs & 3` built here and restored there are structurally equal only.)"""
    uni = L.Universe()
    asts = [uni.parse(t) for t in IDENT_SRCS]
    native = 0
    for _ in range(nchild):
        res = child({"mode": "ident", "blob": pickle.dumps(asts, -1).hex(), "srcs": IDENT_SRCS}, ctx.rng.randrange(1, 2 ** 31))
        for src, (again, recomputed, found, nat) in zip(IDENT_SRCS, res["ident"]):
            ctx.count()
            native += bool(nat)
            if not (again and recomputed and found):
                ctx.violation("C18/expression/fresh-process-identity",
                              "%s restored in a fresh process: building it again from its parts gives the same object=%s, its hash is the one "
                              "that process computes=%s, found by that hash=%s" % (src, again, recomputed, found), {"expr": src})
                return
        ctx.distinct("xident")
    ctx.cov["input_distribution"]["fresh-process-identity"] = {"expressions": len(IDENT_SRCS) * nchild, "also_the_object_built_from_source": native}


def random_ast(uni, rng, depth=3):
    import claripy
    if depth == 0 or rng.random() < 0.25:
        return uni.parse(rng.choice(L.EXPRS[:8]))
    a, b = random_ast(uni, rng, depth - 1), random_ast(uni, rng, depth - 1)
    if a.size() != b.size():
        b = claripy.ZeroExt(a.size() - b.size(), b) if a.size() > b.size() else b[a.size() - 1:0]
    r = rng.choice([lambda: a + b, lambda: a ^ b, lambda: a & b, lambda: claripy.If(claripy.ULT(a, b), a, b), lambda: a - b,
                    lambda: claripy.Concat(a, b)[a.size() - 1:0], lambda: ~a, lambda: claripy.LShR(a, 1)])()
    q = rng.random()
    if q < 0.2:
        r = r.annotate(claripy.annotation.SimplificationAvoidanceAnnotation())
    elif q < 0.35:
        r = r.annotate(claripy.annotation.StridedIntervalAnnotation(rng.choice([1, 2]), 0, rng.randrange(1, 8)))
    elif q < 0.45:
        r = r.annotate(claripy.annotation.UninitializedAnnotation())
    return r


def expression_round_trips(ctx, n, nchild):
    """in-process identity; fresh process: same structure, same truth / value table"""
    import claripy
    from lib import pickle_child as pc
    uni = L.Universe()
    asts = [random_ast(uni, ctx.rng, ctx.rng.choice([1, 2, 3, 4])) for _ in range(n)]
    asts += [uni.parse(c) for c in L.CONSTRAINTS] + [uni.parse(e) for e in L.EXPRS]
    for a in asts:
        ctx.count()
        b = pickle.loads(pickle.dumps(a, -1))
        if b is not a:
            ctx.violation("C18/expression/in-process-not-identical", "pickle round trip of %s gives a different object" % a, {"expr": str(a)})
            return
    per = max(1, len(asts) // nchild)
    for j in range(nchild):
        chunk = asts[j * per:(j + 1) * per]
        if not chunk:
            break
        res = child({"mode": "exprs", "blob": pickle.dumps(chunk, -1).hex()}, ctx.rng.randrange(1, 2 ** 31))
        for a, st, tb in zip(chunk, res["structs"], res["tables"]):
            ctx.count()
            if st != pc.struct(a):
                ctx.violation("C18/expression/fresh-process-structure", "structure differs after a cross-process round trip: %s vs %s" % (pc.struct(a)[:200], st[:200]),
                              {"expr": str(a)})
                return
            if tb != uni.values(a):
                ctx.violation("C18/expression/fresh-process-meaning", "value table differs after a cross-process round trip of %s" % a, {"expr": str(a)})
                return
        ctx.distinct("xexpr:%d" % j)
    ctx.cov.setdefault("input_distribution", {})["expressions"] = {"asts": len(asts), "fresh_processes": nchild}


def run(ctx):
    ctx._chunk_base = 0
    ctx.cov["trusted_base"] += [
        "the pickle module and process boundaries themselves (observed, not modelled); translator harness/translate_pickle.py (ast of __getstate__/__setstate__)",
        "the C11 hypotheses for the answers after the round trip",
    ]
    ctx.cov["rule"] = ("(a) rule-directed and random histories with in-place pickle round trips (weight 12/95; a part of them opening with multi-constraint / "
                       "syntactically contradicting add() calls and a round trip BEFORE the first question) on Solver, SolverCacheless, SolverStrings, "
                       "SolverCompositeChild (model correspondence) and SolverComposite, SolverHybrid, SolverReplacement (oracle; there 40% of the round trips "
                       "send ALL solvers of the history through one dump, so that branches come back sharing what they shared); (b) solver trees pickled "
                       "after a random prefix, suffix run and judged in a fresh interpreter with a random PYTHONHASHSEED; (c) random annotated expressions "
                       "(depth <= 4): identity in-process, structure and value table equal in a fresh process; (d) SolverReplacement histories with "
                       "add_replacement(variable, constant) - also CHANGING a replacement after the round trip, when expressions over the variable were asked "
                       "about before it -: the restored solver tuple runs side by side with the original, answers compared, in-process and (over a variable whose hash differs between processes; over a compound expression "
                       "replaced as a whole, whose root carries nothing while a sub-term 2-3 levels down carries a plain annotation with a string-based "
                       "__hash__ - also root-annotated, floating point inside, plain) in a fresh process; (e) annotated / floating-point "
                       "expressions restored in a fresh process are the object that process builds natively, under the hash it computes")
    tie_ok = True
    try:
        write_if_changed(os.path.join(LEAN, "Claripy", "Gen", "SolverMro.lean"), ts.render(ts.translate()))
        write_if_changed(os.path.join(LEAN, "Claripy", "Gen", "SolverPickle.lean"), tp.render(tp.translate()))
    except (ts.TranslateError, tp.TranslateError) as e:
        tie_ok = False
        ctx.tie_broken("translate:__getstate__/__setstate__", str(e))
    if tie_ok:
        ctx.prove("ClaripyProofs.Props.C18", THEOREMS, driver_exe="driver_solver")
    else:
        ctx.cov["obligations"] += len(THEOREMS)
        ctx.lake_build(["driver_solver"])
    workers = ctx.pick(4, 6)
    m = SC.run_jobs(ctx, jobs_for(ctx, MODELLED), workers, corr=True, chunk_size=ctx.pick(10, 20))
    SC.merge_cov(ctx, m, "modelled-classes")
    fails = list(m["fails"])
    if m["driver_error"]:
        ctx.tie_broken("driver", m["driver_error"])
    for mm in m["mismatch"][:3]:
        ctx.tie_broken("corr:%s.%s" % (mm["cls"], mm["op"].get("op", "?")),
                       "%s differs after %s (%s); model=%s real=%s" % ("/".join(mm["differs"]), mm["op"], mm["cfg"], mm["model"][:400], mm["real"][:400]))
    m2 = SC.run_jobs(ctx, jobs_for(ctx, OTHERS), workers, corr=False, chunk_size=ctx.pick(10, 20))
    SC.merge_cov(ctx, m2, "other-classes")
    fails += m2["fails"]
    try:
        xf = cross_process_solvers(ctx, ctx.pick(12, 120))
        ctx.cov["input_distribution"]["fresh-process-solvers"] = {"solver_trees": ctx.pick(12, 120)}
        expression_round_trips(ctx, ctx.pick(150, 2000), ctx.pick(2, 10))
        cross_process_identity(ctx, ctx.pick(2, 8))
        for f in cross_process_twin(ctx, ctx.pick(6, 60))[:2]:
            ctx.violation("C18/%s/%s/restored-differs:fresh-process" % (f["cls"], f["hist"][f["k"]]["op"]),
                          "%s %s: %s" % (f["cls"], f["hist"][f["k"]], f["why"]),
                          {"cls": f["cls"], "cfg": {"track": False, "reuse": False}, "history": f["hist"], "twin": "restored", "cut": f["cut"],
                           "note": "the restored tuple lives in a fresh interpreter with another PYTHONHASHSEED; the in-process replay shows the calls"})
        for f in cross_process_twin_deep(ctx, ctx.pick(10, 96))[:2]:
            ctx.violation("C18/%s/%s/restored-differs:fresh-process:replaced-%s" % (f["cls"], f["hist"][f["k"]]["op"], f["kind"]),
                          "%s, pickled after %d calls of %s: call %s: %s" % (f["cls"], f["cut"], json.dumps(f["hist"][:f["cut"]]), f["hist"][f["k"]], f["why"]),
                          {"deep_twin": {"cls": f["cls"], "hist": f["hist"], "cut": f["cut"], "hashseed": f["hashseed"]}})
    except RuntimeError as e:
        ctx.tie_broken("fresh-process", str(e)[:400])
        xf = []
    # user-level replacements of SolverReplacement have no brute-force reading: the restored tuple runs side by side with the
    # original and every answer is compared
    uni = L.Universe()
    tw_ran = 0
    for cls in ("SolverReplacement", "SolverReplacement:noauto", "SolverHybrid"):
        # 40% of the histories open with: add_replacement(v, c), questions about compound expressions over v, [round trip here], the
        # replacement changes (add_replacement(v, c')), the same questions again
        found, ran = L.twin_search(uni, ctx.rng, cls, "restored", ctx.pick(16, 200), ctx.pick(14, 30), approx=0.5 if cls == "SolverHybrid" else 0.0,
                                   directed=0.4)
        cfg0 = {"track": False, "reuse": False}
        for name, (h, cut) in TWIN_RULES.items():
            ran += len(h)
            f = L.run_twin(uni, cls, cfg0, h, "restored", cut)
            if f and L.run_twin(uni, cls, cfg0, h, "restored", cut):
                found.insert(0, {"cls": cls, "cfg": cfg0, "hist": h[:f[0][0] + 1], "cut": cut, "mode": "restored", "fails": [list(f[0])]})
        tw_ran += ran
        ctx.count(ran)
        for f in found[:2]:
            k, kind, why = f["fails"][0]
            ctx.violation("C18/%s/%s/%s" % (cls, f["hist"][k]["op"], kind), "%s %s: %s" % (cls, f["hist"][k], why),
                          {"cls": cls, "cfg": f["cfg"], "history": f["hist"], "twin": "restored", "cut": f["cut"]})
    ctx.cov["input_distribution"]["restored-vs-original(user replacements)"] = {"calls": tw_ran}
    if ctx.broken and not fails:
        m3 = SC.run_jobs(ctx, jobs_for(ctx, MODELLED + OTHERS, mult=2), workers, corr=False, chunk_size=30)
        SC.merge_cov(ctx, m3, "failing-input-search")
        fails += m3["fails"]
    # only failures that involve a round trip belong here; known findings of other properties keep their own signature
    uni = L.Universe()
    mine = []
    for f in fails:
        k, kind, why = f["fails"][0]
        if not any(d["op"] == "pickle" for d in f["hist"][:k]):
            continue
        if kind.endswith(":replaced-to-constant"):
            continue              # the open C13 finding (constant answers without consulting the constraints), round trip or not
        # the same history without the round trips: if it fails all the same the round trip is not to blame
        bare = [d for d in f["hist"][:k + 1] if d["op"] != "pickle"]
        if any(kk == kind for _, kk, _ in L.run_history(uni, f["cls"], f["cfg"], bare)[0]):
            continue
        mine.append(f)
    ctx.cov["failures_without_a_round_trip"] = len(fails) - len(mine)
    SC.report_failures(ctx, "C18", mine)
    for f in xf[:3]:
        k, kind, why = f["fails"][0]
        ctx.violation("C18/%s/%s/%s" % (f["cls"], f["hist"][k]["op"], kind), "%s after a cross-process round trip: %s" % (f["cls"], why),
                      {"cls": f["cls"], "cfg": f["cfg"], "history": f["hist"], "note": "the `pickle` calls stand for a dump here and a load in a fresh interpreter"})


def replay(ctx, obj):
    r = obj["replay"]
    if "deep_twin" in r:
        from lib import deepann as DA
        t = r["deep_twin"]
        for k, d in enumerate(t["hist"]):
            print("  %s%s" % ("[dump here, load in a fresh interpreter] " if k == t["cut"] else "", json.dumps(d)))
        bad = 0
        for seed in (t["hashseed"], t["hashseed"] + 1):
            f = DA.differs(t["cls"], t["hist"], t["cut"], seed)
            print("PYTHONHASHSEED=%d: %s" % (seed, "call %d: %s" % f if f else "restored answers like the original"))
            bad += bool(f)
        if bad == 2:
            print("VIOLATION property=C18 replay=(given)")
            return 1
        return 0
    if "expr" in r and "history" not in r:
        uni = L.Universe()
        try:
            a = uni.parse(r["expr"])
        except Exception:  # noqa: BLE001   a randomly built expression: printed form only
            print("expression %s (randomly built; rerun the check with the recorded seed)" % r["expr"])
            return 0
        bad = 0
        for seed in (11, 12):
            res = child({"mode": "ident", "blob": pickle.dumps([a], -1).hex(), "srcs": [r["expr"]]}, seed)
            print("fresh process, PYTHONHASHSEED=%d: rebuilt is same object, hash recomputed, found by hash, (same as built from source) = %s" % (seed, res["ident"][0]))
            bad += not all(res["ident"][0][:3])
        if bad == 2:
            print("VIOLATION property=C18 replay=(given)")
            return 1
        return 0
    return SC.replay_history("C18", obj)
