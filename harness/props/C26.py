"""C26 — values extracted from models are values the expression actually takes.

prove (numeral / string / float extraction lemmas) -> correspondence (Lean models of the extraction functions vs the real
functions of backend_z3.py applied to real Z3 values) -> oracle on the real code: constraint sets pinning expressions to boundary
values of every sort and random constraint sets; eval / batch_eval / min / max; every returned primitive is substituted back (floats
by bit pattern, NaN as NaN) into a fresh cacheless solver and must be satisfiable together with the constraints."""
import math

from lib import fs_fp as P
from lib import fs_str as F

THEOREMS = [
    "Claripy.Props.C26.bv_extract_ok", "Claripy.Props.C26.str_to_int_unlimited_ok", "Claripy.Props.C26.concat_quirk_ok",
    "Claripy.Props.C26.concat_quirk_neg_zero_wrong", "Claripy.Props.C26.str_extract_ok",
    "Claripy.Props.C26.str_extract_undecoded_wrong", "Claripy.Props.C26.fp_encoded_ok", "Claripy.Props.C26.fp_extract_ok", "Claripy.Props.C26.fp_extract_nan",
]
TESTS = ["Claripy.Props.C26.test_fp_extract_samples"]
WIDTHS = [1, 2, 7, 8, 31, 32, 33, 63, 64, 65, 127, 128, 200, 256]


def bv_values(rng, w, n):
    vals = {0, 1, (1 << w) - 1, 1 << (w - 1), (1 << (w - 1)) - 1, (1 << w) // 3} | {rng.getrandbits(w) for _ in range(n)}
    if w > 64:
        vals |= {1 << 64, (1 << 64) - 1, (1 << 64) + 1, ((1 << w) - 1) ^ ((1 << 64) - 1), 10 ** 19, 10 ** 20 - 1}
    return sorted(v & ((1 << w) - 1) for v in vals)


def float_bits_of(fmt, v):
    """bit pattern (NaN collapsed) of a returned Python float, or an error description"""
    if not isinstance(v, float):
        return ("err", "not a float: %r" % (v,))
    if math.isnan(v):
        return "nan"
    try:
        b = P.float_to_bits(fmt, v)
    except OverflowError:
        return ("err", "not representable in %s: %r" % (fmt, v))
    if fmt == "F" and P.bits_to_float("F", b) != v:
        return ("err", "not a binary32 value: %r" % (v,))
    return b


def from_simplify(ex):
    """the exception was raised inside claripy.simplify / BackendZ3.simplify (property C09, not this one)"""
    tb = ex.__traceback__
    while tb is not None:
        if tb.tb_frame.f_code.co_name == "simplify":
            return True
        tb = tb.tb_next
    return False


def sub_back(constraints, expr, value, kind, fmt=None):
    """is `expr == value` satisfiable together with the constraints?  fresh cacheless solver"""
    import claripy
    s = claripy.SolverCacheless(timeout=5000)
    s.add(list(constraints))
    if kind == "bv":
        s.add(expr == claripy.BVV(value % (1 << expr.length), expr.length))
    elif kind == "str":
        s.add(expr == claripy.StringV(value))
    elif kind == "fp":
        b = float_bits_of(fmt, value)
        if isinstance(b, tuple):
            return False
        if b == "nan":
            s.add(claripy.fpIsNaN(expr))
        else:
            s.add(expr.raw_to_bv() == claripy.BVV(b, P.WIDTH[fmt]))
    elif kind == "bool":
        s.add(expr == claripy.BoolV(value))
    return s.satisfiable()


def run(ctx):
    import claripy
    import claripy.backends.backend_z3 as BZ
    import z3
    rng = ctx.rng
    ctx.cov["trusted_base"] += [
        "what Z3 reports for a value (Z3_get_numeral_uint64 / Z3_get_numeral_string, fpa sign / decimal significand string / exponent, "
        "Z3_get_lstring escaping) is transcribed from Z3 4.13 behaviour in Claripy.Str.Numeral / Claripy.FP.Extract / Claripy.Str.Codec and "
        "validated against the installed library on every run",
        "CPython int(str, 10), float(str), float*float, float*int, 2**e: modelled by the soft-float spec at binary64/RNE resp. exact integer "
        "arithmetic; sampled on every run",
        "the substitute-back query is answered by Z3 through claripy's own literal constructors (BVV, fpToIEEEBV == bits, StringV), whose "
        "exactness is the subject of C01/C02/C03",
        "completeness of eval (all n solutions found, -0.0 vs +0.0 exclusion in _batch_eval) is not part of this property",
    ]
    ctx.cov["rule"] = ("pinned: x == boundary value for bit-vectors of widths 1..256 (0, 1, 2^(w-1)-1, 2^(w-1), 2^w-1, 2^64-1, 2^64, 2^64+1, 10^19, random), "
                       "floats by bit pattern (~120 boundary patterns per format + random; NaN via fpIsNaN), strings over the C03 alphabet and escape-like texts; "
                       "random: interval / arithmetic / float-range / string-length constraint sets; every value returned by eval(n), batch_eval, min, max "
                       "(signed and unsigned) is substituted back.  non-trivial = distinct (query kind, expression, constraints)")
    ctx.prove("ClaripyProofs.Props.C26", THEOREMS, tests=TESTS, driver_exe="driver_fs")
    bz = claripy.backends.z3
    zc = bz._context
    zf = P.ZF()
    zs = F.Z()

    # ---------------------------------------------------------------- correspondence: extraction functions vs Lean models
    lines, expect = [], []
    for w in WIDTHS:
        for v in bv_values(rng, w, 3):
            e = z3.BitVecVal(v, w, zc)
            lines.append("ext bv 4300 %d" % v)
            expect.append(("_abstract_bv_val", "i:%d" % bz._abstract_bv_val(zc.ref(), e.as_ast())))
    saved = BZ.INT_STRING_CHUNK_SIZE
    try:
        for chunk in (1, 3, 7, 4300):
            BZ.INT_STRING_CHUNK_SIZE = chunk
            for _ in range(ctx.pick(25, 200)):
                n = rng.choice([1, 2, 3, 6, 7, 8, 20, 21, 50])
                s = "".join(rng.choice("0123456789") for _ in range(n))
                lines.append("ext str2int %d %s" % (chunk, F.fmt_s(F.cps(s))))
                expect.append(("str_to_int_unlimited", "i:%d" % BZ.str_to_int_unlimited(s)))
    finally:
        BZ.INT_STRING_CHUNK_SIZE = saved
    for _ in range(ctx.pick(60, 500)):
        parts = []
        for _ in range(2):
            size = rng.choice([1, 8, 11, 23, 52])
            val = rng.choice([0, 1, (1 << size) - 1, rng.getrandbits(size)])
            neg = rng.random() < 0.3 and val != 0
            parts.append((size, val, neg))
        zparts = [(-z3.BitVecVal(v, sz, zc)) if ng else z3.BitVecVal(v, sz, zc) for sz, v, ng in parts]
        if len(zparts) < 2:
            continue
        term = z3.Concat(*zparts)
        try:
            got = "i:%d" % bz._abstract_to_primitive(zc.ref(), term.as_ast())
        except Exception as ex:  # noqa
            got = "!" + type(ex).__name__
        lines.append("ext concat " + " ".join("%d:%d:%d" % (sz, v, 1 if ng else 0) for sz, v, ng in parts))
        expect.append(("_abstract_to_primitive/Concat", got))
    for fmt in "FD":
        pool = P.boundary_bits(fmt) + [P.rand_bits(rng, fmt) for _ in range(ctx.pick(300, 4000))]
        for b in pool:
            e = zf.num(fmt, b)
            try:
                v = bz._abstract_to_primitive(zc.ref(), e.as_ast())
                got = "f:D:%s" % P.canon("D", P.float_to_bits("D", v))
            except Exception as ex:  # noqa
                got = "!" + type(ex).__name__
            lines.append("ext fp %s %d" % (fmt, b)); expect.append(("_abstract_fp_val", got))
            if not P.is_nan_bits(fmt, b):
                try:
                    got = "i:%d" % bz._abstract_fp_encoded_val(zc.ref(), e.as_ast())
                except Exception as ex:  # noqa
                    got = "!" + type(ex).__name__
                lines.append("ext fpenc %s %d" % (fmt, b)); expect.append(("_abstract_fp_encoded_val", got))
    try:
        out = ctx.driver(lines, exe="driver_fs")
        seen = set()
        for l, o, (fn, e) in zip(lines, out, expect):
            ctx.count()
            if o != e and fn not in seen:
                seen.add(fn)
                ctx.tie_broken("corr:extract.%s" % fn, "%s model=%s real=%s" % (l, o, e))
        ctx.cov["traces_validated_against_impl"] = len(lines)
    except RuntimeError as e:
        ctx.tie_broken("driver_fs", str(e)[:300])

    # ---------------------------------------------------------------- the property on the real code
    reported = set()

    def bad(sig, what, replay):
        if sig not in reported:
            reported.add(sig)
            ctx.violation(sig, what, replay)

    def check_values(qkind, constraints, expr, values, kind, fmt=None, pinned=None, tag=None):
        """every returned value must be a value of expr in some model; if `pinned` is given it must equal it exactly"""
        for v in values:
            ctx.count()
            if pinned is not None:
                if kind == "fp":
                    okv = float_bits_of(fmt, v) == P.canon(fmt, pinned)
                elif kind == "str":
                    okv = isinstance(v, str) and F.cps(v) == pinned
                else:
                    okv = v == pinned
                if not okv:
                    bad("C26/%s/%s/pinned-value-differs/%s" % (qkind, kind, tag), "%s of an expression pinned to %r returned %r" % (qkind, pinned, v),
                        {"kind": "pinned", "sort": kind, "fmt": fmt, "q": qkind, "value": list(pinned) if isinstance(pinned, tuple) else pinned, "tag": tag})
                    continue
            well_typed = (kind == "bv" and isinstance(v, int) and not isinstance(v, bool) and -(1 << expr.length) < v < (1 << expr.length)) or \
                (kind == "str" and isinstance(v, str)) or (kind == "fp" and isinstance(v, float) and not isinstance(float_bits_of(fmt, v), tuple))
            if not well_typed:
                bad("C26/%s/%s/ill-typed-value/%s" % (qkind, kind, tag), "%s returned %r for a %s expression" % (qkind, v, kind),
                    {"kind": "pinned", "sort": kind, "fmt": fmt, "q": qkind, "value": list(pinned) if isinstance(pinned, tuple) else pinned, "tag": tag})
                continue
            try:
                ok = sub_back(constraints, expr, v, kind, fmt)
            except Exception as ex:  # noqa   (solver timeout / C09 simplify error: inconclusive, never a verdict)
                key = "skipped_simplify_errors" if from_simplify(ex) else "inconclusive_substitutions"
                ctx.cov[key] = ctx.cov.get(key, 0) + 1
                continue
            if not ok:
                bad("C26/%s/%s/value-not-in-any-model/%s" % (qkind, kind, tag), "%s returned %r, which the expression cannot take under the constraints" % (qkind, v),
                    {"kind": "pinned", "sort": kind, "fmt": fmt, "q": qkind, "value": list(pinned) if isinstance(pinned, tuple) else pinned, "tag": tag})

    import time as _t
    ctx.cov['t_corr'] = round(ctx.elapsed(), 1)
    solvers = [claripy.Solver, claripy.SolverCacheless]
    # --- bit-vectors pinned
    for w in WIDTHS:
        for v in bv_values(rng, w, ctx.pick(1, 3)):
            for mk in (solvers if (ctx.thorough() or w in (8, 64, 65, 200)) else solvers[:1]):
                x = claripy.BVS("c26_x", w)
                c = [x == claripy.BVV(v, w)]
                s = mk(); s.add(c)
                tag = "w<=64" if w <= 64 else "w>64"
                ctx.distinct(("bv", w, v, mk.__name__))
                try:
                    check_values("eval", c, x, s.eval(x, 2), "bv", pinned=v, tag=tag)
                    check_values("batch_eval", c, x, [r[0] for r in s.batch_eval([x, x + 1], 2)], "bv", pinned=v, tag=tag)
                    check_values("min", c, x, [s.min(x)], "bv", pinned=v, tag=tag)
                    check_values("max", c, x, [s.max(x)], "bv", pinned=v, tag=tag)
                    y = x + 1 if w > 1 else ~x
                    check_values("eval-derived", c, y, s.eval(y, 2), "bv", tag=tag)
                    if w >= 2:
                        sv = v - (1 << w) if v >> (w - 1) else v
                        got = [s.min(x, signed=True), s.max(x, signed=True)]
                        for g in got:
                            ctx.count()
                            if g % (1 << w) != v:      # the same bit pattern; signed/unsigned presentation is not C26's concern
                                bad("C26/min-max-signed/bv/pinned-value-differs/%s" % tag, "signed min/max of x == %d (w=%d) returned %r" % (v, w, g),
                                    {"kind": "pinned", "sort": "bv-signed", "q": "min", "value": v, "tag": w})
                except Exception as ex:  # noqa
                    if from_simplify(ex):
                        ctx.cov["skipped_simplify_errors"] = ctx.cov.get("skipped_simplify_errors", 0) + 1
                        continue
                    bad("C26/bv/raised/%s/%s" % (type(ex).__name__, tag), "queries on x == %d (w=%d) raised %s: %s" % (v, w, type(ex).__name__, str(ex)[:120]),
                        {"kind": "pinned", "sort": "bv", "q": "eval", "value": v, "tag": w})
    # numerals longer than CPython's int<->str digit limit (4300): the chunked conversion really runs
    for w, v in ((16000, (1 << 15999) + 12345), (14400, 10 ** 4300 + 7), (14400, 10 ** 4299)):
        try:
            x = claripy.BVS("c26_wide", w)
            c = [x == claripy.BVV(v, w)]
            s = claripy.SolverCacheless(); s.add(c)
            ctx.distinct(("bv-wide", w, v))
            got = s.eval(x, 1)
            ctx.count()
            if list(got) != [v]:
                bad("C26/eval/bv/pinned-value-differs/numeral-longer-than-4300-digits", "eval of a %d-bit vector pinned to a %d-digit value returned a different value (differs in %d bits)" % (
                    w, len(BZ.int_to_str_unlimited(v)), bin(got[0] ^ v).count("1") if got else -1), {"kind": "pinned", "sort": "bv", "q": "eval", "value": hex(v), "tag": w})
        except Exception as ex:  # noqa
            if not from_simplify(ex):
                bad("C26/bv/raised/%s/numeral-longer-than-4300-digits" % type(ex).__name__, "eval of a %d-bit pinned vector raised %s: %s" % (w, type(ex).__name__, str(ex)[:120]),
                    {"kind": "pinned", "sort": "bv", "q": "eval", "value": hex(v), "tag": w})
    ctx.cov['t_bv'] = round(ctx.elapsed(), 1)
    # --- floats pinned by bit pattern
    for fmt in "FD":
        S, W = P.sort_obj(fmt), P.WIDTH[fmt]
        pool = P.boundary_bits(fmt) + [P.rand_bits(rng, fmt) for _ in range(ctx.pick(20, 400))]
        if not ctx.thorough():
            special = [b for b in pool if ((b >> (P.FMT[fmt][1] - 1)) & ((1 << P.FMT[fmt][0]) - 1)) in (0, (1 << P.FMT[fmt][0]) - 1)]
            pool = special + rng.sample(pool, 50)
        for b in pool:
            tag = "nan" if P.is_nan_bits(fmt, b) else "subnormal" if ((b >> (P.FMT[fmt][1] - 1)) & ((1 << P.FMT[fmt][0]) - 1)) == 0 else "normal-or-special"
            ctx.distinct(("fp", fmt, b))
            try:
                bv = claripy.BVS("c26_b", W)
                x = bv.raw_to_fp()
                c = [bv == claripy.BVV(b, W)]
                s = claripy.Solver(); s.add(c)
                check_values("eval", c, x, s.eval(x, 1), "fp", fmt, pinned=b, tag=tag)
                check_values("batch_eval", c, x, [r[0] for r in s.batch_eval([x, bv], 1)], "fp", fmt, pinned=b, tag=tag)
                y = claripy.FPS("c26_y", S)
                c = [claripy.fpIsNaN(y)] if P.is_nan_bits(fmt, b) else [y.raw_to_bv() == claripy.BVV(b, W)]
                s = claripy.SolverCacheless(); s.add(c)
                check_values("eval", c, y, s.eval(y, 1), "fp", fmt, pinned=b, tag=tag)
            except Exception as ex:  # noqa
                if from_simplify(ex):
                    ctx.cov["skipped_simplify_errors"] = ctx.cov.get("skipped_simplify_errors", 0) + 1
                    continue
                bad("C26/fp/raised/%s/%s" % (type(ex).__name__, tag), "queries on a %s pinned to bits %#x raised %s: %s" % (fmt, b, type(ex).__name__, str(ex)[:120]),
                    {"kind": "pinned", "sort": "fp", "fmt": fmt, "q": "eval", "value": b, "tag": tag})
    ctx.cov['t_fp'] = round(ctx.elapsed(), 1)
    # --- strings pinned
    spool = [t for t in F.strings_upto(F.ALPHABET, 2) if all(cc <= F.Z3_MAX_CHAR for cc in t)]
    okc = [cc for cc in F.CODEC_ALPHABET if cc <= F.Z3_MAX_CHAR and not 0xD800 <= cc <= 0xDFFF]
    spool += [tuple(rng.choice(okc) for _ in range(rng.randrange(1, 9))) for _ in range(ctx.pick(100, 1000))]
    # text that LOOKS like an escape in some syntax a decoder might know (Z3 prints only \\u{h..}; everything else is literal text)
    tail = [F.cps("\\u{48}"), F.cps("\x00z"), (92, 117), F.cps("\\u{5c}u{48}"), (0x2FFFF, 0, 0xFF, 0x100)]
    tail += [F.cps(t_) for t_ in ("\\x41", "C:\\x64\\bin", "\\x4", "\\xZZ", "\\n", "\\t", "\\\\", "\\101", "\\0", "\\u0041", "\\U00000041", "\\N{BULLET}", "&#x41;", "%41",
                                   "\\u{41", "\\u41}", "a\\x41b\\x42")]
    for _ in range(ctx.pick(20, 200)):
        hx = "0123456789abcdefABCDEF"
        tail.append(F.cps(rng.choice(["", "a", "\\"]) + "\\" + rng.choice(["x", "x", "u", "U", "0", "n"]) + "".join(rng.choice(hx) for _ in range(rng.choice([1, 2, 2, 4, 8]))) + rng.choice(["", "z"])))
    spool += tail
    if not ctx.thorough():
        spool = rng.sample(spool[:-len(tail)], 180) + tail
    for t in spool:
        tag = "escape-relevant" if (92 in t or any(cc == 0 or cc > 255 for cc in t)) else "plain"
        ctx.distinct(("str", t))
        try:
            x = claripy.StringS("c26_s")
            c = [x == claripy.StringV(F.to_str(t))]
            s = claripy.Solver(); s.add(c)
            check_values("eval", c, x, s.eval(x, 2), "str", pinned=t, tag=tag)
            r = s.batch_eval([x, claripy.StrLen(x)], 2)
            check_values("batch_eval", c, x, [g[0] for g in r], "str", pinned=t, tag=tag)
            check_values("batch_eval", c, claripy.StrLen(x), [g[1] for g in r], "bv", pinned=len(t), tag="strlen")
        except Exception as ex:  # noqa
            if from_simplify(ex):
                ctx.cov["skipped_simplify_errors"] = ctx.cov.get("skipped_simplify_errors", 0) + 1
                continue
            bad("C26/str/raised/%s/%s" % (type(ex).__name__, tag), "queries on a string pinned to %r raised %s: %s" % (F.to_str(t), type(ex).__name__, str(ex)[:120]),
                {"kind": "pinned", "sort": "str", "q": "eval", "value": list(t), "tag": tag})
    ctx.cov['t_str'] = round(ctx.elapsed(), 1)
    # --- random constraint sets
    for k in range(ctx.pick(60, 1000)):
        kind = rng.choice(["bv", "bv", "fp", "str"])
        try:
            if kind == "bv":
                w = rng.choice([3, 8, 16, 16, 64, 65, 128])
                x, y = claripy.BVS("c26_x", w), claripy.BVS("c26_y", w)
                lo, hi = sorted(rng.getrandbits(w) for _ in range(2))
                c = [claripy.UGE(x, lo), claripy.ULE(x, hi), rng.choice([y == x * 3 + 1, y == (x ^ (x >> 1)), claripy.ULT(y, x | 1), y + x == rng.getrandbits(w)])]
                e = rng.choice([x, y, x + y, x * y if w <= 16 else x - y, claripy.Concat(x, y), claripy.ZeroExt(7, x) + 5, x[w - 1:w // 2]])
                s = rng.choice(solvers)(timeout=1500); s.add(c)
                ctx.distinct(("rand-bv", k))
                check_values("eval", c, e, s.eval(e, 4), "bv", tag="random")
                if w <= 16 or e is x or e is y:     # the binary search of min/max needs ~w solver calls
                    check_values("min", c, e, [s.min(e)], "bv", tag="random")
                    check_values("max", c, e, [s.max(e)], "bv", tag="random")
                r = s.batch_eval([x, e], 3)
                check_values("batch_eval", c, e, [g[1] for g in r], "bv", tag="random")
            elif kind == "fp":
                fmt = rng.choice("FD")
                S = P.sort_obj(fmt)
                x = claripy.FPS("c26_f", S)
                a, b = P.rand_bits(rng, fmt), P.rand_bits(rng, fmt)
                fa, fb = claripy.FPV(P.bits_to_float(fmt, a), S), claripy.FPV(P.bits_to_float(fmt, b), S)
                c = rng.choice([[claripy.fpGEQ(x, fa)], [claripy.fpLEQ(x, fa), claripy.fpGEQ(x, fb)], [claripy.fpIsInf(x)], [claripy.fpEQ(x, fa)],
                                [claripy.fpLT(claripy.fpAbs(x), fa)], [claripy.fpEQ(claripy.fpAdd(claripy.fp.RM.RM_NearestTiesEven, x, fa), fb)]])
                s = claripy.Solver(timeout=1500); s.add(c)
                ctx.distinct(("rand-fp", k))
                if s.satisfiable():
                    check_values("eval", c, x, s.eval(x, 3), "fp", fmt, tag="random")
                    e = claripy.fpNeg(x)
                    check_values("eval", c, e, s.eval(e, 2), "fp", fmt, tag="random")
            else:
                x = claripy.StringS("c26_s")
                lit = claripy.StringV(F.to_str(tuple(rng.choice([97, 98, 92, 117, 123, 125, 0, 0x100, 0x1F600]) for _ in range(rng.randrange(0, 3)))))
                c = rng.choice([[claripy.StrLen(x) == rng.randrange(0, 4)], [claripy.StrContains(x, lit), claripy.StrLen(x) == 3],
                                [claripy.StrPrefixOf(lit, x), claripy.ULE(claripy.StrLen(x), 3)], [x + lit == lit + x, claripy.StrLen(x) == 2]])
                s = claripy.Solver(timeout=1500); s.add(c)
                ctx.distinct(("rand-str", k))
                if s.satisfiable():
                    check_values("eval", c, x, s.eval(x, 3), "str", tag="random")
                    e = x + lit
                    check_values("eval", c, e, s.eval(e, 2), "str", tag="random")
        except Exception as ex:  # noqa
            if from_simplify(ex):
                ctx.cov["skipped_simplify_errors"] = ctx.cov.get("skipped_simplify_errors", 0) + 1
                continue
            if "timeout" in str(ex).lower() or "unknown" in str(ex).lower() or type(ex).__name__ in ("ClaripySolverInterruptError", "ClaripyZ3Error"):
                ctx.cov["skipped_solver_timeouts"] = ctx.cov.get("skipped_solver_timeouts", 0) + 1
                continue
            bad("C26/random-%s/raised/%s" % (kind, type(ex).__name__), "random %s constraint set %d raised %s: %s" % (kind, k, type(ex).__name__, str(ex)[:150]),
                {"kind": "random", "sort": kind, "seed": ctx.seed, "index": k})
    ctx.cov["t_random"] = round(ctx.elapsed(), 1)
    ctx.sample({"pinned": "x == 2^200+12345 (w=256)", "eval": "returned value substituted back: sat"})
    ctx.sample({"pinned_float_bits": "0x1 (binary64 subnormal)", "extracted": zf.literal_out("D", 1)})
    ctx.sample({"pinned_string": [0, 122, 0x1F600], "extracted": list(zs.literal_out((0, 122, 0x1F600)))})


def replay(ctx, obj):
    import claripy
    r = obj["replay"]
    if r["kind"] == "random":
        print("random constraint sets are regenerated from the seed: rerun `VERIF_SEED=%d ./check C26`" % r["seed"])
        return 2
    sort, v = r["sort"], r["value"]
    if sort in ("bv", "bv-signed"):
        if isinstance(v, str):
            v = int(v, 16)
        w = r["tag"] if isinstance(r["tag"], int) else max(1, v.bit_length())
        x = claripy.BVS("c26_x", w)
        got = None
        for mk in (claripy.SolverCacheless, claripy.Solver):      # the cacheless solver always goes through Z3's numerals
            s = mk(); s.add(x == claripy.BVV(v, w))
            got = [s.eval(x, 2), s.min(x), s.max(x)] if w <= 4096 else [s.eval(x, 2), v, v]
            if got != [(v,), v, v]:
                break
        print("x == %#x (w=%d): eval/min/max -> %s" % (v, w, "as pinned" if got == [(v,), v, v] else [hex(g) if isinstance(g, int) else tuple(map(hex, g)) for g in got]))
        return 0 if got == [(v,), v, v] else 1
    if sort == "fp":
        fmt = r["fmt"]
        W = P.WIDTH[fmt]
        bv = claripy.BVS("c26_b", W)
        s = claripy.Solver(); s.add(bv == claripy.BVV(v, W))
        got = s.eval(bv.raw_to_fp(), 1)
        print("bits %#x as %s: eval ->" % (v, fmt), got)
        return 0 if float_bits_of(fmt, got[0]) == P.canon(fmt, v) else 1
    if sort == "str":
        t = tuple(v)
        x = claripy.StringS("c26_s")
        s = claripy.Solver(); s.add(x == claripy.StringV(F.to_str(t)))
        got = s.eval(x, 2)
        print("x == %r: eval -> %r" % (F.to_str(t), got))
        return 0 if [F.cps(g) for g in got] == [t] else 1
    return 2
