"""C17 — a solver stays correct after the backend gives up.  Same state machine as C11 with an oracle that may answer
`unknown`: the check injects a give-up at check j of call k (every position in the thorough tier), demands a claripy
error from that call, judges every later answer of the solver and of its branches by brute force, and replays the
faulted trace through the Lean model (exception edge included)."""
import os

from lib.common import LEAN, write_if_changed
from lib import solvercheck as SC
import translate_solver as ts

THEOREMS = ["Claripy.Props.C17.C17_mro_solver", "Claripy.Props.C17.C17_giveup_keeps_invariant",
            "Claripy.Props.C17.C17_cacheless_after_giveup", "Claripy.Solver.z3Satisfiable_spec",
            "Claripy.Solver.z3BatchEval_spec", "Claripy.Solver.z3Extrema_spec",
            # the caching class Solver
            "Claripy.Props.C17.C17_solver_giveup_keeps_invariant", "Claripy.Props.C17.C17_solver_after_giveup",
            "Claripy.Props.C17.C17_solver_later_answers_after_giveup", "Claripy.Props.C17.C17_hypotheses_allow_giveups",
            "Claripy.Solver.gHyps", "Claripy.Solver.sol_error_users"]
A = lambda c, s=0: {"s": s, "op": "add", "cs": [c]}  # noqa: E731
E = lambda e, n, s=0: {"s": s, "op": "eval", "e": e, "n": n, "extra": []}  # noqa: E731
RULES = {
    "eval-blocking-clauses": [A("ULT(x, 3)"), E("x", 5), E("x", 5), {"s": 0, "op": "branch"}, E("x", 5, 1)],
    "batch-eval": [A("ULT(x, 3)"), {"s": 0, "op": "batch_eval", "es": ["x", "y"], "n": 5, "extra": []},
                   {"s": 0, "op": "batch_eval", "es": ["x", "y"], "n": 20, "extra": ["SLT(y, 0)"]}, E("y", 20)],
    "extrema": [A("ULE(x, 11)"), {"s": 0, "op": "max", "e": "x", "signed": False, "extra": []},
                {"s": 0, "op": "min", "e": "x", "signed": True, "extra": []}, {"s": 0, "op": "max", "e": "x", "signed": False, "extra": []},
                E("x", 20)],
    "satisfiable-solution": [A("ZeroExt(1, y) == x + 1"), {"s": 0, "op": "satisfiable", "extra": []},
                             {"s": 0, "op": "solution", "e": "x", "v": 3, "extra": []}, {"s": 0, "op": "solution", "e": "x", "v": 9, "extra": []},
                             {"s": 0, "op": "satisfiable", "extra": ["x == 7"]}, E("x", 20)],
    "shared-after-branch": [A("ULT(x, 5)"), {"s": 0, "op": "satisfiable", "extra": []}, {"s": 0, "op": "branch"}, E("x", 3, 1), E("x", 20, 0),
                            A("x != 1", 1), E("x", 20, 1), E("x", 20, 0)],
}


# the frontends built on top of the plain solvers (oracle only): a give-up inside a child / the actual / the exact solver must
# leave them as usable as before
SAT = lambda s=0: {"s": s, "op": "satisfiable", "extra": []}  # noqa: E731
RULES_OTHERS = {
    "unsat-child-pending": [A("y == 6"), A("ULT(x, 3)"), A("UGE(x, 8)"), SAT(), SAT(), E("y", 5)],
    "two-children-pending": [A("ULT(z, 2)"), A("SLT(y, 0)"), A("Or(x == 1, x == 2)"), A("x == 5"), SAT(), E("z", 5), SAT()],
    "sat-children-then-add": [A("ULT(x, 3)"), A("y == 6"), SAT(), A("UGE(x, 8)"), SAT(), SAT(), E("x", 5)],
    "extra-then-plain": [A("ULT(x, 3)"), A("y == 6"), {"s": 0, "op": "satisfiable", "extra": ["UGE(x, 8)"]}, SAT(), E("x", 5)],
}
OTHERS = ("SolverComposite", "SolverHybrid", "SolverReplacement")


def jobs_others(ctx, mult=1):
    jobs = []
    for cls in OTHERS:
        for name, h in RULES_OTHERS.items():
            jobs.append({"cls": cls, "cfg": {"track": False, "reuse": False}, "hist": h, "faults_n": "all" if ctx.thorough() or cls == "SolverComposite" else 4})
        lens = ctx.pick([6, 10, 14], [8, 14, 24])
        for i in range(ctx.pick(8, 70) * mult):
            jobs.append({"cls": cls, "cfg": {"track": False, "reuse": i % 3 == 0}, "len": lens[i % len(lens)], "faults_n": ctx.pick(4, 12)})
    return jobs


def jobs_for(ctx, mult=1):
    jobs = []
    for cls in ("Solver", "SolverCacheless"):
        for name, h in RULES.items():
            for cfg in ({"track": False, "reuse": False}, {"track": True, "reuse": False}, {"track": False, "reuse": True}):
                jobs.append({"cls": cls, "cfg": cfg, "hist": h, "faults_n": "all" if ctx.thorough() else 6})
    n = {"Solver": ctx.pick(14, 140) * mult, "SolverCacheless": ctx.pick(10, 90) * mult, "SolverStrings": ctx.pick(4, 40) * mult}
    lens = ctx.pick([6, 10, 14], [8, 14, 24])
    for cls, k in n.items():
        for i in range(k):
            jobs.append({"cls": cls, "cfg": {"track": i % 5 == 0, "reuse": i % 3 == 0}, "len": lens[i % len(lens)],
                         "faults_n": ctx.pick(5, 14)})
    return jobs


def run(ctx):
    ctx._chunk_base = 0
    ctx.cov["trusted_base"] += [
        "give-ups are exhibited only at check-call boundaries (z3_solver_sat raises what it raises for `timeout`); an asynchronous "
        "interrupt inside Z3 or between two Python statements is not modelled",
        "OracleExact for the checks that do answer; BuildExact, SimplifyEquiv, CheapSound as for C11; recorder; MRO translator",
    ]
    ctx.cov["rule"] = ("for each base history (rule-directed: blocking clauses, batch_eval, extrema, satisfiable/solution, shared solver after "
                       "branch; random of length <= 14 quick / 24 thorough) a give-up is injected at check j of call k for sampled (quick) or all "
                       "(thorough, rule-directed) positions; every later answer of every solver of the history is judged; the same on SolverComposite (pending / unsatisfiable children), "
                       "SolverHybrid and SolverReplacement, oracle only; non-trivial = faulted history")
    tie_ok = True
    try:
        write_if_changed(os.path.join(LEAN, "Claripy", "Gen", "SolverMro.lean"), ts.render(ts.translate()))
    except ts.TranslateError as e:
        tie_ok = False
        ctx.tie_broken("translate:solvers.py/__mro__", str(e))
    if tie_ok:
        ctx.prove("ClaripyProofs.Props.C17", THEOREMS, driver_exe="driver_solver")
    else:
        ctx.cov["obligations"] += len(THEOREMS)
        ctx.lake_build(["driver_solver"])
    workers = ctx.pick(4, 6)
    m = SC.run_jobs(ctx, jobs_for(ctx), workers, corr=True, chunk_size=ctx.pick(4, 6))
    SC.merge_cov(ctx, m, "fault-injection")
    ctx.cov["input_distribution"]["fault-injection"]["faulted_histories"] = m["faulted"]
    fails = list(m["fails"])
    if m["driver_error"]:
        ctx.tie_broken("driver", m["driver_error"])
    for mm in m["mismatch"][:3]:
        ctx.tie_broken("corr:%s.%s" % (mm["cls"], mm["op"].get("op", "?")),
                       "%s differs after %s (%s); model=%s real=%s" % ("/".join(mm["differs"]), mm["op"], mm["cfg"], mm["model"][:400], mm["real"][:400]))
    mo = SC.run_jobs(ctx, jobs_others(ctx), workers, corr=False, chunk_size=ctx.pick(4, 6))
    SC.merge_cov(ctx, mo, "fault-injection(composite, hybrid, replacement)")
    ctx.cov["input_distribution"]["fault-injection(composite, hybrid, replacement)"]["faulted_histories"] = mo["faulted"]
    fails += mo["fails"]
    if ctx.broken and not fails:
        m2 = SC.run_jobs(ctx, jobs_for(ctx, mult=3), workers, corr=True, chunk_size=6)
        SC.merge_cov(ctx, m2, "failing-input-search")
        fails += m2["fails"]
    # the open C13 finding (constant answers without consulting the constraints) shows with or without a give-up: it keeps its own signature
    fails = [f for f in fails if not f["fails"][0][1].endswith(":replaced-to-constant")]
    # failures of un-faulted histories belong to C11
    SC.report_failures(ctx, "C17", [f for f in fails if any(d.get("fault") is not None for d in f["hist"])])
    other = [f for f in fails if not any(d.get("fault") is not None for d in f["hist"])]
    if other:
        SC.report_failures(ctx, "C17", other[:1])


def replay(ctx, obj):
    return SC.replay_history("C17", obj)
