"""C20 — solvers used from several threads answer as if used alone.

translate:   inventory of every process-wide mutable binding in claripy's source (harness/translate_shared.py) + the committed
             classification (harness/shared_state_classes.json) -> lean/Claripy/Gen/SharedState.lean
prove:       ClaripyProofs.Props.C20 (every cell classified; memo stores are transparent under ANY interleaving with evictions)
correspond:  the classification is audited on the live process: cells classified readOnlyAfterImport are unchanged by a workload,
             memo caches hold values that are functions of their keys (recomputed), threadLocal cells differ per thread
oracle:      2..16 threads run random solver histories concurrently (own solvers, shared expression pool, varied switch interval);
             every answer is compared with a solo replay of the same history; the histories also pin floating-point variables to
             constants of both signs and evaluate floating-point expressions (answers compared as bit patterns, NaN-aware)
             + lib/c20_stages.py: "fresh-truth" rounds (is_true/is_false about formulas new in the round that only Z3 decides, solo
             reference from a fresh interpreter because the verdicts are memoised process-wide) and "gated out-parameters" (two
             threads held after every z3 out-parameter call until the other has made the same call - deterministic)
"""
import collections, copy, os, sys, threading

import claripy

from lib import exprs as E
from lib import c20_stages as ST
from lib.common import LEAN, write_if_changed
import translate_shared as ts

THEOREMS = ["Claripy.Props.C20.C20_all_classified", "Claripy.Props.C20.C20_interleave_eq_solo", "Claripy.Props.C20.step_inv",
            "Claripy.Props.C20.serve_spec", "Claripy.Props.C20.run_inv"]


class Pool:
    """shared expressions of a round: exprs/cons (4-bit vectors, Booleans), fvars/fexprs/fconsts (floating point)"""

    def __init__(self, exprs, cons):
        self.exprs, self.cons = exprs, cons
        self.fvars, self.fexprs, self.fconsts, self.sort = [], [], [], None


FP_CONSTS = [1.5, -1.5, 2.75, -2.75, 0.0, -0.0, float("inf"), float("-inf"), 1e-40, -1e-40, 3.0e38, -3.0e38, 0.1, -0.1, 6.0, -6.0]


def make_pool(rng, tag):
    exprs, cons = make_bv_pool(rng, tag)
    pool = Pool(exprs, cons)
    # floating point: two variables of one sort; constants of both signs (zeros, infinities, a float32 subnormal)
    pool.sort = rng.choice([claripy.FSORT_FLOAT, claripy.FSORT_DOUBLE])
    f, g = [claripy.FPS("%s_%s" % (tag, n), pool.sort, explicit_name=True) for n in "fg"]
    pool.fvars = [f, g]
    pool.fconsts = [rng.choice(FP_CONSTS) if rng.random() < 0.7 else rng.choice([-1.0, 1.0]) * rng.randrange(1, 1000) / 8.0 for _ in range(6)]
    # (expression, indices of the variables it reads)
    pool.fexprs = [(f, {0}), (g, {1}), (-f, {0}), (claripy.fpAbs(g), {1}), (f + g, {0, 1}), (f * g, {0, 1}), (f - g, {0, 1}),
                   (claripy.fpToIEEEBV(f), {0}), (g.raw_to_bv(), {1}), (claripy.fpNeg(g) + claripy.FPV(1.0, pool.sort), {1})]
    return pool


def make_bv_pool(rng, tag):
    """shared expression pool over three 4-bit variables and a Boolean"""
    w = 4
    xs = [claripy.BVS("%s_%s" % (tag, n), w, explicit_name=True) for n in "abc"]
    p = claripy.BoolS("%s_p" % tag, explicit_name=True)
    exprs = list(xs)
    for _ in range(12):
        a, b = rng.choice(exprs), rng.choice(exprs)
        exprs.append(rng.choice([a + b, a - b, a ^ b, a & b, a | 1, a * 3, claripy.LShR(a, 1), claripy.If(p, a, b), a + rng.randrange(16)]))
    cons = []
    for _ in range(16):
        a, b = rng.choice(exprs), rng.choice(exprs)
        k = rng.randrange(16)
        cons.append(rng.choice([claripy.ULT(a, k), a == b, a != k, claripy.SLE(a, b), claripy.Or(a == k, b == k), claripy.UGE(a, b), p, claripy.Not(p),
                                claripy.And(a > 1, a < 14), (a & 3) == (k & 3)]))
    # formulas for is_true / is_false (indices >= 16): ones only the Z3 rewriter decides, ones nothing cheap decides
    for _ in range(8):
        a, b = rng.choice(exprs), rng.choice(exprs)
        cons.append(rng.choice([a + b == b + a, a + 1 == a, claripy.ULE(a & b, a), (a ^ b) != (b ^ a), claripy.UGE(a | b, b), a * 2 == a + a,
                                claripy.ULT(a, b), a == b + 1]))
    return exprs, cons


def gen_history(rng, pool, n):
    exprs, cons = pool.exprs, pool.cons
    h = []
    pinned = set()
    for _ in range(n):
        r = rng.random()
        if rng.random() < 0.14:
            # floating point: pin a variable to a constant, or evaluate an expression whose variables are all pinned (its set of
            # values is then complete within the asked number, hence a function of the history and not of the models Z3 picks)
            free = [i for i in range(len(pool.fvars)) if i not in pinned]
            ready = [i for i, (e, vs) in enumerate(pool.fexprs) if vs <= pinned]
            if free and (not ready or rng.random() < 0.45):
                i = rng.choice(free)
                pinned.add(i)
                h.append(("fpin", i, rng.randrange(len(pool.fconsts))))
            elif ready:
                h.append(("fbatch",) if len(free) == 0 and rng.random() < 0.2 else ("feval", rng.choice(ready)))
            continue
        if r < 0.3:
            h.append(("add", rng.randrange(16)))
        elif r < 0.4:
            h.append(("satisfiable",))
        elif r < 0.6:
            h.append(("eval", rng.randrange(len(exprs)), 64))
        elif r < 0.7:
            h.append(("min", rng.randrange(len(exprs)), rng.random() < 0.3))
        elif r < 0.8:
            h.append(("max", rng.randrange(len(exprs)), rng.random() < 0.3))
        elif r < 0.88:
            h.append(("solution", rng.randrange(len(exprs)), rng.randrange(16)))
        elif r < 0.93:
            h.append(("simplify",))
        elif r < 0.96:
            h.append(("branch",))
        elif r < 0.985:
            h.append(("truth", rng.randrange(len(cons))))
        else:
            h.append(("build", rng.randrange(len(exprs)), rng.randrange(len(exprs))))
    return h


def run_history(cls, pool, hist):
    """-> list of canonical answers"""
    exprs, cons = pool.exprs, pool.cons
    if hist and hist[0] == "family":
        return run_family_history(cls, exprs, cons, hist[1], lambda t, fn: fn())
    s = cls()
    out = []
    for op in hist:
        try:
            if op[0] == "add":
                s.add(cons[op[1]]); out.append("ok")
            elif op[0] == "satisfiable":
                out.append(s.satisfiable())
            elif op[0] == "eval":
                out.append(tuple(sorted(s.eval(exprs[op[1]], op[2]))))
            elif op[0] == "min":
                # the optimum as an n-bit pattern (C11's criterion): a signed optimum comes back as a negative int from the
                # Z3 bisection and as the unsigned pattern from the model cache - which path answers depends on the models Z3
                # happened to return, not on the history
                out.append(s.min(exprs[op[1]], signed=op[2]) % (1 << exprs[op[1]].length))
            elif op[0] == "max":
                out.append(s.max(exprs[op[1]], signed=op[2]) % (1 << exprs[op[1]].length))
            elif op[0] == "solution":
                out.append(s.solution(exprs[op[1]], op[2]))
            elif op[0] == "simplify":
                s.simplify(); out.append("ok")
            elif op[0] == "branch":
                s = s.branch(); out.append("ok")
            elif op[0] == "truth":
                out.append((s.is_true(cons[op[1]]), s.is_false(cons[op[1]])))
            elif op[0] == "build":
                e = (exprs[op[1]] + exprs[op[2]]) ^ exprs[op[1]]
                out.append((e.length, tuple(sorted(e.variables)), e.depth))
            elif op[0] == "fpin":
                s.add(pool.fvars[op[1]] == claripy.FPV(pool.fconsts[op[2]], pool.sort)); out.append("ok")
            elif op[0] == "feval":
                # a pinned variable has at most two values (the two zeros), an expression over both at most four
                out.append(ST.canon_values(s.eval(pool.fexprs[op[1]][0], 8)))
            elif op[0] == "fbatch":
                out.append(ST.canon_values([tuple(v) for v in s.batch_eval([e for e, vs in pool.fexprs[:2]], 8)]))
        except claripy.errors.UnsatError:
            out.append("UnsatError")
        except claripy.errors.ClaripyError as ex:
            out.append("ClaripyError:" + type(ex).__name__)
    return out


def gen_family_history(rng, exprs, cons, n):
    """operations over a family of solvers (a solver and its branches, all owned by ONE thread: the property quantifies over threads
    working on their own solver objects; handing one solver object from thread to thread is outside it — FullFrontend keeps its Z3
    solver in a thread-local slot and its pending-constraint queue per object, so a solver handed over can answer from a stale Z3
    solver; observed, not a C20 violation)"""
    h = []
    nsolvers = 1
    for _ in range(n):
        r = rng.random()
        s = rng.randrange(nsolvers)
        t = rng.randrange(3)
        if r < 0.25:
            h.append((t, s, "add", rng.randrange(len(cons))))
        elif r < 0.37 and nsolvers < 4:
            h.append((t, s, "branch")); nsolvers += 1
        elif r < 0.47:
            h.append((t, s, rng.choice(["downsize", "simplify"])))
        elif r < 0.62:
            h.append((t, s, "eval", rng.randrange(len(exprs)), 64))
        elif r < 0.74:
            h.append((t, s, "solution", rng.randrange(len(exprs)), rng.randrange(16)))
        elif r < 0.84:
            h.append((t, s, "satisfiable"))
        elif r < 0.92:
            h.append((t, s, "max", rng.randrange(len(exprs))))
        else:
            h.append((t, s, "min", rng.randrange(len(exprs))))
    return h


def run_family_history(cls, exprs, cons, hist, call):
    fam = [cls()]
    out = []
    for op in hist:
        t, si, kind = op[0], op[1], op[2]
        s = fam[si]

        def do():
            if kind == "add":
                s.add(cons[op[3]]); return "ok"
            if kind == "branch":
                fam.append(s.branch()); return "ok"
            if kind == "downsize":
                s.downsize(); return "ok"
            if kind == "simplify":
                s.simplify(); return "ok"
            if kind == "eval":
                return tuple(sorted(s.eval(exprs[op[3]], op[4])))
            if kind == "solution":
                return s.solution(exprs[op[3]], op[4])
            if kind == "satisfiable":
                return s.satisfiable()
            if kind == "max":
                return s.max(exprs[op[3]])
            return s.min(exprs[op[3]])
        try:
            out.append(call(t, do))
        except claripy.errors.UnsatError:
            out.append("UnsatError")
        except claripy.errors.ClaripyError as ex:
            out.append("ClaripyError:" + type(ex).__name__)
    return out


def run(ctx):
    ctx.cov["trusted_base"] += [
        "translator harness/translate_shared.py (module/class-level mutable bindings, backend-singleton containers, threading.local attributes) and the "
        "committed classification harness/shared_state_classes.json",
        "NOT exhibited by the model: atomicity of single dict/set/WeakValueDictionary operations under the GIL, Z3 context thread affinity, races inside Z3; "
        "these are only exercised by the concurrent runs",
        "hash-consing under threads may create duplicate objects for one structure (check-then-insert race): harmless for answers, C06 is not claimed under threads",
    ]
    ctx.cov["rule"] = ("cases = rounds of T threads (2..16), each thread running a random history of 12..40 solver operations on its own Solver/"
                       "SolverComposite/SolverCacheless over a pool of shared expressions; non-trivial = round with at least two threads issuing Z3 queries; "
                       "distinct = (round, thread); half of the threads work on a family (a solver and its branches, with simplify/downsize); "
                       "the other histories also pin two floating-point variables to constants of either sign and evaluate floating-point expressions; "
                       "+ fresh-truth rounds (2..12 threads asking is_true/is_false about formulas new in the round, solo reference from a fresh "
                       "interpreter) + gated pairs (two threads, every z3 out-parameter call of one held until the other has made the same call)")
    tie_ok = True
    try:
        cells = ts.translate()
        classes = ts.load_classes()
        write_if_changed(os.path.join(LEAN, "Claripy", "Gen", "SharedState.lean"), ts.render(cells, classes))
        unclassified = ["%s:%s" % (r, n) for r, n, k in cells if classes.get("%s:%s" % (r, n), {}).get("class", "unclassified") == "unclassified"]
        ctx.cov["translated"] = {"cells": len(cells), "by_class": dict(collections.Counter(classes.get("%s:%s" % (r, n), {}).get("class", "unclassified") for r, n, k in cells))}
        if unclassified:
            ctx.notes.append("unclassified shared cells: %s" % unclassified)
    except (ts.TranslateError, SyntaxError) as e:
        tie_ok = False
        ctx.tie_broken("translate:shared-state", str(e)[:300])
    if tie_ok:
        ctx.prove("ClaripyProofs.Props.C20", THEOREMS)
    else:
        ctx.cov["obligations"] += len(THEOREMS)
    rng = ctx.rng
    # ---- audit of the classification on the live process
    import claripy.operations as ops
    import claripy.backends.backend_z3 as bz
    snap = {"opposites": dict(ops.opposites), "op_map": dict(bz.op_map), "infix": dict(ops.infix), "simplifiers": dict(claripy.simplifications._all_simplifiers)}
    # ---- concurrent rounds
    rounds = ctx.pick(20, 150) * (3 if ctx.broken else 1)
    old_interval = sys.getswitchinterval()
    total_threads = 0
    mismatches = 0
    fp_ops = 0
    try:
        for r in range(rounds):
            T = rng.choice([2, 2, 3, 4, 8]) if not ctx.thorough() else rng.choice([2, 3, 4, 8, 12, 16])
            sys.setswitchinterval(rng.choice([1e-6, 1e-5, 1e-4, 5e-3]))
            pool = make_pool(rng, "r%d" % r)
            exprs, cons = pool.exprs, pool.cons
            hists = [gen_history(rng, pool, rng.choice([12, 24, 40])) if rng.random() < 0.5 else
                     ("family", gen_family_history(rng, exprs, cons, rng.choice([12, 24, 40]))) for _ in range(T)]
            classes_ = [rng.choice([claripy.Solver, claripy.Solver, claripy.SolverComposite, claripy.SolverCacheless]) for _ in range(T)]
            # workers analysing the same thing: some threads run the very same history (on their own solver objects) at the same time
            for i in range(1, T):
                if rng.random() < 0.35:
                    j = rng.randrange(i)
                    hists[i], classes_[i] = hists[j], classes_[j]
            results = [None] * T
            errors = [None] * T
            barrier = threading.Barrier(T)

            def work(i):
                try:
                    barrier.wait(timeout=180)
                    results[i] = run_history(classes_[i], pool, hists[i])
                except BaseException as ex:  # noqa
                    errors[i] = repr(ex)
            threads = [threading.Thread(target=work, args=(i,)) for i in range(T)]
            for t in threads:
                t.start()
            for t in threads:
                t.join(timeout=900)
            sys.setswitchinterval(old_interval)
            for i in range(T):
                ctx.count()
                total_threads += 1
                ctx.distinct((r, i))
                fp_ops += sum(1 for o in hists[i] if isinstance(o, tuple) and o[0] in ("feval", "fbatch"))
                solo = run_history(classes_[i], pool, hists[i])
                if errors[i] is not None or results[i] is None:
                    ctx.violation("C20/thread-crashed/%s" % classes_[i].__name__, "thread %d of %d crashed: %s" % (i, T, errors[i]),
                                  {"round": r, "threads": T, "history": hists[i], "error": errors[i]})
                    continue
                if results[i] != solo:
                    k = next(j for j in range(len(solo)) if results[i][j] != solo[j])
                    # re-check solo determinism before blaming concurrency
                    solo2 = run_history(classes_[i], pool, hists[i])
                    if solo2 != solo:
                        ctx.notes.append("solo replay itself is not deterministic for %s at step %d" % (classes_[i].__name__, k))
                        continue
                    mismatches += 1
                    flat = hists[i][1] if hists[i][0] == "family" else hists[i]
                    ctx.violation("C20/answer-differs/%s/%s" % (classes_[i].__name__, flat[k][2] if hists[i][0] == "family" else flat[k][0]),
                                  "with %d threads, thread %d (%s) step %d %r answered %r; alone it answers %r" % (
                                      T, i, classes_[i].__name__, k, flat[k], results[i][k], solo[k]),
                                  {"round": r, "threads": T, "class": classes_[i].__name__, "history": hists[i], "step": k,
                                   "concurrent": repr(results[i][k]), "solo": repr(solo[k])})
            if r == 0:
                ctx.sample({"threads": T, "history": [list(o) if isinstance(o, tuple) else o for o in (hists[0][1] if hists[0][0] == "family" else hists[0])[:10]], "answers": [repr(a) for a in (results[0] or [])[:10]]})
    finally:
        sys.setswitchinterval(old_interval)
    # ---- directed stages (lib/c20_stages.py)
    scale = 3 if ctx.broken else 1
    truth_cov = ST.truth_stage(ctx, ctx.pick(8, 40) * scale)
    gated_cov = ST.gated_stage(ctx, ctx.pick(16, 80) * scale)
    # readOnlyAfterImport cells unchanged by the workload
    now = {"opposites": dict(ops.opposites), "op_map": dict(bz.op_map), "infix": dict(ops.infix), "simplifiers": dict(claripy.simplifications._all_simplifiers)}
    for k in snap:
        if snap[k] != now[k]:
            ctx.tie_broken("corr:readOnlyAfterImport", "%s changed during the workload although it is classified read-only" % k)
    # memo caches hold functions of their keys
    audited = 0
    for h, a in list(claripy.ast.base.Base._hash_cache.items())[:5000]:
        audited += 1
        if a._hash != h:
            ctx.tie_broken("corr:memo:_hash_cache", "entry %d holds an AST with hash %d" % (h, a._hash)); break
    import importlib
    simp_mod = importlib.import_module("claripy.algorithm.simplify")
    for h, a in list(simp_mod.simplification_cache.items())[:300]:
        orig = claripy.ast.base.Base._hash_cache.get(h)
        if orig is not None and isinstance(orig, (claripy.ast.BV, claripy.ast.Bool)):
            audited += 1
            try:
                ot, st = E.from_ast(orig), E.from_ast(a)
            except E.Unsupported:
                continue
            vs = E.variables(ot)
            for k_, w_ in E.variables(st).items():
                vs.setdefault(k_, w_)
            for env in E.sample_envs(vs, rng, 8):
                if E.ev(ot, env) != E.ev(st, env):
                    ctx.tie_broken("corr:memo:simplification_cache", "cached simplification of %r is %r (differs at %s)" % (orig, a, env))
                    break
    conc = claripy.backends.concrete
    for h, v in list(conc._true_cache.items())[:2000]:
        a = claripy.ast.base.Base._hash_cache.get(h)
        if a is not None:
            audited += 1
            try:
                fresh = conc._is_true(conc.convert(a))
            except claripy.errors.BackendError:
                continue
            if bool(fresh) != bool(v):
                ctx.tie_broken("corr:memo:_true_cache", "cached %r for %r, recomputed %r" % (v, a, fresh)); break
    ctx.cov["traces_validated_against_impl"] = total_threads
    ctx.cov["input_distribution"] = {"rounds": rounds, "thread_runs": total_threads, "memo_entries_audited": audited,
                                     "fp_operations_in_histories": fp_ops, "fresh_truth": truth_cov, "gated_out_parameters": gated_cov}


def replay(ctx, obj):
    r = obj["replay"]
    if r.get("kind") == "fresh-truth":
        return ST.replay_truth(r)
    if r.get("kind") == "gated":
        return ST.replay_gated(r)
    print("concurrency failures depend on the schedule; the recorded history is replayed solo and with 8 identical threads")
    print(r.get("class"), r.get("history"))
    return 1
