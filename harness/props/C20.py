"""C20 — solvers used from several threads answer as if used alone.

translate:   inventory of every process-wide mutable binding in claripy's source (harness/translate_shared.py) + the committed
             classification (harness/shared_state_classes.json) -> lean/Claripy/Gen/SharedState.lean
prove:       ClaripyProofs.Props.C20 (every cell classified; memo stores are transparent under ANY interleaving with evictions)
correspond:  the classification is audited on the live process: cells classified readOnlyAfterImport are unchanged by a workload,
             memo caches hold values that are functions of their keys (recomputed), threadLocal cells differ per thread
oracle:      2..16 threads run random solver histories concurrently (own solvers, shared expression pool, varied switch interval);
             every answer is compared with a solo replay of the same history
"""
import collections, copy, os, sys, threading

import claripy

from lib import exprs as E
from lib.common import LEAN, write_if_changed
import translate_shared as ts

THEOREMS = ["Claripy.Props.C20.C20_all_classified", "Claripy.Props.C20.C20_interleave_eq_solo", "Claripy.Props.C20.step_inv",
            "Claripy.Props.C20.serve_spec", "Claripy.Props.C20.run_inv"]


def make_pool(rng, tag):
    """shared expression pool over three 4-bit variables and a Boolean"""
    w = 4
    xs = [claripy.BVS("%s_%s" % (tag, n), w, explicit_name=True) for n in "abc"]
    p = claripy.BoolS("%s_p" % tag, explicit_name=True)
    exprs = list(xs)
    for _ in range(12):
        a, b = rng.choice(exprs), rng.choice(exprs)
        exprs.append(rng.choice([a + b, a - b, a ^ b, a & b, a | 1, a * 3, claripy.LShR(a, 1), claripy.If(p, a, b), a + rng.randrange(16)]))
    cons = []
    for _ in range(16):
        a, b = rng.choice(exprs), rng.choice(exprs)
        k = rng.randrange(16)
        cons.append(rng.choice([claripy.ULT(a, k), a == b, a != k, claripy.SLE(a, b), claripy.Or(a == k, b == k), claripy.UGE(a, b), p, claripy.Not(p),
                                claripy.And(a > 1, a < 14), (a & 3) == (k & 3)]))
    # formulas for is_true / is_false (indices >= 16): ones only the Z3 rewriter decides, ones nothing cheap decides
    for _ in range(8):
        a, b = rng.choice(exprs), rng.choice(exprs)
        cons.append(rng.choice([a + b == b + a, a + 1 == a, claripy.ULE(a & b, a), (a ^ b) != (b ^ a), claripy.UGE(a | b, b), a * 2 == a + a,
                                claripy.ULT(a, b), a == b + 1]))
    return exprs, cons


def gen_history(rng, exprs, cons, n):
    h = []
    for _ in range(n):
        r = rng.random()
        if r < 0.3:
            h.append(("add", rng.randrange(16)))
        elif r < 0.4:
            h.append(("satisfiable",))
        elif r < 0.6:
            h.append(("eval", rng.randrange(len(exprs)), 64))
        elif r < 0.7:
            h.append(("min", rng.randrange(len(exprs)), rng.random() < 0.3))
        elif r < 0.8:
            h.append(("max", rng.randrange(len(exprs)), rng.random() < 0.3))
        elif r < 0.88:
            h.append(("solution", rng.randrange(len(exprs)), rng.randrange(16)))
        elif r < 0.93:
            h.append(("simplify",))
        elif r < 0.96:
            h.append(("branch",))
        elif r < 0.985:
            h.append(("truth", rng.randrange(len(cons))))
        else:
            h.append(("build", rng.randrange(len(exprs)), rng.randrange(len(exprs))))
    return h


def run_history(cls, exprs, cons, hist):
    """-> list of canonical answers"""
    if hist and hist[0] == "family":
        return run_family_history(cls, exprs, cons, hist[1], lambda t, fn: fn())
    s = cls()
    out = []
    for op in hist:
        try:
            if op[0] == "add":
                s.add(cons[op[1]]); out.append("ok")
            elif op[0] == "satisfiable":
                out.append(s.satisfiable())
            elif op[0] == "eval":
                out.append(tuple(sorted(s.eval(exprs[op[1]], op[2]))))
            elif op[0] == "min":
                # the optimum as an n-bit pattern (C11's criterion): a signed optimum comes back as a negative int from the
                # Z3 bisection and as the unsigned pattern from the model cache - which path answers depends on the models Z3
                # happened to return, not on the history
                out.append(s.min(exprs[op[1]], signed=op[2]) % (1 << exprs[op[1]].length))
            elif op[0] == "max":
                out.append(s.max(exprs[op[1]], signed=op[2]) % (1 << exprs[op[1]].length))
            elif op[0] == "solution":
                out.append(s.solution(exprs[op[1]], op[2]))
            elif op[0] == "simplify":
                s.simplify(); out.append("ok")
            elif op[0] == "branch":
                s = s.branch(); out.append("ok")
            elif op[0] == "truth":
                out.append((s.is_true(cons[op[1]]), s.is_false(cons[op[1]])))
            elif op[0] == "build":
                e = (exprs[op[1]] + exprs[op[2]]) ^ exprs[op[1]]
                out.append((e.length, tuple(sorted(e.variables)), e.depth))
        except claripy.errors.UnsatError:
            out.append("UnsatError")
        except claripy.errors.ClaripyError as ex:
            out.append("ClaripyError:" + type(ex).__name__)
    return out


def gen_family_history(rng, exprs, cons, n):
    """operations over a family of solvers (a solver and its branches, all owned by ONE thread: the property quantifies over threads
    working on their own solver objects; handing one solver object from thread to thread is outside it — FullFrontend keeps its Z3
    solver in a thread-local slot and its pending-constraint queue per object, so a solver handed over can answer from a stale Z3
    solver; observed, not a C20 violation)"""
    h = []
    nsolvers = 1
    for _ in range(n):
        r = rng.random()
        s = rng.randrange(nsolvers)
        t = rng.randrange(3)
        if r < 0.25:
            h.append((t, s, "add", rng.randrange(len(cons))))
        elif r < 0.37 and nsolvers < 4:
            h.append((t, s, "branch")); nsolvers += 1
        elif r < 0.47:
            h.append((t, s, rng.choice(["downsize", "simplify"])))
        elif r < 0.62:
            h.append((t, s, "eval", rng.randrange(len(exprs)), 64))
        elif r < 0.74:
            h.append((t, s, "solution", rng.randrange(len(exprs)), rng.randrange(16)))
        elif r < 0.84:
            h.append((t, s, "satisfiable"))
        elif r < 0.92:
            h.append((t, s, "max", rng.randrange(len(exprs))))
        else:
            h.append((t, s, "min", rng.randrange(len(exprs))))
    return h


def run_family_history(cls, exprs, cons, hist, call):
    fam = [cls()]
    out = []
    for op in hist:
        t, si, kind = op[0], op[1], op[2]
        s = fam[si]

        def do():
            if kind == "add":
                s.add(cons[op[3]]); return "ok"
            if kind == "branch":
                fam.append(s.branch()); return "ok"
            if kind == "downsize":
                s.downsize(); return "ok"
            if kind == "simplify":
                s.simplify(); return "ok"
            if kind == "eval":
                return tuple(sorted(s.eval(exprs[op[3]], op[4])))
            if kind == "solution":
                return s.solution(exprs[op[3]], op[4])
            if kind == "satisfiable":
                return s.satisfiable()
            if kind == "max":
                return s.max(exprs[op[3]])
            return s.min(exprs[op[3]])
        try:
            out.append(call(t, do))
        except claripy.errors.UnsatError:
            out.append("UnsatError")
        except claripy.errors.ClaripyError as ex:
            out.append("ClaripyError:" + type(ex).__name__)
    return out


def run(ctx):
    ctx.cov["trusted_base"] += [
        "translator harness/translate_shared.py (module/class-level mutable bindings, backend-singleton containers, threading.local attributes) and the "
        "committed classification harness/shared_state_classes.json",
        "NOT exhibited by the model: atomicity of single dict/set/WeakValueDictionary operations under the GIL, Z3 context thread affinity, races inside Z3; "
        "these are only exercised by the concurrent runs",
        "hash-consing under threads may create duplicate objects for one structure (check-then-insert race): harmless for answers, C06 is not claimed under threads",
    ]
    ctx.cov["rule"] = ("cases = rounds of T threads (2..16), each thread running a random history of 12..40 solver operations on its own Solver/"
                       "SolverComposite/SolverCacheless over a pool of shared expressions; non-trivial = round with at least two threads issuing Z3 queries; "
                       "distinct = (round, thread); half of the threads work on a family (a solver and its branches, with simplify/downsize)")
    tie_ok = True
    try:
        cells = ts.translate()
        classes = ts.load_classes()
        write_if_changed(os.path.join(LEAN, "Claripy", "Gen", "SharedState.lean"), ts.render(cells, classes))
        unclassified = ["%s:%s" % (r, n) for r, n, k in cells if classes.get("%s:%s" % (r, n), {}).get("class", "unclassified") == "unclassified"]
        ctx.cov["translated"] = {"cells": len(cells), "by_class": dict(collections.Counter(classes.get("%s:%s" % (r, n), {}).get("class", "unclassified") for r, n, k in cells))}
        if unclassified:
            ctx.notes.append("unclassified shared cells: %s" % unclassified)
    except (ts.TranslateError, SyntaxError) as e:
        tie_ok = False
        ctx.tie_broken("translate:shared-state", str(e)[:300])
    if tie_ok:
        ctx.prove("ClaripyProofs.Props.C20", THEOREMS)
    else:
        ctx.cov["obligations"] += len(THEOREMS)
    rng = ctx.rng
    # ---- audit of the classification on the live process
    import claripy.operations as ops
    import claripy.backends.backend_z3 as bz
    snap = {"opposites": dict(ops.opposites), "op_map": dict(bz.op_map), "infix": dict(ops.infix), "simplifiers": dict(claripy.simplifications._all_simplifiers)}
    # ---- concurrent rounds
    rounds = ctx.pick(20, 150) * (3 if ctx.broken else 1)
    old_interval = sys.getswitchinterval()
    total_threads = 0
    mismatches = 0
    try:
        for r in range(rounds):
            T = rng.choice([2, 2, 3, 4, 8]) if not ctx.thorough() else rng.choice([2, 3, 4, 8, 12, 16])
            sys.setswitchinterval(rng.choice([1e-6, 1e-5, 1e-4, 5e-3]))
            exprs, cons = make_pool(rng, "r%d" % r)
            hists = [gen_history(rng, exprs, cons, rng.choice([12, 24, 40])) if rng.random() < 0.5 else
                     ("family", gen_family_history(rng, exprs, cons, rng.choice([12, 24, 40]))) for _ in range(T)]
            classes_ = [rng.choice([claripy.Solver, claripy.Solver, claripy.SolverComposite, claripy.SolverCacheless]) for _ in range(T)]
            # workers analysing the same thing: some threads run the very same history (on their own solver objects) at the same time
            for i in range(1, T):
                if rng.random() < 0.35:
                    j = rng.randrange(i)
                    hists[i], classes_[i] = hists[j], classes_[j]
            results = [None] * T
            errors = [None] * T
            barrier = threading.Barrier(T)

            def work(i):
                try:
                    barrier.wait(timeout=180)
                    results[i] = run_history(classes_[i], exprs, cons, hists[i])
                except BaseException as ex:  # noqa
                    errors[i] = repr(ex)
            threads = [threading.Thread(target=work, args=(i,)) for i in range(T)]
            for t in threads:
                t.start()
            for t in threads:
                t.join(timeout=900)
            sys.setswitchinterval(old_interval)
            for i in range(T):
                ctx.count()
                total_threads += 1
                ctx.distinct((r, i))
                solo = run_history(classes_[i], exprs, cons, hists[i])
                if errors[i] is not None or results[i] is None:
                    ctx.violation("C20/thread-crashed/%s" % classes_[i].__name__, "thread %d of %d crashed: %s" % (i, T, errors[i]),
                                  {"round": r, "threads": T, "history": hists[i], "error": errors[i]})
                    continue
                if results[i] != solo:
                    k = next(j for j in range(len(solo)) if results[i][j] != solo[j])
                    # re-check solo determinism before blaming concurrency
                    solo2 = run_history(classes_[i], exprs, cons, hists[i])
                    if solo2 != solo:
                        ctx.notes.append("solo replay itself is not deterministic for %s at step %d" % (classes_[i].__name__, k))
                        continue
                    mismatches += 1
                    flat = hists[i][1] if hists[i][0] == "family" else hists[i]
                    ctx.violation("C20/answer-differs/%s/%s" % (classes_[i].__name__, flat[k][2] if hists[i][0] == "family" else flat[k][0]),
                                  "with %d threads, thread %d (%s) step %d %r answered %r; alone it answers %r" % (
                                      T, i, classes_[i].__name__, k, flat[k], results[i][k], solo[k]),
                                  {"round": r, "threads": T, "class": classes_[i].__name__, "history": hists[i], "step": k,
                                   "concurrent": repr(results[i][k]), "solo": repr(solo[k])})
            if r == 0:
                ctx.sample({"threads": T, "history": [list(o) if isinstance(o, tuple) else o for o in (hists[0][1] if hists[0][0] == "family" else hists[0])[:10]], "answers": [repr(a) for a in (results[0] or [])[:10]]})
    finally:
        sys.setswitchinterval(old_interval)
    # readOnlyAfterImport cells unchanged by the workload
    now = {"opposites": dict(ops.opposites), "op_map": dict(bz.op_map), "infix": dict(ops.infix), "simplifiers": dict(claripy.simplifications._all_simplifiers)}
    for k in snap:
        if snap[k] != now[k]:
            ctx.tie_broken("corr:readOnlyAfterImport", "%s changed during the workload although it is classified read-only" % k)
    # memo caches hold functions of their keys
    audited = 0
    for h, a in list(claripy.ast.base.Base._hash_cache.items())[:5000]:
        audited += 1
        if a._hash != h:
            ctx.tie_broken("corr:memo:_hash_cache", "entry %d holds an AST with hash %d" % (h, a._hash)); break
    import importlib
    simp_mod = importlib.import_module("claripy.algorithm.simplify")
    for h, a in list(simp_mod.simplification_cache.items())[:300]:
        orig = claripy.ast.base.Base._hash_cache.get(h)
        if orig is not None and isinstance(orig, (claripy.ast.BV, claripy.ast.Bool)):
            audited += 1
            try:
                ot, st = E.from_ast(orig), E.from_ast(a)
            except E.Unsupported:
                continue
            vs = E.variables(ot)
            for k_, w_ in E.variables(st).items():
                vs.setdefault(k_, w_)
            for env in E.sample_envs(vs, rng, 8):
                if E.ev(ot, env) != E.ev(st, env):
                    ctx.tie_broken("corr:memo:simplification_cache", "cached simplification of %r is %r (differs at %s)" % (orig, a, env))
                    break
    conc = claripy.backends.concrete
    for h, v in list(conc._true_cache.items())[:2000]:
        a = claripy.ast.base.Base._hash_cache.get(h)
        if a is not None:
            audited += 1
            try:
                fresh = conc._is_true(conc.convert(a))
            except claripy.errors.BackendError:
                continue
            if bool(fresh) != bool(v):
                ctx.tie_broken("corr:memo:_true_cache", "cached %r for %r, recomputed %r" % (v, a, fresh)); break
    ctx.cov["traces_validated_against_impl"] = total_threads
    ctx.cov["input_distribution"] = {"rounds": rounds, "thread_runs": total_threads, "memo_entries_audited": audited}


def replay(ctx, obj):
    r = obj["replay"]
    print("concurrency failures depend on the schedule; the recorded history is replayed solo and with 8 identical threads")
    print(r.get("class"), r.get("history"))
    return 1
