"""C15 — merge, combine and split have exactly their documented meaning.
Solver tuples are grown by random histories (adds, queries, branch, simplify, and split/combine/merge themselves, with
relative solver addressing); every result of split / combine / merge is judged by enumeration over all assignments:
merge = models satisfying some condition_i with solver i's constraints (or: the ancestor's models satisfying some
condition), combine = models of all sets together, split = variable-disjoint parts, no conjunct twice, nothing the
solver does not imply, together equivalent.  The results join the tuple and their later answers are judged too."""
import os

from lib.common import LEAN, write_if_changed
from lib import solvercheck as SC, solverlib as L
import translate_solver as ts

THEOREMS = ["Claripy.Props.C15.C15_merge_models", "Claripy.Props.C15.C15_merge_ancestor_models", "Claripy.Props.C15.C15_combine_models",
            "Claripy.Props.C15.C15_split_partition", "Claripy.Solver.splitInv_step", "Claripy.Solver.splitInv_final", "Claripy.Solver.allIdx_nodup"]
TESTS = ["Claripy.Props.C15.test_split_examples"]
CLASSES = ["Solver", "SolverCacheless", "SolverHybrid", "SolverComposite"]
A = lambda c, s=0: {"s": s, "op": "add", "cs": [c]}  # noqa: E731
RULES = {
    "merge-two": [A("ULT(x, 3)"), {"s": 0, "op": "branch"}, A("y == 6", 0), A("SLT(y, 0)", 1),
                  {"s": 0, "op": "merge", "others": [1], "conds": ["b", "Not(b)"], "anc": None}, {"s": 2, "op": "eval", "e": "y", "n": 20, "extra": []}],
    "merge-ancestor": [A("ULT(x, 3)"), {"s": 0, "op": "branch"}, {"s": 0, "op": "branch"}, A("y == 6", 1), A("SLT(y, 0)", 2),
                       {"s": 1, "op": "merge", "others": [2], "conds": ["y == 6", "SLT(y, 0)"], "anc": 0}, {"s": 3, "op": "eval", "e": "y", "n": 20, "extra": []}],
    "merge-with-unsat-side": [A("ULT(x, 3)"), {"s": 0, "op": "branch"}, A("false", 1),
                              {"s": 0, "op": "merge", "others": [1], "conds": ["true", "true"], "anc": None}, {"s": 2, "op": "satisfiable", "extra": []}],
    "merge-common-unchecked-child": [A("y + z == 7"), A("SGE(y ^ z, 0)"), {"s": 0, "op": "branch"}, A("x == 5", 1), A("UGE(x, 8)", 0),
                                     {"s": 0, "op": "merge", "others": [1], "conds": ["true", "true"], "anc": None}, {"s": 2, "op": "satisfiable", "extra": []},
                                     {"s": 2, "op": "eval", "e": "x", "n": 20, "extra": []}],
    "combine-independent": [A("ULT(x, 3)"), {"s": 0, "op": "branch"}, A("y == 6", 1), {"s": 0, "op": "eval", "e": "x", "n": 20, "extra": []},
                            {"s": 0, "op": "combine", "others": [1]}, {"s": 2, "op": "batch_eval", "es": ["x", "y"], "n": 20, "extra": []}],
    "combine-contradictory": [A("ULT(x, 3)"), {"s": 0, "op": "branch"}, A("UGE(x, 8)", 1), {"s": 0, "op": "combine", "others": [1]},
                              {"s": 2, "op": "satisfiable", "extra": []}],
    "combine-three-others-overlap": [{"s": 0, "op": "branch"}, {"s": 0, "op": "branch"}, A("y == 6", 0), A("UGE(x, 8)", 1), A("ULT(x, 3)", 2),
                                     {"s": 0, "op": "eval", "e": "y", "n": 2, "extra": []}, {"s": 1, "op": "eval", "e": "x", "n": 2, "extra": []},
                                     {"s": 2, "op": "eval", "e": "x", "n": 2, "extra": []}, {"s": 0, "op": "combine", "others": [1, 2]},
                                     {"s": 3, "op": "satisfiable", "extra": []}, {"s": 3, "op": "eval", "e": "x", "n": 20, "extra": []}],
    "split-three-groups": [A("ULT(x, 3)"), A("z == y"), A("b"), A("SLT(y, 0)"), {"s": 0, "op": "split"},
                           {"s": 1, "op": "satisfiable", "extra": []}, {"s": 2, "op": "satisfiable", "extra": []}],
    "split-after-simplify": [A("ULT(x, 3)"), A("Or(x == 1, x == 2)"), A("y + z == 7"), {"s": 0, "op": "simplify"}, {"s": 0, "op": "split"}],
    "split-with-false": [A("ULT(x, 3)"), A("false"), {"s": 0, "op": "split"}],
    # witness of the open finding C15-composite-stale-variable-sets (replayed on every run)
    "split-stale-variable-set": [{"s": 0, "op": "max", "e": "y ^ z", "signed": True, "extra": []},
                                 {"s": 0, "op": "max", "e": "y", "signed": False, "extra": []}, A("SGT(x, BVV(13, 4))"),
                                 A("x + ZeroExt(1, y) == 9"), {"s": 0, "op": "split"}],
}


def jobs_for(ctx, mult=1):
    jobs = []
    for cls in CLASSES:
        for name, h in RULES.items():
            for reuse in (False, True):
                jobs.append({"cls": cls, "cfg": {"track": False, "reuse": reuse}, "hist": [dict(d, rel=True) for d in h]})
        n = ctx.pick(36, 260) * mult
        lens = ctx.pick([10, 20, 30], [30, 60, 100])
        for i in range(n):
            jobs.append({"cls": cls, "cfg": {"track": False, "reuse": i % 3 == 0}, "len": lens[i % len(lens)], "struct": True})
        # combine of 3-4 solvers with their own constraints and query history (cached models), often with the first
        # variable-disjoint from the rest and two of the others overlapping
        for i in range(ctx.pick(24, 200) * mult):
            jobs.append({"cls": cls, "cfg": {"track": False, "reuse": i % 4 == 0}, "len": 0, "combine": True})
    return jobs


def run(ctx):
    ctx._chunk_base = 0
    ctx.cov["trusted_base"] += [
        "the model sets are those of the constraint lists the resulting frontends hold (`.constraints`), decided by enumeration over all 2048 assignments; "
        "the later answers of the results are judged as in C11/C12",
        "claripy.And / claripy.Or build what they say (C01)",
    ]
    ctx.cov["rule"] = ("classes Solver, SolverCacheless, SolverHybrid, SolverComposite; rule-directed (merge of two, merge with ancestor, merge with an "
                       "unsatisfiable side, combine independent / contradictory / three solvers with overlapping others, split into groups, split after simplify, split with false) x reuse on/off; "
                       "random histories of length <= 30 quick / 100 thorough with split/combine/merge among up to 6 live solvers and arbitrary merge "
                       "conditions from the constraint alphabet; combine-directed histories (3-4 solvers branched from an empty one, each with own constraints "
                       "and queries, then combine and queries on the result); non-trivial = >= 3 calls")
    tie_ok = True
    try:
        write_if_changed(os.path.join(LEAN, "Claripy", "Gen", "SolverMro.lean"), ts.render(ts.translate()))
    except ts.TranslateError as e:
        tie_ok = False
        ctx.tie_broken("translate:solvers.py/__mro__", str(e))
    if tie_ok:
        ctx.prove("ClaripyProofs.Props.C15", THEOREMS, tests=TESTS, driver_exe="driver_solver")
    else:
        ctx.cov["obligations"] += len(THEOREMS)
        ctx.lake_build(["driver_solver"])
    workers = ctx.pick(4, 6)
    # _split_constraints: model vs real
    try:
        from lib import solverrec as R
        lines, exp = R.split_corr_lines(L.Universe(), ctx.rng, ctx.pick(400, 4000))
        out = ctx.driver(lines, exe="driver_solver")
        ctx.count(len(lines))
        ctx.cov["traces_validated_against_impl"] += len(lines)
        ctx.cov.setdefault("input_distribution", {})["split_constraints"] = {"cases": len(lines)}
        for l, o, e in zip(lines, out, exp):
            if o != e:
                ctx.tie_broken("corr:_split_constraints", "%s model=%s real=%s" % (l, o, e))
                break
    except RuntimeError as e:
        ctx.tie_broken("driver", str(e)[:300])
    m = SC.run_jobs(ctx, jobs_for(ctx), workers, corr=False, chunk_size=ctx.pick(12, 25))
    SC.merge_cov(ctx, m, "structure-oracle")
    fails = list(m["fails"])
    if ctx.broken and not fails:
        m3 = SC.run_jobs(ctx, jobs_for(ctx, mult=3), workers, corr=False, chunk_size=30)
        SC.merge_cov(ctx, m3, "failing-input-search")
        fails += m3["fails"]
    struct = [f for f in fails if f["hist"][f["fails"][0][0]]["op"] in ("split", "combine", "merge")]
    ctx.cov["answer_failures_left_to_C11_C12"] = len(fails) - len(struct)
    # group by kind so that one frequent finding does not crowd out another
    seen, pick = set(), []
    for f in struct:
        kd = (f["cls"], f["fails"][0][1])
        if kd not in seen:
            seen.add(kd)
            pick.append(f)
    SC.report_failures(ctx, "C15", pick, max_report=6)
    others = [f for f in fails if f not in struct]
    if others:
        SC.report_failures(ctx, "C15", others[:1])


def replay(ctx, obj):
    return SC.replay_history("C15", obj)
