"""C14 — branch isolation.  Trees of branched solvers with interleaved calls, every frontend class.  An answer that
is wrong for the solver's own constraint list is an isolation failure iff the same solver, run ALONE along its
lineage (calls on the other branches removed), answers correctly — decided by re-running the projected history.
For the FullFrontend classes the recorded traces also go through the Lean world model, which compares after every
call which frontends share which Z3 object, its assertion frames and every frontend record."""
import os

from lib.common import LEAN, write_if_changed
from lib import solvercheck as SC, solverlib as L
import translate_solver as ts

THEOREMS = ["Claripy.Props.C14.C14_records_isolated", "Claripy.Props.C14.C14_batch_eval_balanced",
            "Claripy.Solver.step_other_frontends",
            # SolverCacheless: whole histories over trees of branched solvers sharing Z3 objects
            "Claripy.Props.C14.C14_cacheless_tree_isolated", "Claripy.Props.C14.C14_shared_objects_finalized",
            "Claripy.Props.C14.C14_step_keeps_discipline", "Claripy.Props.C14.C14_query_leaves_foreign_frames",
            "Claripy.Solver.tinv_step", "Claripy.Solver.tinv_append", "Claripy.Solver.cl_step_branch",
            "Claripy.Solver.qstep_after_query", "Claripy.Solver.QStep.trans",
            # the caching class Solver: corollaries of C11_solver_refines / TInvS
            "Claripy.Props.C14.C14_solver_tree_isolated", "Claripy.Props.C14.C14_solver_op_isolated",
            "Claripy.Props.C14.C14_solver_sibling_unaffected", "Claripy.Props.C14.C14_solver_later_answers",
            "Claripy.Props.C14.C14_solver_shared_objects_finalized", "Claripy.Props.C14.C14_solver_step_keeps_discipline",
            "Claripy.Solver.sol_reach", "Claripy.Solver.tinvS_step", "Claripy.Solver.tinvS_append"]
MODELLED = ["Solver", "SolverCacheless", "SolverStrings"]
OTHERS = ["SolverComposite", "SolverHybrid", "SolverReplacement"]
WEIGHTS = {"add": 24, "satisfiable": 8, "eval": 14, "batch_eval": 4, "min": 9, "max": 9, "solution": 6, "is_true": 1,
           "is_false": 1, "simplify": 4, "downsize": 3, "branch": 16}
A = lambda c, s=0: {"s": s, "op": "add", "cs": [c]}  # noqa: E731
E = lambda e, n, s=0: {"s": s, "op": "eval", "e": e, "n": n, "extra": []}  # noqa: E731
B = lambda s=0: {"s": s, "op": "branch"}  # noqa: E731
# add_replacement(v, c) on the classes that have it (a plain add of v == c on the others); inval=False: invalidate_cache=False
R = lambda v, c, s=0, inval=True: dict({"s": s, "op": "add", "cs": ["(%s) == %d" % (v, c)], "repl": [v, c]}, **({} if inval else {"inval": False}))  # noqa: E731
RULES = {
    "add-on-child": [A("ULT(x, 5)"), E("x", 20), B(), A("x != 1", 1), E("x", 20, 1), E("x", 20, 0)],
    "add-on-parent": [A("ULT(x, 5)"), E("x", 20), B(), A("x != 1", 0), E("x", 20, 0), E("x", 20, 1)],
    "query-first-on-child": [A("ULT(x, 5)"), B(), E("x", 20, 1), A("x == 2", 1), E("x", 20, 0), E("x", 20, 1)],
    "nested": [A("ULE(x, 11)"), B(), A("UGE(x, 8)", 1), B(1), A("(x & 1) == 0", 2), E("x", 20, 2), E("x", 20, 1), E("x", 20, 0),
               {"s": 0, "op": "max", "e": "x", "signed": False, "extra": []}, {"s": 1, "op": "min", "e": "x", "signed": False, "extra": []},
               {"s": 2, "op": "max", "e": "x", "signed": True, "extra": []}],
    "simplify-downsize-on-one-side": [A("ULT(x, 3)"), A("Or(x == 1, x == 2)"), {"s": 0, "op": "satisfiable", "extra": []}, B(),
                                      {"s": 1, "op": "simplify"}, {"s": 1, "op": "downsize"}, A("x != 1", 1), E("x", 20, 0), E("x", 20, 1),
                                      {"s": 0, "op": "simplify"}, E("x", 20, 1)],
    "unsat-on-one-side": [A("ULT(x, 3)"), B(), A("UGE(x, 8)", 1), {"s": 1, "op": "satisfiable", "extra": []},
                          {"s": 0, "op": "satisfiable", "extra": []}, E("x", 20, 0)],
    "expansion-on-one-side": [A("Or(x == 1, x == 2, x == 9)"), B(), {"s": 1, "op": "max", "e": "x", "signed": False, "extra": []},
                              {"s": 0, "op": "max", "e": "x", "signed": True, "extra": []}, A("x != 9", 1),
                              {"s": 1, "op": "max", "e": "x", "signed": False, "extra": []}, {"s": 0, "op": "max", "e": "x", "signed": False, "extra": []}],
    "independent-variables": [A("ULT(x, 3)"), A("y == 6"), B(), A("z == y", 1), A("ULT(z, 2)", 0), E("z", 20, 0), E("z", 20, 1), E("y", 20, 0)],
    # a solver that holds NOTHING yet is branched; the very first constraint of one side pins x (a shape the frontends treat
    # specially: the model is known without asking Z3), the other side gets a range, learns one model and is asked for all
    "empty-branched-child-pinned": [B(), A("x == 5", 1), A("ULE(x, 11)", 0), {"s": 0, "op": "satisfiable", "extra": []}, E("x", 20, 0),
                                    {"s": 0, "op": "max", "e": "x", "signed": False, "extra": []},
                                    {"s": 0, "op": "min", "e": "x", "signed": False, "extra": []}, E("x", 20, 1)],
    "empty-branched-parent-pinned": [B(), B(), A("y == 6", 0), A("SLT(y, 0)", 1), E("y", 2, 1), E("y", 20, 1), A("ULT(x, 3)", 2), A("x == 2", 2),
                                     {"s": 1, "op": "min", "e": "y", "signed": False, "extra": []}, E("x", 20, 2), E("y", 20, 0), E("y", 20, 2)],
    # one side of a branch records a user-level replacement (ReplacementFrontend.add_replacement; with invalidate_cache=False it is
    # written in place into whatever tables the solver has): the other sides - parent, child, grand-parent - must not notice
    "user-replacement-on-child": [A("ULE(x, 11)"), B(), R("x", 3, 1, False), E("x + 1", 20, 1), E("x", 20, 0),
                                  {"s": 0, "op": "max", "e": "x", "signed": False, "extra": []}, {"s": 0, "op": "solution", "e": "x", "v": 7, "extra": []}],
    "user-replacement-on-parent": [A("ULE(x, 11)"), E("x", 2), B(), R("x", 3, 0, False), E("x - 1", 20, 0), E("x", 20, 1),
                                   {"s": 1, "op": "min", "e": "x", "signed": False, "extra": []}, {"s": 1, "op": "satisfiable", "extra": ["x == 9"]}],
    "user-replacement-nested": [A("ULE(x, 11)"), B(), A("UGE(x, 2)", 1), B(1), R("x", 7, 2, False), E("x", 20, 1), E("x", 20, 0),
                                {"s": 0, "op": "downsize"}, E("x & 3", 20, 0), E("x", 20, 2)],
    "user-replacement-fresh-variable": [A("ULE(x, 11)"), B(), R("y", 3, 1), E("y", 20, 1), E("y", 20, 0), E("x + ZeroExt(1, y)", 40, 0),
                                        B(0), R("z", 2, 0, False), E("z", 20, 2), E("z", 20, 1), E("y ^ z", 20, 2)],
    # a solver is ASKED about a variable it holds no constraint on (whatever it sets up to answer is its own), then branched; one
    # side adds a constraint on that variable: the other side must not notice
    "looked-at-variable-child-adds": [A("ULT(x, 3)"), E("y", 1), B(), A("y == 6", 1), E("y", 20, 0),
                                      {"s": 0, "op": "max", "e": "y", "signed": False, "extra": []}, E("y", 20, 1), E("x", 20, 0)],
    "looked-at-variable-parent-adds": [A("UGE(x, 8)"), {"s": 0, "op": "satisfiable", "extra": ["ULT(z, 2)"]},
                                       {"s": 0, "op": "is_true", "e": "z == y", "extra": []}, {"s": 0, "op": "solution", "e": "y", "v": 3, "extra": []},
                                       B(), B(1), A("ULT(z, 2)", 0), A("y == 6", 2), E("z", 20, 1), E("z", 20, 2), E("y", 20, 1), E("y", 20, 0),
                                       {"s": 1, "op": "solution", "e": "z", "v": 5, "extra": []}, E("z", 20, 0)],
}
S = lambda e, v, s=0: {"s": s, "op": "solution", "e": e, "v": v, "extra": []}  # noqa: E731
SAT = lambda s=0, ex=(): {"s": s, "op": "satisfiable", "extra": list(ex)}  # noqa: E731
# thread hand-off (the calls still run strictly one after the other): one side of a branch learns more and is used by a WORKER
# thread between two uses by the main thread; the other side is then asked with calls that keep its Z3 solver
HANDOFF_RULES = {
    "child-used-by-worker-in-between": [A("ULE(x, 11)"), SAT(), B(), A("x == 5", 1), dict(E("x", 1, 1), t=1), S("x", 4, 1), S("x", 9, 0),
                                        SAT(0, ["x == 9"]), S("x", 5, 1), E("x", 20, 0), E("x", 20, 1)],
    "parent-used-by-worker-in-between": [A("ULE(x, 11)"), SAT(), B(), A("UGE(x, 8)", 0), dict(E("x", 1, 0), t=1), S("x", 9, 0), S("x", 3, 1),
                                         SAT(1, ["x == 1"]), E("x", 1, 1), E("x", 20, 1), E("x", 20, 0)],
    "worker-asks-adds-asks": [A("ULE(x, 11)"), SAT(), B(), dict(SAT(0), t=1), dict(A("SLT(y, 0)", 0), t=1), dict(SAT(0), t=1), A("UGE(x, 12)", 0),
                              SAT(0), SAT(1), S("x", 3, 1), S("y", 1, 1), E("x", 20, 1)],
}


def jobs_for(ctx, classes, mult=1, extra_gen=None):
    jobs = []
    extra_gen = extra_gen or {}
    for cls in classes:
        for name, h in RULES.items():
            for cfg in ({"track": False, "reuse": False}, {"track": False, "reuse": True}):
                jobs.append({"cls": cls, "cfg": cfg, "hist": h})
        n = ctx.pick(26, 200) * mult
        lens = ctx.pick([12, 20, 30], [30, 60, 100])
        for i in range(n):
            jobs.append({"cls": cls, "cfg": {"track": cls != "SolverReplacement" and i % 6 == 0, "reuse": i % 3 == 0},
                         "len": lens[i % len(lens)], "gen": dict({"weights": WEIGHTS, "max_solvers": 5}, **extra_gen)})
        # trees that start from an EMPTY solver: branched before anything was added, the first constraint of one solver is
        # `variable == constant`, its siblings get other constraints on that variable and are asked for everything; random tail in
        # which first constraints keep being equalities half of the time
        for i in range(ctx.pick(14, 100) * mult):
            jobs.append({"cls": cls, "cfg": {"track": False, "reuse": i % 3 == 0}, "len": ctx.pick(8, 30),
                         "gen": dict({"shape": "empty-branch", "weights": WEIGHTS, "max_solvers": 5, "first_eq": 0.5}, **extra_gen)})
        # one side of a branch (child, parent, grand-child) learns more about a variable - constraints; on SolverReplacement also
        # user-level replacements, mostly with invalidate_cache=False -, the OTHER sides rebuild what they remember (downsize,
        # pickle, simplify, an unrelated add) and are asked everything about that variable; random tail
        rp = {"repl": 0.6} if cls == "SolverReplacement" else {}
        for i in range(ctx.pick(14, 100) * mult):
            jobs.append({"cls": cls, "cfg": {"track": False, "reuse": i % 3 == 0}, "len": ctx.pick(6, 20),
                         "gen": dict({"shape": "branch-rebuild", "prefix_args": rp, "weights": WEIGHTS, "max_solvers": 5}, **extra_gen)})
        # a solver is asked about a variable it holds NOTHING on (one value, a truth value, solution(), satisfiable() under an extra
        # constraint), then branched; one side adds a constraint on that variable, every side is asked everything about it
        for i in range(ctx.pick(12, 80) * mult):
            jobs.append({"cls": cls, "cfg": {"track": cls != "SolverReplacement" and i % 6 == 0, "reuse": i % 3 == 0}, "len": ctx.pick(5, 20),
                         "gen": dict({"shape": "look-then-branch", "weights": WEIGHTS, "max_solvers": 5}, **extra_gen)})
        if cls == "SolverReplacement":
            # random trees with user-level replacements in between (a variable nothing mentions yet: read as `v == c`; with
            # invalidate_cache=False: any variable, that solver is no longer judged)
            for i in range(ctx.pick(16, 120) * mult):
                jobs.append({"cls": cls, "cfg": {"track": False, "reuse": i % 3 == 0}, "len": lens[i % len(lens)],
                             "gen": dict({"weights": WEIGHTS, "max_solvers": 5, "replace": 0.25, "repl_noinval": 0.6}, **extra_gen)})
    return jobs


def handoff_jobs(ctx, classes, mult=1):
    """the same trees, with the calls made from two or three threads strictly one after the other (claripy frontends keep
    their Z3 solver object per thread; whatever a frontend remembers about sharing it must hold across threads too)"""
    jobs = []
    for cls in classes:
        for name in ("simplify-downsize-on-one-side", "add-on-parent", "nested"):
            h = [dict(d, t=1) if 2 <= k < len(RULES[name]) - 2 and k % 3 else dict(d) for k, d in enumerate(RULES[name])]
            jobs.append({"cls": cls, "cfg": {"track": False, "reuse": False}, "hist": h})
        # the branch is made in the worker (parent and child share the worker's Z3 solver), the parent is then touched from the
        # main thread only (downsize / add + simplify), and grows again in the worker; the child is asked with calls that do not
        # rebuild its solver first
        for parent_op in ([{"s": 0, "op": "downsize"}], [A("x != 2", 0), {"s": 0, "op": "simplify"}]):
            h = [A("ULE(x, 11)"), dict(E("x", 1), t=1), dict(B(), t=1)] + parent_op + \
                [dict(A("UGE(x, 8)", 0), t=1), {"s": 0, "op": "solution", "e": "x", "v": 9, "extra": [], "t": 1},
                 {"s": 1, "op": "solution", "e": "x", "v": 3, "extra": [], "t": 1}, {"s": 1, "op": "satisfiable", "extra": ["x == 1"], "t": 1},
                 dict(E("x", 20, 1), t=1), dict(E("x", 20, 0), t=1)]
            jobs.append({"cls": cls, "cfg": {"track": False, "reuse": False}, "hist": h})
        for name, h in HANDOFF_RULES.items():
            jobs.append({"cls": cls, "cfg": {"track": False, "reuse": False}, "hist": h})
        lens = ctx.pick([12, 20], [30, 60])
        for i in range(ctx.pick(8, 60) * mult):
            jobs.append({"cls": cls, "cfg": {"track": False, "reuse": False}, "len": lens[i % len(lens)],
                         "gen": {"weights": WEIGHTS, "max_solvers": 4, "threads": 1 + i % 2}})
        # directed opening: constraints + a question in the main thread, branch, ONE side learns more and is used by a worker
        # thread in between (ask / ask, add, ask / add, ask), then by the main thread again with calls that keep its Z3 solver; the
        # other side is asked everything; random tail from both threads
        for i in range(ctx.pick(10, 60) * mult):
            jobs.append({"cls": cls, "cfg": {"track": i % 4 == 3, "reuse": False}, "len": ctx.pick(4, 12),
                         "gen": {"shape": "worker-between", "weights": WEIGHTS, "max_solvers": 4, "threads": 1}})
    return jobs


def isolation_failures(ctx, fails, budget=60):
    """keep the failures that disappear when the solver runs alone along its lineage (twice), reproduce them twice"""
    uni = L.Universe()
    out, skipped = [], 0
    for f in fails:
        if budget <= 0:
            break
        budget -= 1
        cls, cfg, hist = f["cls"], f["cfg"], f["hist"]
        k, kind, why = f["fails"][0]
        proj, pos = L.project(hist, k)
        alone_fails = 0
        for _ in range(2):
            f2, _o = L.run_history(uni, cls, cfg, proj)
            if any(q == pos and kk == kind for q, kk, _ in f2):
                alone_fails += 1
        if alone_fails == 2:
            skipped += 1          # wrong even when alone: not an isolation matter (C11 / C12 / C13)
            continue
        if alone_fails == 1:
            ctx.notes.append("inconclusive (fails 1 of 2 times when run alone): %s %s" % (cls, kind))
            continue
        again = sum(1 for _ in range(2) if any(kk == kind for _, kk, _ in L.run_history(uni, cls, cfg, hist)[0]))
        if again == 2:
            out.append(f)
    ctx.cov["failures_also_present_when_run_alone"] = ctx.cov.get("failures_also_present_when_run_alone", 0) + skipped
    return out


def run(ctx):
    ctx._chunk_base = 0
    ctx.cov["trusted_base"] += [
        "OracleExact and the other C11 hypotheses; recorder; MRO translator",
        "SolverComposite / SolverHybrid / SolverReplacement: oracle and lineage projection only (their frontends are modelled with C12/C13)",
    ]
    ctx.cov["rule"] = ("trees of up to 5 solvers grown by branch() with interleaved adds, queries, simplify and downsize on all of them, a part of them "
                       "grown from a solver branched while still EMPTY whose first constraints are `variable == constant`, a part opening with: "
                       "constraints on v, branch (nested), ONE side learns more about v (SolverReplacement: also add_replacement(u, c), mostly with "
                       "invalidate_cache=False), the OTHER sides rebuild (downsize / pickle / simplify / unrelated add) and are asked everything "
                       "about v, a part opening with: questions about a variable the solver holds NOTHING on, branch, one side adds a constraint on "
                       "it, all sides asked; classes Solver, "
                       "SolverCacheless, SolverStrings (with model correspondence incl. the sharing graph of Z3 objects) and SolverComposite, SolverHybrid, "
                       "SolverReplacement (oracle); a wrong answer counts as an isolation failure iff the solver answers correctly when run alone along its "
                       "lineage; a further stream makes the calls of such trees from two or three threads, strictly one after the other, a part of them "
                       "opening with: one side of a branch used by a worker thread BETWEEN two uses by the main thread (oracle only); "
                       "non-trivial = history with >= 3 calls")
    tie_ok = True
    try:
        write_if_changed(os.path.join(LEAN, "Claripy", "Gen", "SolverMro.lean"), ts.render(ts.translate()))
    except ts.TranslateError as e:
        tie_ok = False
        ctx.tie_broken("translate:solvers.py/__mro__", str(e))
    if tie_ok:
        ctx.prove("ClaripyProofs.Props.C14", THEOREMS, driver_exe="driver_solver")
    else:
        ctx.cov["obligations"] += len(THEOREMS)
        ctx.lake_build(["driver_solver"])
    workers = ctx.pick(4, 6)
    m = SC.run_jobs(ctx, jobs_for(ctx, MODELLED), workers, corr=True, chunk_size=ctx.pick(10, 20))
    SC.merge_cov(ctx, m, "modelled-classes")
    fails = list(m["fails"])
    if m["driver_error"]:
        ctx.tie_broken("driver", m["driver_error"])
    for mm in m["mismatch"][:3]:
        ctx.tie_broken("corr:%s.%s" % (mm["cls"], mm["op"].get("op", "?")),
                       "%s differs after %s (%s); model=%s real=%s" % ("/".join(mm["differs"]), mm["op"], mm["cfg"], mm["model"][:400], mm["real"][:400]))
    # (oracle only: solution() may also ask about a symbolic value, which the recorder of the model correspondence does not take)
    m2 = SC.run_jobs(ctx, jobs_for(ctx, OTHERS, extra_gen={"symv": 0.35}), workers, corr=False, chunk_size=ctx.pick(10, 20))
    SC.merge_cov(ctx, m2, "other-classes")
    fails += m2["fails"]
    m4 = SC.run_jobs(ctx, handoff_jobs(ctx, MODELLED[:2] + OTHERS, mult=3 if ctx.broken else 1), workers, corr=False, chunk_size=ctx.pick(8, 16))
    SC.merge_cov(ctx, m4, "thread-hand-off")
    fails += m4["fails"]
    if ctx.broken and not fails:
        m3 = SC.run_jobs(ctx, jobs_for(ctx, MODELLED, mult=3), workers, corr=False, chunk_size=30)
        SC.merge_cov(ctx, m3, "failing-input-search")
        fails += m3["fails"]
    ctx.cov["oracle_failures_before_projection"] = len(fails)
    SC.report_failures(ctx, "C14", isolation_failures(ctx, fails))


def replay(ctx, obj):
    return SC.replay_history("C14", obj)
