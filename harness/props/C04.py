"""C04 — building and folding well-typed expressions never crashes.

prove:       ClaripyProofs.Props.C04.C04_fold_documented (model of eager folding: value | divZero | reverseNonByte)
correspond:  outcome kind (value / error enum) of every constant node: Lean `fold` vs real exception kind
oracle:      every generated well-typed construction either returns or raises a documented claripy error; 5 s alarm
             and an address-space limit turn hangs / memory blow-ups into observable failures
"""
import collections, signal, resource

from lib import exprs as E, exprgen as G, exprcheck as X

THEOREMS = ["Claripy.Props.C04.C04_fold_documented", "Claripy.Props.C04.bin_documented",
            "Claripy.Props.C04.reduceL_bin_documented"]
DOCUMENTED = {"DivZero", "ReverseNonByte"}


def extremes(rng):
    """boundary stream: shift/rotate amounts near 2^w, wide widths, long chains"""
    w = rng.choice([8, 32, 64, 64, 128, 256])
    big = [(1 << w) - 1, 1 << (w - 1), (1 << w) - 2, w, w + 1, w - 1, (1 << (w - 2)), 1 << min(w - 1, 62), 1 << min(w - 1, 31)]
    x = G._x(rng, w) if rng.random() < 0.5 else G.const(rng, w)
    amt = ("bvv", rng.choice(big) % (1 << w), w) if rng.random() < 0.8 else G._x(rng, w)
    r = rng.random()
    if r < 0.35:
        return "X.extreme_shift", (rng.choice(["shl", "lshr", "ashr", "rotl", "rotr"]), x, amt)
    if r < 0.45:
        return "X.extreme_shift2", ("shl", (rng.choice(["shl", "lshr"]), x, amt), ("bvv", rng.choice(big) % (1 << w), w))
    if r < 0.55:
        return "X.extreme_arith", (rng.choice(["mul", "udiv", "umod", "sdiv", "smod", "add", "sub"]), x,
                                   ("bvv", rng.choice(big + [0, 1]) % (1 << w), w))
    if r < 0.65:
        n = rng.choice([1, 7, 64, 1000])
        return "X.extreme_ext", (rng.choice(["zext", "sext"]) + ":%d" % n, x)
    if r < 0.75:
        parts = tuple(G.leaf(rng, rng.choice([1, 8, 64])) for _ in range(rng.choice([2, 10, 40])))
        return "X.long_concat", ("concat",) + parts
    if r < 0.85:
        t = G.var(rng, w)
        for _ in range(rng.choice([20, 60, 150])):
            t = (rng.choice(["add", "xor", "sub", "and"]), t, G.leaf(rng, w))
        return "X.deep_chain", t
    if r < 0.92:
        return "X.reverse", ("reverse", G.leaf(rng, rng.choice([1, 7, 8, 9, 12, 16, 24, 31, 32, 40, 64, 72, 128])))
    hi = rng.randrange(0, w)
    lo = rng.randrange(0, hi + 1)
    return "X.extract", ("extract:%d:%d" % (hi, lo), x)


def extreme_constant(rng):
    """a rule-directed tree (the shapes the simplifiers look for) with one of its constants replaced by a boundary value of its
    width: the guards of a simplifier must hold for every constant, not only for the ones that make the pattern meaningful"""
    name, tree = G.rule_directed(rng)
    paths = []

    def walk(t, path):
        if isinstance(t, tuple):
            if t[0] == "bvv":
                paths.append(path)
            else:
                for i, c in enumerate(t[1:], 1):
                    walk(c, path + (i,))
    walk(tree, ())
    if not paths:
        return name, tree
    pth = rng.choice(paths)

    def put(t, path):
        if not path:
            w = t[2]
            big = [(1 << w) - 1, 1 << (w - 1), (1 << w) - 2, w, w + 1, w - 1, (1 << w) - w, (1 << w) - w + 1, 1 << min(w - 1, 62), 1 << min(w - 1, 31), 0, 1]
            return ("bvv", rng.choice(big) % (1 << w), w)
        return t[:path[0]] + (put(t[path[0]], path[1:]),) + t[path[0] + 1:]
    return name + "+extreme-constant", put(tree, pth)


def fp_str_stream(ctx, rng, kinds, dist):
    """crash-freedom of eager folding on concrete floats (NaN, infinities, subnormals, huge magnitudes, every rounding mode and
    conversion size) and strings (metacharacters, surrogates, empty, long); oracle only"""
    import claripy
    from lib import fs_fp as P, fs_str as S
    n = ctx.pick(2500, 40000)
    fp_ops = list(P.OPS_ARITH) + list(P.OPS_UNARY) + list(P.OPS_CMP) + ["fpSqrt", "fpToFP_fp", "fpToFP_sbv", "fpToFPUnsigned", "fpToFP_bv",
                                                                          "fpToSBV", "fpToUBV", "fpFP"]
    rms = list(P.RM_NAME)
    bb = {f: P.boundary_bits(f) for f in "FD"}
    meta = ["", "a", "\\", "\\x41", "\\u{41}", "%s", "{}", ".*", "[a-z]+", "\"", "'", "\n", "\x00", "é", "中", "\ud800", "\U0001f600", "a" * 300, "<>", "()", "0", "-1",
            "007", "18446744073709551616", "１２", " 1", "1 ", "+1"]
    for i in range(n):
        ctx.count()
        if rng.random() < 0.6:
            fmt = rng.choice("FD")
            op = rng.choice(fp_ops)
            rm = rng.choice(rms)

            def fl(f=fmt):
                return rng.choice(bb[f]) if rng.random() < 0.6 else P.rand_bits(rng, f)

            def bvarg(size):
                return (rng.choice(P.int_pool(rng, size, 2)), size)
            if op in P.OPS_ARITH or op in P.OPS_CMP:
                a = (fl(), fl())
            elif op == "fpToFP_fp":
                a = (fl(P.other(fmt)),)
            elif op in ("fpToFP_sbv", "fpToFPUnsigned"):
                a = (bvarg(rng.choice([1, 8, 32, 64, 65, 128, 1024, 1025, 1200, 2048])),)
            elif op == "fpToFP_bv":
                a = (bvarg(P.WIDTH[fmt]),)
            elif op in ("fpToSBV", "fpToUBV"):
                a = (fl(), rng.choice([1, 8, 16, 32, 64, 65, 128]))
            elif op == "fpFP":
                eb, sb = P.FMT[fmt]
                a = (rng.getrandbits(1), rng.choice([0, (1 << eb) - 1, rng.getrandbits(eb)]), rng.choice([0, (1 << (sb - 1)) - 1, rng.getrandbits(sb - 1)]))
            else:
                a = (fl(),)
            name = "F." + op
            r = P.real_fold(op, fmt, rm, a)
            desc = P.fmt_case(op, fmt, rm, a)
            rep = {"kind": "fp", "op": op, "fmt": fmt, "rm": rm, "a": a}
        else:
            op = rng.choice(S.OPS)

            def st():
                t = rng.choice(meta)
                if rng.random() < 0.3:
                    t = t + rng.choice(meta)
                return S.cps(t)
            a = tuple(st() if k == "s" else rng.choice([0, 1, 2, 5, 299, 300, 301, (1 << 63), (1 << 64) - 1, (1 << 64) - 2, rng.getrandbits(64)]) for k in S.SIG[op])
            name = "S." + op
            r = S.real_fold(op, a)
            desc = S.fmt_case(op, a)
            rep = {"kind": "str", "op": op, "a": a}
        dist[name] += 1
        if r[0] != "err":
            kinds["ok"] += 1
            ctx.distinct(desc[:300])
            continue
        kinds[r[1]] += 1
        exc = r[1]
        cls = getattr(claripy.errors, exc, None)
        if isinstance(cls, type) and issubclass(cls, claripy.errors.ClaripyError):
            continue        # a claripy error; which conditions are documented is judged by C02/C03 against the reference semantics
        ctx.violation("C04/%s/%s" % (op, exc), "folding %s raised %s" % (desc[:300], exc), rep)


def wide_int_to_str(ctx, rng, kinds, dist):
    """IntToStr of integers with thousands of decimal digits (CPython refuses str() of an int beyond 4300 digits unless told otherwise)"""
    import claripy
    for w in [64, 100, 4000, 14280, 14290, 20000, 40000]:
        for v in [0, 1, (1 << w) - 1, 1 << (w - 1), rng.getrandbits(w)]:
            ctx.count()
            dist["S.IntToStr.wide"] += 1
            try:
                r = claripy.IntToStr(claripy.BVV(v, w))
                kinds["ok"] += 1
                nd = len(r.args[0]) if r.op == "StringV" else None
                lo = (max(v.bit_length() - 1, 0) * 30102) // 100000
                if nd is not None and not (lo <= nd <= lo + 2):
                    ctx.violation("C04/IntToStr/wrong-length", "IntToStr of a %d-bit integer gave %d digits, expected about %d" % (w, nd, lo + 1), {"kind": "int2str", "bits": w})
            except claripy.errors.ClaripyError:
                kinds["ClaripyError"] += 1
            except Exception as ex:  # noqa
                ctx.violation("C04/IntToStr/%s" % type(ex).__name__, "folding IntToStr(BVV(<%d-bit value>, %d)) raised %s: %s" % (v.bit_length(), w, type(ex).__name__, str(ex)[:80]),
                              {"kind": "int2str", "bits": w, "value_bits": v.bit_length()})
                break


def guarded_paths(ctx, rng, kinds, dist):
    """the same extreme operations reached by the OTHER ways a constant node comes into being: an operand carrying an annotation
    that rewrites must respect (the simplifier's proposal is refused, the node is folded or kept raw), and a variable replaced
    by the extreme constant afterwards (replace / replace_dict rebuild nodes without the simplifier)"""
    import claripy

    class Pinned(claripy.Annotation):
        eliminatable = False
        relocatable = False

    old_handler = signal.signal(signal.SIGALRM, X._alarm)
    for i in range(ctx.pick(400, 6000)):
        w = rng.choice([8, 32, 64, 64, 128])
        big = [(1 << w) - 1, 1 << (w - 1), (1 << w) - 2, w, w + 1, w - 1, 1 << min(w - 1, 62), 1 << min(w - 1, 31), 0, 1]
        op = rng.choice(["shl", "lshr", "ashr", "rotl", "rotr", "mul", "udiv", "sdiv", "umod", "add", "sub"])
        val = claripy.BVV(rng.choice([1, 3, (1 << w) - 1, rng.getrandbits(w)]), w)
        amt_v = rng.choice(big) % (1 << w)
        how = rng.choice(["annotated-amount", "annotated-value", "annotated-avoid", "replace", "replace_dict", "nested-replace"])
        ctx.count()
        dist["G." + how] += 1
        desc = "%s(%#x, %#x) at %d bits via %s" % (op, val.args[0], amt_v, w, how)
        try:
            signal.alarm(5)
            try:
                if how.startswith("annotated"):
                    an = claripy.annotation.SimplificationAvoidanceAnnotation() if how == "annotated-avoid" else Pinned()
                    a_, b_ = val, claripy.BVV(amt_v, w)
                    if how == "annotated-value":
                        a_ = a_.annotate(an)
                    else:
                        b_ = b_.annotate(an)
                    r = E.apply_op(op, [a_, b_])
                else:
                    y = claripy.BVS("c04g", w, explicit_name=True)
                    e = E.apply_op(op, [val, y])
                    if how == "nested-replace":
                        e = (e ^ 1) + E.apply_op(op, [val + 1, y])
                    r = claripy.replace(e, y, claripy.BVV(amt_v, w)) if how != "replace_dict" else claripy.replace_dict(e, {y.hash(): claripy.BVV(amt_v, w)})
            finally:
                signal.alarm(0)
            kinds["ok"] += 1
            ctx.distinct(desc)
        except claripy.errors.ClaripyError as ex:
            kinds[type(ex).__name__] += 1
            if type(ex).__name__ not in ("ClaripyZeroDivisionError",):
                kinds["claripy-error-in-guarded-path"] += 1
        except (MemoryError, RecursionError, TimeoutError, Exception) as ex:  # noqa
            k = type(ex).__name__
            ctx.violation("C04/%s/%s/%s" % (op, k, how.split("-")[0]), "building %s raised %s: %s" % (desc, k, str(ex)[:120]),
                          {"kind": "guarded", "op": op, "bits": w, "value": val.args[0], "amount": amt_v, "how": how})
    signal.signal(signal.SIGALRM, old_handler)


def well_typed_reverse_nonbyte(tree):
    if tree[0] == "reverse":
        w = E.width(tree[1])
        if w is not None and w % 8 != 0:
            return True
    if tree[0] in ("bvv", "bvs", "boolv", "bools", "int"):
        return False
    return any(well_typed_reverse_nonbyte(a) for a in tree[1:] if isinstance(a, tuple))


def run(ctx):
    import props.C01 as C01
    ctx.cov["trusted_base"] += [
        "CPython's MemoryError / hang behaviour is abstracted by a 6 GiB address-space limit and a 5 s alarm per construction",
        "the model covers eager folding of the BV/Bool fragment; crash-freedom of the rewriting code paths rests on the generated stream (oracle), "
        "FP and string folding: crash-freedom is checked here by the oracle stream only (their models and theorems are C02/C03's)",
    ]
    ctx.cov["rule"] = ("cases = well-typed written trees from the C01 templates plus a boundary stream (shift/rotate amounts near 2^w up to "
                       "256 bits, long concats, 150-deep chains, non-byte reverses, zero divisors); non-trivial = reaches folding or a rewrite; "
                       "distinct = distinct written tree")
    ctx.prove("ClaripyProofs.Props.C04", THEOREMS)
    rng = ctx.rng
    soft, hard = resource.getrlimit(resource.RLIMIT_AS)
    resource.setrlimit(resource.RLIMIT_AS, (6 << 30, hard))
    kinds = collections.Counter()
    dist = collections.Counter()
    fold_lines, fold_expect = [], []
    try:
        n1, n2, n3 = ctx.pick((2500, 2500, 1500), (40000, 40000, 20000))

        def stream():
            for _ in range(n1):
                yield extremes(rng)
            for _ in range(n2):
                yield G.rule_directed(rng)
            for _ in range(n3):
                yield G.random_tree(rng)
            for _ in range(n2 // 2):
                yield extreme_constant(rng)
            for _ in range(n2 // 4):
                yield G.near_miss(rng)
        for name, tree in stream():
            ctx.count()
            dist[name] += 1
            a, log, e = X.build_case(tree)
            if e is None:
                kinds["ok"] += 1
                if log:
                    ctx.distinct(repr(tree)[:400])
                # outcome correspondence for constant nodes that folded
                for (op, args, r) in log:
                    if len(fold_lines) < ctx.pick(3000, 30000) and all(not isinstance(x, int) and x.op in ("BVV", "BoolV") for x in args):
                        try:
                            n = X.raw_node(op, args)
                            fold_lines.append("fold " + E.sexpr(n)); fold_expect.append("value")
                        except E.Unsupported:
                            pass
                continue
            k = X.exc_kind(e)
            kinds[k] += 1
            if k == "DivZero" and (X.has_concrete_div_zero(tree) or C01.has_semantic_div_zero(tree, rng)):
                # documented; compare with the model when the failing node is a constant node at top level
                if all(isinstance(a2, tuple) and a2[0] == "bvv" for a2 in tree[1:]) and tree[0] in ("udiv", "umod", "sdiv", "smod"):
                    fold_lines.append("fold " + E.sexpr(tree)); fold_expect.append("err:divZero")
                continue
            if k == "ReverseNonByte" and well_typed_reverse_nonbyte(tree):
                if tree[0] == "reverse" and tree[1][0] == "bvv":
                    fold_lines.append("fold " + E.sexpr(tree)); fold_expect.append("err:reverseNonByte")
                continue
            if isinstance(e, E.Unsupported):
                continue
            # shrink: smallest failing sub-tree

            def fails(t):
                _, _, e2 = X.build_case(t)
                return e2 is not None and X.exc_kind(e2) == k
            small = C01.shrink(tree, fails)
            _, _, e2 = X.build_case(small)
            ctx.violation("C04/%s/%s" % (small[0].split(":")[0], k),
                          "building %s raised %s: %s" % (repr(small)[:300], k, str(e2 or e)[:200]),
                          {"tree": small, "exception": k, "message": str(e2 or e)[:300], "template": name})
        fp_str_stream(ctx, rng, kinds, dist)
        wide_int_to_str(ctx, rng, kinds, dist)
        guarded_paths(ctx, rng, kinds, dist)
    finally:
        resource.setrlimit(resource.RLIMIT_AS, (soft, hard))
    if fold_lines:
        outs = ctx.driver(fold_lines)
        agree = 0
        for l, want, o in zip(fold_lines, fold_expect, outs):
            got = o if o.startswith("err:") else ("value" if o.startswith("(") else o)
            if got != want:
                ctx.tie_broken("corr:fold-outcome", "%s: model outcome %s, real outcome %s" % (l, o, want))
                break
            agree += 1
        ctx.cov["traces_validated_against_impl"] = agree
    ctx.cov["input_distribution"] = {"templates": dict(dist), "outcomes": dict(kinds)}
    ctx.sample({"boundary_example": repr(extremes(rng)[1])[:300]})


def replay(ctx, obj):
    def tup(t):
        return tuple(tup(x) if isinstance(x, list) else x for x in t)
    r = obj["replay"]
    if r.get("kind") == "int2str":
        import claripy
        try:
            claripy.IntToStr(claripy.BVV((1 << r["bits"]) - 1, r["bits"]))
        except claripy.errors.ClaripyError as ex:
            print("claripy error:", ex); return 0
        except Exception as ex:  # noqa
            print("raised:", type(ex).__name__, ex); print("VIOLATION property=C04 replay=(given)"); return 1
        print("no exception on the current tree"); return 0
    if r.get("kind") in ("fp", "str"):
        from lib import fs_fp as P, fs_str as S
        res = P.real_fold(r["op"], r["fmt"], r["rm"], tup(r["a"])) if r["kind"] == "fp" else S.real_fold(r["op"], tup(r["a"]))
        print("fold result:", res)
        if res[0] == "err" and not hasattr(__import__("claripy").errors, res[1]):
            print("VIOLATION property=C04 replay=(given)"); return 1
        return 0
    tree = tup(r["tree"])
    a, log, e = X.build_case(tree)
    print("written:", repr(tree)[:500])
    if e is not None and X.exc_kind(e) not in DOCUMENTED:
        print("raised:", X.exc_kind(e), e)
        print("VIOLATION property=C04 replay=(given)")
        return 1
    print("no undocumented exception on the current tree (%s)" % ("returned" if e is None else X.exc_kind(e)))
    return 0
