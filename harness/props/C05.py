"""C05 — width, variables, concreteness and depth are reported accurately.

prove:       ClaripyProofs.Props.C05 (C05_width, C05_vars, C05_concrete, depth lemmas) for the expression model
correspond:  for every sub-AST of every built expression: real .length/.variables/.symbolic/.depth vs the Lean
             functions Expr.width / vars / depth / symbolic evaluated by the driver on the same tree
oracle:      recomputation on the real AST (independent of the model): width of the denoted value, occurring
             variables, depth = 1 + deepest argument, concrete => no variables and concrete value = denotation;
             also after annotate(), replace(), make_like-based rewrites and Z3 abstraction (simplify round trip)
"""
import collections

import claripy

from lib import exprs as E, exprgen as G, exprcheck as X

THEOREMS = ["Claripy.Props.C05.C05_width", "Claripy.Props.C05.C05_vars", "Claripy.Props.C05.C05_concrete",
            "Claripy.Props.C05.C05_depth_node", "Claripy.Props.C05.C05_depthList_max", "Claripy.Props.C05.applyOp_width",
            "Claripy.Props.C05.eval_env_congr"]


def occurring_vars(a):
    return set(l.args[0] for l in a.leaf_asts() if l.op in ("BVS", "BoolS", "FPS", "StringS"))


def arg_asts(a):
    return [x for x in a.args if isinstance(x, claripy.ast.Base)]


def oracle(a, tree, rng):
    """property on one real AST node; returns None or a description.  `tree` is None for operators outside the evaluator
    (the set operations of the abstract domain, FP, strings): then only the structural part is checked."""
    occ = occurring_vars(a)
    if not occ <= set(a.variables):
        return "variables %s misses occurring %s" % (sorted(a.variables), sorted(occ - set(a.variables)))
    if not a.symbolic and occ:
        return "reported concrete but variables %s occur" % sorted(occ)
    d = 1 + max([x.depth for x in arg_asts(a)], default=0)
    if a.depth != d:
        return "depth %d but deepest argument has depth %d" % (a.depth, d - 1)
    if tree is not None and isinstance(a, claripy.ast.BV):
        vs = E.variables(tree)
        env = E.sample_envs(vs, rng, 1)[0]
        try:
            v = E.ev(tree, env)
        except E.Unsupported as ex:
            if "ill-sized" in str(ex):
                return "operands of different widths under one operator (reported length %s)" % a.length
            raise
        except KeyError:
            return "two variables share a name at different widths inconsistently"
        except (OverflowError, ValueError):
            return "a sub-expression denotes a value wider than the width it reports (reported length %s)" % a.length
        if v[0] != "bv" or v[1] != a.length:
            return "length %s but the denoted value has width %s" % (a.length, v[1] if v[0] == "bv" else v[0])
        if not a.symbolic and not occ:
            cv = claripy.backends.concrete.convert(a).value
            if cv != v[2]:
                return "concrete value %d but denotes %d" % (cv, v[2])
    return None


FP_SHAPES = ["fp:neg-neg", "fp:abs-neg", "fp:neg-neg-plus", "fp:ite-same-after-rewrite", "fp:to-bv-of-bv"]


def simplify_annotated(spec, n=0):
    """results of claripy.simplify on an expression whose ROOT carries an annotation (and further operations over them);
    -> (annotated input, [(label, ast), ...]); spec = {"tree": written tree | "fp": shape name, "anno": Elim|Keep|Reloc|Avoid, "inner": bool}"""
    import props.C07 as C07
    an = {"Elim": C07.Elim, "Keep": C07.Keep, "Reloc": C07.Reloc, "Avoid": C07.Avoid}[spec["anno"]](n)
    if "fp" in spec:
        D = claripy.FSORT_DOUBLE
        f, g = claripy.FPS("f_sa", D, explicit_name=True), claripy.FPS("g_sa", D, explicit_name=True)
        x = claripy.BVS("x_sa", 64, explicit_name=True)
        rm = claripy.fp.RM.default()
        a = {"fp:neg-neg": lambda: claripy.fpNeg(claripy.fpNeg(f)), "fp:abs-neg": lambda: claripy.fpAbs(claripy.fpNeg(f)),
             "fp:neg-neg-plus": lambda: claripy.fpAdd(rm, claripy.fpNeg(claripy.fpNeg(f)), g),
             "fp:ite-same-after-rewrite": lambda: claripy.If(x == 3, claripy.fpNeg(claripy.fpNeg(f)), f),
             "fp:to-bv-of-bv": lambda: claripy.fpToIEEEBV(claripy.fpToFP((x + 1) - 1, D))}[spec["fp"]]()
    else:
        a = E.build(spec["tree"])
    if not isinstance(a, claripy.ast.Base) or a.is_leaf():
        return None, []
    tagged = a.annotate(an)
    if spec.get("inner") and isinstance(tagged, claripy.ast.BV):
        # the annotated expression as an operand: simplify of the parent meets the annotation one level down
        tagged_in = tagged
        tagged = tagged_in + claripy.BVV(0, tagged_in.length) * claripy.BVS("pad_sa", tagged_in.length, explicit_name=True) if spec["inner"] == "pad" else tagged_in
    s = claripy.simplify(tagged)
    out = [("simplify-annotated", s)]
    if isinstance(s, claripy.ast.BV):
        out += [("simplify-annotated+1", s + 1), ("simplify-annotated-concat", claripy.Concat(s, s)),
                ("simplify-annotated-twice", claripy.simplify(s ^ claripy.BVS("q_sa", s.length, explicit_name=True)))]
    elif isinstance(s, claripy.ast.FP):
        out += [("simplify-annotated-fpAbs", claripy.fpAbs(s)), ("simplify-annotated-isnan", claripy.fpIsNaN(s))]
    elif isinstance(s, claripy.ast.Bool):
        out += [("simplify-annotated-not", claripy.Not(s))]
    return tagged, out


KEEP = []


def derived(a, rng):
    """ASTs obtained from `a` by annotation changes, substitution, explicit simplification"""
    out = []
    try:
        out.append(("annotate", a.annotate(claripy.annotation.SimplificationAvoidanceAnnotation())))
        leaves = [l for l in a.leaf_asts() if l.op == "BVS"]
        if leaves:
            l = rng.choice(leaves)
            out.append(("replace", claripy.replace(a, l, claripy.BVS("r", l.length, explicit_name=True) + 1)))
            out.append(("replace_const", claripy.replace(a, l, claripy.BVV(rng.getrandbits(l.length), l.length))))
            # a replacement of another size is refused (or, if ever accepted, must give a well-sized node)
            try:
                out.append(("replace_other_size", claripy.replace(a, l, claripy.BVS("rw", l.length + rng.choice([1, 8]), explicit_name=True))))
            except claripy.errors.ClaripyError:
                pass
            # substitution below an annotated inner node (the make_like fast path must not keep stale metadata)
            if isinstance(a, claripy.ast.BV) and not a.is_leaf():
                tagged = a.annotate(claripy.annotation.SimplificationAvoidanceAnnotation())
                outer = rng.choice([tagged + 1, claripy.Concat(tagged, claripy.BVV(0, 1)), ~tagged, claripy.If(claripy.BoolS("c05", explicit_name=True), tagged, tagged + 2)])
                out.append(("replace_under_annotation", claripy.replace(outer, l, claripy.BVS("r", l.length, explicit_name=True) * 3)))
                out.append(("replace_under_annotation_const", claripy.replace(outer, l, claripy.BVV(rng.getrandbits(l.length), l.length))))
                out.append(("replace_annotated_itself", claripy.replace(tagged, l, claripy.BVS("r2", l.length, explicit_name=True))))
        if isinstance(a, claripy.ast.BV) and rng.random() < 0.5:
            # the set operations of the abstract domain are ordinary nodes as far as the metadata goes
            other = rng.choice([claripy.BVS("u", a.length, explicit_name=True), claripy.BVV(rng.getrandbits(a.length), a.length), a + 1])
            for nm in ("union", "intersection", "widen"):
                u = getattr(a, nm)(other) if rng.random() < 0.5 else getattr(other, nm)(a)
                out.append((nm, u))
                if leaves:
                    out.append((nm + "_replace", claripy.replace(u, l, claripy.BVS("r", l.length, explicit_name=True) + 1)))
                    out.append((nm + "_replace_const", claripy.replace(u, l, claripy.BVV(rng.getrandbits(l.length), l.length))))
        if rng.random() < 0.15:
            out.append(("z3_simplify", claripy.simplify(a)))
        if rng.random() < 0.1:
            # Z3 identifies a symbol by name AND sort: same explicit name at different widths must stay different variables
            for wd in (8, 16, 32):
                cell = claripy.BVS("cell", wd, explicit_name=True)
                KEEP.append(cell)
                e = rng.choice([(cell + 1) * 2 - cell, claripy.LShR(cell, 1) ^ cell, cell[wd - 1:1].zero_extend(1) + cell])
                out.append(("z3_simplify_shared_name", claripy.simplify(e)))
    except claripy.errors.ClaripyError:
        pass
    return out


def run(ctx):
    ctx.cov["trusted_base"] += [
        "modelled: Expr.width (calc_length functions), Expr.vars / depth / symbolic (Base.__new__); the make_like fast path and the explicit "
        "variable sets passed by _flatten_simplifier are covered by the oracle on the real AST, not by the model",
        "Z3 abstraction (_abstract_internal) is outside Lean: its results are checked by recomputation only",
    ]
    ctx.cov["rule"] = ("cases = every sub-AST of every expression built from the C01 streams, plus ASTs derived by annotate/replace/Z3 simplify; "
                       "non-trivial = non-leaf node; distinct = distinct AST hash")
    ctx.prove("ClaripyProofs.Props.C05", THEOREMS)
    # a Boolean-valued expression reports no width (companion of C05_width)
    ctx.prove("ClaripyProofs.Lemmas.AST.BoolWidth", ["Claripy.AST.eval_bool_width", "Claripy.AST.applyOp_bool_cases"])
    rng = ctx.rng
    n1, n2 = ctx.pick((2500, 1500), (40000, 30000))
    lines, expect = [], []
    seen = set()
    dist = collections.Counter()
    found = 0

    def stream():
        for _ in range(n1):
            yield G.rule_directed(rng)
        for _ in range(n2):
            yield G.random_tree(rng)
        for _ in range(n1 // 3):
            yield G.near_miss(rng)

    def check_ast(origin, a):
        nonlocal found
        for sub in [a] + list(a.children_asts()):
            h = sub.hash()
            if h in seen:
                continue
            seen.add(h)
            ctx.count()
            try:
                t = E.from_ast(sub)
            except E.Unsupported:
                bad = oracle(sub, None, rng)
                if bad:
                    found += 1
                    ctx.violation("C05/%s/%s" % (origin, sub.op), "%r: %s" % (sub, bad), {"expr": repr(sub), "origin": origin, "problem": bad})
                continue
            if sub.args and arg_asts(sub):
                ctx.distinct(h)
            try:
                bad = oracle(sub, t, rng)
            except E.Unsupported:
                bad = None
            if bad:
                found += 1
                ctx.violation("C05/%s/%s" % (origin, sub.op), "%s: %s" % (E.sexpr(t)[:300], bad),
                              {"tree": t, "origin": origin, "problem": bad})
                continue
            if len(lines) < ctx.pick(6000, 60000) and not sub.annotations:
                lines.append("meta " + E.sexpr(t))
                expect.append((sub.length if isinstance(sub, claripy.ast.BV) else None, occurring_vars(sub), sub.depth,
                               sub.symbolic, set(sub.variables), E.sexpr(t)))

    import props.C07 as C07
    agen = C07.Gen(rng, p=0.3)
    uniq = [0]

    def fresh_names(t):
        """rename every variable so that no un-annotated twin of an annotated leaf is alive in the hash cache"""
        if t[0] == "bvs":
            return ("bvs", "%s_u%d" % (t[1], uniq[0]), t[2])
        if t[0] == "bools":
            return ("bools", "%s_u%d" % (t[1], uniq[0]))
        if t[0] in ("bvv", "boolv", "int"):
            return t
        return (t[0],) + tuple(fresh_names(x) for x in t[1:])

    # corpus of past failures first: a distributing Extract that simplifies to an annotated leaf with no live twin
    for k in range(ctx.pick(60, 600)):
        uniq[0] += 1
        w1, w2 = rng.choice([1, 4, 8]), rng.choice([1, 4, 8])
        z = claripy.BVS("z_c%d" % uniq[0], w2, explicit_name=True).annotate(C07.Elim(uniq[0]))
        x1 = claripy.BVS("x_c%d" % uniq[0], w1, explicit_name=True)
        y1 = claripy.BVS("y_c%d" % uniq[0], w1, explicit_name=True)
        op = rng.choice(["__xor__", "__or__", "__and__"])
        zero = claripy.BVV(0 if op != "__and__" else (1 << w2) - 1, w2)
        lhs, rhs = claripy.Concat(x1, zero), claripy.Concat(y1, z)
        if rng.random() < 0.5:
            lhs, rhs = rhs, lhs
        r_ = getattr(lhs, op)(rhs)[w2 - 1:0]
        dist["corpus.extract_to_annotated_leaf"] += 1
        check_ast("extract-distribute", r_)
        del z, r_, lhs, rhs
    for name, tree in stream():
        dist[name] += 1
        if rng.random() < 0.25:
            # annotated construction (eliminatable / relocatable / non-eliminatable annotations on leaves and inner nodes)
            uniq[0] += 1
            try:
                a = agen.build(fresh_names(tree), [])
            except Exception:
                continue
            check_ast("annotated-build", a)
            del a
            continue
        a, log, e = X.build_case(tree)
        if e is not None:
            continue
        check_ast("build", a)
        if rng.random() < 0.3:
            for origin, d in derived(a, rng):
                check_ast(origin, d)
    # ---- claripy.simplify of expressions whose ROOT carries an annotation and which the solver's simplifier really rewrites (to a leaf,
    # a constant, a smaller node): the result is re-annotated by simplify — its metadata (and that of everything built over it) obeys the
    # same oracle.  Fresh annotation objects, so no live twin of the result exists in the hash table.
    import random
    srng = random.Random("C05-simplify-annotated:%d" % ctx.seed)      # own stream: the older stages keep theirs
    rewritten = 0
    for k in range(ctx.pick(500, 8000)):
        uniq[0] += 1
        r0 = srng.random()
        if r0 < 0.08:
            spec = {"fp": srng.choice(FP_SHAPES)}
            name = spec["fp"]
        else:
            name, tree = G.z3_rewritable(srng) if r0 < 0.6 else G.rule_directed(srng) if r0 < 0.8 else G.random_tree(srng)
            spec = {"tree": tree}
        spec["anno"] = srng.choice(["Elim", "Elim", "Keep", "Reloc", "Avoid"])
        spec["inner"] = srng.choice([None, None, None, "pad"])
        try:
            tagged, res = simplify_annotated(spec, 100000 + uniq[0])
        except (claripy.errors.ClaripyError, E.Unsupported, TypeError):
            continue
        if tagged is None:
            continue
        dist["SA." + name.split("+")[0]] += 1
        if res[0][1].op != tagged.op or len(res[0][1].args) != len(tagged.args):
            rewritten += 1
        before = found
        for origin, d in res:
            check_ast(origin, d)
        if found > before:
            # the failing nodes arise only through this route: record the route itself
            ctx.violation("C05/simplify-annotated/%s/%s" % (spec["anno"], "stale-metadata"),
                          "claripy.simplify(%r annotated %s) = %r and the expressions over it: metadata differs from the recomputation" % (tagged, spec["anno"], res[0][1]),
                          {"simplify_annotated": spec})
        del tagged, res
    dist["SA.rewritten_by_the_solver"] = rewritten
    outs = ctx.driver(lines) if lines else []
    agree = 0
    for o, (w, occ, depth, sym, varset, sx) in zip(outs, expect):
        f = dict(x.split("=", 1) for x in o.split(" "))
        mw = None if f["w"] == "none" else int(f["w"])
        mv = set(x for x in f["vars"].split(",") if x)
        if mw != w or int(f["depth"]) != depth or (f["sym"] == "1") != bool(sym) or not mv <= varset or mv != occ:
            ctx.tie_broken("corr:meta", "%s: model %s, real length=%s variables=%s depth=%d symbolic=%s" % (
                sx[:300], o, w, sorted(varset), depth, sym))
            break
        agree += 1
    ctx.cov["traces_validated_against_impl"] = agree
    ctx.cov["input_distribution"] = {"templates": dict(dist), "distinct_nodes_checked": len(seen)}
    if lines:
        ctx.sample({"node": lines[len(lines) // 2][5:][:200], "model_meta": outs[len(lines) // 2]})


def replay(ctx, obj):
    def tup(t):
        return tuple(tup(x) if isinstance(x, list) else x for x in t)
    if "simplify_annotated" in obj["replay"]:
        spec = dict(obj["replay"]["simplify_annotated"])
        if "tree" in spec:
            spec["tree"] = tup(spec["tree"])
        tagged, res = simplify_annotated(spec, 1)
        bad_any = 0
        for origin, d in res:
            for sub in [d] + list(d.children_asts()):
                try:
                    t_ = E.from_ast(sub)
                except E.Unsupported:
                    t_ = None
                bad = oracle(sub, t_, ctx.rng)
                if bad:
                    bad_any += 1
                    print("%s: %r (op %s, annotations %r): %s" % (origin, sub, sub.op, sub.annotations, bad))
        print("claripy.simplify(%r) = %r" % (tagged, res[0][1] if res else None))
        if bad_any:
            print("VIOLATION property=C05 replay=(given)"); return 1
        print("metadata consistent on the current tree"); return 0
    t = tup(obj["replay"]["tree"])
    a = E.build(t)
    bad = oracle(a, E.from_ast(a), ctx.rng)
    print("tree:", E.sexpr(t)[:400], "->", a)
    if bad:
        print(bad); print("VIOLATION property=C05 replay=(given)"); return 1
    print("metadata consistent on the current tree (note: the failing node may only arise through %s)" % obj["replay"].get("origin"))
    return 0
