"""C01 — bit-vector / Boolean expressions mean what was written.

prove:       ClaripyProofs.Props.C01 (rule table sound at every width; concrete folding = SMT-LIB BitVec ops)
correspond:  every node construction of every generated tree: folding vs Lean `fold`, rewrites vs the Lean rule
             table (`rules`), Lean `eval` vs the harness evaluator
oracle:      written tree vs built AST under all / sampled assignments (the property itself on the real code)
"""
import collections

from lib import exprs as E, exprgen as G, exprcheck as X

THEOREMS = [
    "Claripy.Props.C01.C01_built_sound", "Claripy.Props.C01.C01_direct_sound", "Claripy.Props.C01.C01_full_of_built", "Claripy.AST.wt_of_ne_err", "Claripy.AST.extractRules_sound", "Claripy.AST.extrV_foldl", "Claripy.Props.C01.C01_not_table_proven", "Claripy.Props.C01.notPairs_sound",
    "Claripy.Props.C01.C01_extract_distributable_proven", "Claripy.Props.C01.C01_flattenable_modelled", "Claripy.Props.C01.C01_simplifier_ops_modelled",
    "Claripy.Props.C01.C01_rules_sound", "Claripy.Props.C01.C01_rewrite_step_sound", "Claripy.Props.C01.C01_congruence",
    "Claripy.Props.C01.C01_eval_canonical", "Claripy.Props.C01.C01_fold_sound", "Claripy.Props.C01.C01_fold_sound_all", "Claripy.BV.reverse_spec", "Claripy.BV.reverseLoop_eq", "Claripy.Props.C01.C01_ac_rewrite_sound",
    "Claripy.Props.C01.C01_ac_rewrite_sound_width", "Claripy.Props.C01.C01_bool_ac_rewrite_sound", "Claripy.Props.C01.C01_bits_rewrite_sound", "Claripy.Props.C01.C01_cmp_rewrite_sound", "Claripy.Props.C01.C01_and_eq_ne_sound", "Claripy.Props.C01.C01_minmax_rewrite_sound", "Claripy.Props.C01.C01_max_idiom", "Claripy.Props.C01.C01_min_idiom",
    "Claripy.BV.add_spec", "Claripy.BV.sub_spec", "Claripy.BV.mul_spec", "Claripy.BV.neg_spec", "Claripy.BV.and_spec",
    "Claripy.BV.or_spec", "Claripy.BV.xor_spec", "Claripy.BV.not_spec", "Claripy.BV.shl_spec", "Claripy.BV.lshr_spec",
    "Claripy.BV.ashr_spec", "Claripy.BV.signed_eq_toInt", "Claripy.BV.udiv_spec", "Claripy.BV.umod_spec", "Claripy.BV.sdiv_spec", "Claripy.BV.smod_spec", "Claripy.BV.sdivCore_eq_tdiv", "Claripy.BV.rotl_spec", "Claripy.BV.rotr_spec",
    "Claripy.BV.zeroExt_spec", "Claripy.BV.signExt_spec", "Claripy.BV.extract_spec_lt", "Claripy.BV.concat2_spec",
    "Claripy.BV.eq_spec", "Claripy.BV.ult_spec", "Claripy.BV.ule_spec", "Claripy.BV.ugt_spec", "Claripy.BV.uge_spec",
    "Claripy.BV.slt_spec", "Claripy.BV.sle_spec", "Claripy.BV.sgt_spec", "Claripy.BV.sge_spec",
]


def has_semantic_div_zero(tree, rng):
    """some division in the tree has a divisor that is 0 under every (sampled) assignment"""
    if tree[0] in ("bvv", "bvs", "boolv", "bools", "int"):
        return False
    if tree[0] in ("udiv", "umod", "sdiv", "smod"):
        d = tree[2]
        try:
            vs = E.variables(d)
            envs = E.all_envs(vs, 8) or E.sample_envs(vs, rng, 32)
            w = E.width(tree[1]) or E.width(d)
            if all(E.ev(d, env, w)[2] == 0 for env in envs):
                return True
        except Exception:
            pass
    return any(has_semantic_div_zero(a, rng) for a in tree[1:])


def classify(name, tree, built):
    """finding signature: property / top-level construction site / template that reached it"""
    return "C01/%s/%s" % (tree[0].split(":")[0], name)


def shrink(tree, fails):
    """greedy: replace the tree by a failing sub-tree, then sub-trees by leaves"""
    changed = True
    while changed:
        changed = False
        for a in tree[1:] if tree[0] not in ("bvv", "bvs", "boolv", "bools", "int") else []:
            if isinstance(a, tuple) and a[0] not in ("bvv", "bvs", "boolv", "bools", "int") and fails(a):
                tree = a
                changed = True
                break
    return tree


def run(ctx):
    ctx.cov["trusted_base"] += [
        "Lean core BitVec operations are the SMT-LIB bit-vector operations (smtUDiv/smtSDiv for division by zero); claripy SMod = bvsrem as backend_z3 translates it",
        "modelled, not verified: lean/Claripy/BV/Concrete.lean (bv.py), lean/Claripy/AST/{Expr,Fold,Rules}.lean (75 rewrite schemas of simplifications.py and ast/bool.py:If, six certificate checks); "
        "translator harness/translate_simptables.py (Not chain, extract_distributable, flattenable, keys of _all_simplifiers); the handful of rewrites no schema or certificate explains are covered by the semantic oracle only",
        "Z3's own meaning of each operator is not re-derived (C09 covers the claripy<->Z3 operator tables)",
    ]
    ctx.cov["rule"] = ("cases = written operation trees: (1) rule-directed templates for every rewrite of simplifications.py/If with near-misses, "
                       "(2) type-directed random trees depth<=4, (3) thorough: all depth-1 and constant-chained depth-2 trees at widths 1-2(3); "
                       "non-trivial = the built AST differs structurally from the written tree (a rewrite or fold happened); distinct = distinct written tree")
    # the tables simplifications.py keeps as data / as a flat if-chain are regenerated from the source; the theorems
    # C01_*_proven / *_modelled say that every entry is covered by a proven rewrite
    import os
    import translate_simptables as tst
    from lib.common import LEAN, write_if_changed
    try:
        tr = tst.translate()
        write_if_changed(os.path.join(LEAN, "Claripy", "Gen", "SimpTables.lean"), tst.render(tr))
        ctx.cov["translated"] = {"not_chain_entries": len(tr["not"]), "extract_distributable": tr["extract_distributable"],
                                 "flattenable": tr["flattenable"], "simplifier_ops": len(tr["simplifier_ops"])}
    except tst.TranslateError as e:
        ctx.tie_broken("translate:simplifications-tables", str(e)[:300])
    ok = ctx.prove("ClaripyProofs.Props.C01", THEOREMS)
    rng = ctx.rng
    n_rule = ctx.pick(6000, 120000)
    n_rand = ctx.pick(3000, 60000)
    if ctx.broken:
        n_rule *= 3
        n_rand *= 2
    sc = X.StepChecker(ctx)
    dist = collections.Counter()
    widths = collections.Counter()
    exempt = 0
    crashes = collections.Counter()
    ev_pairs = []
    model_usable = True

    def stream():
        for _ in range(n_rule):
            yield G.rule_directed(rng)
        for _ in range(n_rule // 3):
            yield G.near_miss(rng)
        for _ in range(n_rand):
            yield G.random_tree(rng)
        if ctx.thorough():
            yield from G.exhaustive_small((1, 2, 3))
        else:
            yield from G.exhaustive_small((1,))

    def handle_bad(bad):
        nonlocal model_usable
        for kind, detail, n in bad[:3]:
            ctx.tie_broken(kind, detail[:600])
        if bad:
            model_usable = model_usable  # keep comparing: later disagreements are reported too (first 3 kept)

    for name, tree in stream():
        ctx.count()
        dist[name] += 1
        a, log, e = X.build_case(tree)
        if e is not None:
            k = X.exc_kind(e)
            if k == "DivZero" and (X.has_concrete_div_zero(tree) or has_semantic_div_zero(tree, rng)):
                exempt += 1
            else:
                crashes[k] += 1      # C04's business; recorded here for the distribution only
            continue
        try:
            bt = E.from_ast(a)
        except E.Unsupported:
            continue
        widths[E.width(tree) or 0] += 1
        if bt != tree:
            ctx.distinct(E.sexpr(tree) if tree[0] != "int" and "int" not in str(tree) else repr(tree))
        try:
            bad, n = X.semantic_check(tree, bt, rng)
        except Exception as ex:  # evaluator cannot handle (ill-typed coercion): not a verdict
            ctx.notes.append("evaluator skipped %r: %r" % (tree, ex)) if len(ctx.notes) < 5 else None
            continue
        if bad:
            def fails(t):
                a2, _, e2 = X.build_case(t)
                if e2 is not None:
                    return False
                try:
                    b2, _ = X.semantic_check(t, E.from_ast(a2), rng)
                except Exception:
                    return False
                return b2 is not None
            small = shrink(tree, fails)
            a2, _, _ = X.build_case(small)
            bt2 = E.from_ast(a2)
            bad2, _ = X.semantic_check(small, bt2, rng)
            env, want, got = bad2 or bad
            ctx.violation(classify(name, small, bt2),
                          "written %s builds %s; at %s the written tree is %s, the built one %s" % (
                              E.sexpr(small) if "int" not in repr(small) else repr(small), E.sexpr(bt2), env, want, got),
                          {"tree": small, "built": E.sexpr(bt2), "env": env, "expected": want, "got": got, "template": name})
            continue
        if len(ev_pairs) < ctx.pick(400, 4000) and "int" not in repr(tree) and "slice" not in repr(tree):
            vs = E.variables(bt)
            env = E.sample_envs(vs, rng, 1)[0]
            ev_pairs.append((bt, env))
        for (op, args, r) in log:
            sc.add(op, args, r)
        if len(sc.steps) > 4000:
            handle_bad(sc.flush())
        if len(ctx.cov["samples"]) < 6 and bt != tree and rng.random() < 0.02:
            ctx.sample({"template": name, "written": repr(tree), "built": E.sexpr(bt)})
    handle_bad(sc.flush())
    # Lean eval vs harness evaluator (the semantics the theorems talk about is the semantics the oracle uses)
    lines = ["ev %s | %s" % (E.sexpr(t), " ".join("%s=%d" % (k, int(v)) for k, v in env.items())) for t, env in ev_pairs]
    if lines:
        outs = ctx.driver(lines)
        for (t, env), o in zip(ev_pairs, outs):
            v = E.ev(t, env)
            want = "bv %d %d" % (v[1], v[2]) if v[0] == "bv" else "bool %d" % (1 if v[1] else 0)
            if o != want:
                ctx.tie_broken("corr:eval", "%s at %s: Lean eval=%s harness evaluator=%s" % (E.sexpr(t), env, o, want))
                break
    ctx.cov["traces_validated_against_impl"] = sc.stats["fold_agree"] + sum(sc.stats["rule_explained"].values()) + sc.stats["identity"]
    ctx.cov["correspondence"] = {
        "node_constructions_compared": ctx.cov["traces_validated_against_impl"],
        "folds_agreeing_with_Lean_fold": sc.stats["fold_agree"],
        "rewrites_explained_by_schema": dict(sorted(sc.stats["rule_explained"].items())),
        "nodes_built_unchanged": sc.stats["identity"],
        "rewrites_by_unmodelled_simplifiers(oracle only)": sc.stats["unmodelled_rewrite"],
        "unmodelled_examples": sc.stats.get("unmodelled_examples", {}),
        "skipped(outside fragment)": sc.stats["skipped"],
        "lean_eval_vs_harness_eval": len(lines),
    }
    ctx.cov["input_distribution"] = {"templates": dict(dist), "result_widths": dict(sorted(widths.items())),
                                     "div_by_zero_exempt": exempt, "exceptions(other; see C04)": dict(crashes)}


def replay(ctx, obj):
    r = obj["replay"]
    tree = r["tree"]

    def tup(t):
        return tuple(tup(x) if isinstance(x, list) else x for x in t)
    tree = tup(tree)
    a, log, e = X.build_case(tree)
    print("written:", tree)
    if e is not None:
        print("raised:", repr(e)); return 1
    bt = E.from_ast(a)
    print("built:  ", E.sexpr(bt))
    bad, n = X.semantic_check(tree, bt, ctx.rng)
    if bad:
        print("differs at", bad[0], "written =", bad[1], "built =", bad[2])
        print("VIOLATION property=C01 replay=(given)")
        return 1
    print("no difference on %d assignments" % n)
    return 0
