"""C09 — solver-backed simplification preserves meaning and handles all claripy operators.

translate:   op_map and the forward operator table are regenerated from the live backend_z3 module (harness/translate_z3tables.py)
prove:       ClaripyProofs.Props.C09 (round trip semantic + total + no mis-mapped kind, by kernel evaluation over the generated
             tables; ConstrainedFrontend.simplify keeps the models for any model-preserving rewriter)
correspond:  convert -> _abstract on random expressions returns an equivalent (mostly identical) expression; every Z3 declaration
             kind seen in Z3's simplified output is mapped
oracle:      claripy.simplify / backends.z3.simplify never raise on expressible operators and return an equivalent expression
             (evaluator for BV/Bool, Z3 equivalence query for FP/strings); Solver.simplify keeps the model set (brute force)
"""
import collections, os, random

import claripy
import z3

from lib import exprs as E, exprgen as G, exprcheck as X
from lib.common import LEAN, write_if_changed
import translate_z3tables as tz

THEOREMS = ["Claripy.Props.C09.C09_roundtrip_sem", "Claripy.Props.C09.C09_roundtrip_total", "Claripy.Props.C09.C09_opmap_sem",
            "Claripy.Props.C09.C09_bsmod_as_smod_rejected", "Claripy.Props.C09.C09_simplify_models", "Claripy.Props.C09.all_partition"]


def z3_equiv(a, b):
    """are two claripy expressions equivalent according to Z3 (None if Z3 cannot say)"""
    bz = claripy.backends.z3
    za, zb = bz.convert(a), bz.convert(b)
    if z3.is_fp(za):
        diff = z3.Not(z3.Or(z3.And(z3.fpIsNaN(za), z3.fpIsNaN(zb)), za == zb))
    else:
        diff = za != zb
    s = z3.Solver(ctx=za.ctx)
    s.set("timeout", 5000)
    s.add(diff)
    r = s.check()
    return True if r == z3.unsat else False if r == z3.sat else None


def fp_string_templates(rng):
    D, F = claripy.FSORT_DOUBLE, claripy.FSORT_FLOAT
    f, g = claripy.FPS("f", D, explicit_name=True), claripy.FPS("g", D, explicit_name=True)
    h = claripy.FPS("h", F, explicit_name=True)
    x = claripy.BVS("bx", 64, explicit_name=True)
    rm = rng.choice(list(claripy.fp.RM))
    c = claripy.FPV(rng.choice([0.0, -0.0, 1.5, float("inf"), float("nan"), 2.0 ** -1074, 1e308]), D)
    s, t = claripy.StringS("s", explicit_name=True), claripy.StringS("t", explicit_name=True)
    lit = claripy.StringV(rng.choice(["", "a", "ab.c", "(", "\\u{48}", "é"]))
    k = claripy.BVV(rng.randrange(4), 64)
    return [
        claripy.fpIsNaN(f), claripy.fpIsInf(f + g), claripy.fpIsNaN(claripy.fpDiv(rm, f, c)), claripy.fpLT(claripy.fpAdd(rm, f, g), c),
        claripy.fpEQ(claripy.fpNeg(f), claripy.fpAbs(g)), claripy.fpToIEEEBV(claripy.fpMul(rm, f, c)) == x,
        claripy.fpToSBV(rm, f, 32) == 3, claripy.fpToUBV(rm, claripy.fpSqrt(rm, f), 16) == 2, claripy.fpToFP(rm, f, F) == h,
        claripy.fpToFP(rm, h, D) == f, claripy.fpGEQ(claripy.fpToFPUnsigned(rm, x, D), c), claripy.fpToFP(x, D) == f,
        claripy.And(claripy.fpIsInf(f), claripy.Not(claripy.fpIsNaN(f))), claripy.If(claripy.fpIsNaN(f), c, f) == g,
        claripy.StrLen(s) == 3, claripy.StrContains(s, lit), claripy.StrPrefixOf(lit, s), claripy.StrSuffixOf(lit, s),
        claripy.StrIndexOf(s, lit, k) == 1, claripy.StrSubstr(k, k, s) == lit, claripy.StrConcat(s, lit) == t,
        claripy.StrReplace(s, lit, t) == s, claripy.StrToInt(s) == 5, claripy.IntToStr(k) == s, claripy.StrIsDigit(s),
    ]


def ext_idiom_check(tree, rng):
    """round trip, backend simplify and public simplify of one tree, each compared with the written tree on every assignment (sampled
    beyond 8 variable bits); -> None | (function, kind, text)"""
    bz = claripy.backends.z3
    a, log, e = X.build_case(tree)
    if e is not None:
        return None
    at = E.from_ast(a)
    for fn_name, fn in (("roundtrip", lambda z: bz._abstract(bz.convert(z))), ("backends.z3.simplify", bz.simplify), ("claripy.simplify", claripy.simplify)):
        if a.is_leaf() and fn_name != "claripy.simplify":
            continue
        try:
            s = fn(a)
        except claripy.errors.ClaripyError as ex:
            return fn_name, "raises-%s" % type(ex).__name__, "%s(%s) raised %r" % (fn_name, E.sexpr(at), ex)
        if type(s) is not type(a) or getattr(s, "length", None) != getattr(a, "length", None):
            return fn_name, "sort-changed", "%s(%s) = %r: length %r became %r" % (fn_name, E.sexpr(at), s, getattr(a, "length", None), getattr(s, "length", None))
        try:
            st = E.from_ast(s)
        except E.Unsupported:
            continue
        bad, _ = X.semantic_check(tree, st, rng, limit_bits=8, nsamples=64)
        if bad:
            return fn_name, "not-equivalent", "%s(%s) = %s differs at %s: written %s, returned %s" % (fn_name, E.sexpr(at), E.sexpr(st), bad[0], bad[1], bad[2])
    return None


def solver_idiom_spec(rng):
    w = 3
    hi = rng.randrange(w); lo = rng.randrange(hi + 1)
    spec = {"i": rng.choice([hi, hi - lo, hi - lo, rng.randrange(w)]), "k": rng.choice([1, 2]), "hi": hi, "lo": lo,
            "cmp": rng.choice(["ult-y", "slt-const", "eq-y", "uge-plus-one-y"]), "const": rng.randrange(32),
            "others": rng.sample(range(6), rng.choice([0, 1, 2])), "consts": [rng.randrange(8) for _ in range(6)]}
    n = 1 + len(spec["others"])
    spec["pos"] = rng.randrange(n)
    spec["cut"] = rng.randrange(n + 1)
    return spec


def solver_idiom_check(spec):
    """-> None | (solver class, kind, text, spec with the class)"""
    w = 3
    x, y = claripy.BVS("mx", w, explicit_name=True), claripy.BVS("my", w, explicit_name=True)
    idi = claripy.Concat(*([x[spec["i"]:spec["i"]]] * spec["k"] + [x[spec["hi"]:spec["lo"]]]))
    n = idi.length
    yy = y[n - 1:0] if n <= w else y.zero_extend(n - w)
    atom = {"ult-y": lambda: claripy.ULT(idi, yy), "slt-const": lambda: claripy.SLT(idi, claripy.BVV(spec["const"] % (1 << n), n)),
            "eq-y": lambda: idi == yy, "uge-plus-one-y": lambda: claripy.UGE(idi + 1, yy)}[spec["cmp"]]()
    c = spec["consts"]
    pool = [claripy.ULT(x, c[0]), x + y == c[1], y != c[2], claripy.SLE(x, y), claripy.UGT(y, c[4] % 6), (x & y) == 0]
    cons = [pool[j] for j in spec["others"]]
    cons.insert(spec["pos"], atom)
    before = {(a, b) for a in range(8) for b in range(8) if all(E.ev(E.from_ast(q), {"mx": a, "my": b})[1] for q in cons)}
    for cls in (claripy.Solver, claripy.SolverCacheless, claripy.SolverComposite, claripy.SolverHybrid, claripy.SolverReplacement):
        if spec.get("solver") not in (None, cls.__name__):
            continue
        s = cls()
        cut = spec["cut"]
        try:
            if 0 < cut < len(cons):
                s.add(cons[:cut]); s.simplify(); s.add(cons[cut:])
            else:
                s.add(cons)
            s.simplify()
        except claripy.errors.ClaripyError as ex:
            return cls.__name__, "raises", "%s.simplify() raised %r on %s" % (cls.__name__, ex, cons), dict(spec, solver=cls.__name__)
        after = {(a, b) for a in range(8) for b in range(8) if all(E.ev(E.from_ast(q), {"mx": a, "my": b})[1] for q in s.constraints)}
        if before != after:
            return cls.__name__, "model-set-changed", "%s.simplify() changed the models of %s (now %s): lost %s gained %s" % (
                cls.__name__, cons, s.constraints, sorted(before - after)[:4], sorted(after - before)[:4]), dict(spec, solver=cls.__name__)
    return None


def run(ctx):
    ctx.cov["trusted_base"] += [
        "translator harness/translate_z3tables.py: reads the op_map dict of the loaded module and converts one sample expression per claripy operation",
        "hand-written reference table lean/Claripy/Z3/Sem.lean (meaning of ~60 claripy operations and Z3 declaration kinds)",
        "Z3's simplifier and tactic chain preserve equivalence (validated by the oracle on every sampled case, never proved)",
    ]
    ctx.cov["rule"] = ("cases = BV/Bool expressions from the C01 streams, FP and string templates over boundary constants and all rounding modes; "
                       "non-trivial = Z3 returned a structurally different term; distinct = expression hash")
    tie_ok = True
    try:
        tr = tz.translate()
        write_if_changed(os.path.join(LEAN, "Claripy", "Gen", "Z3Tables.lean"), tz.render(tr))
        ctx.cov["translated"] = {"op_map_entries": len(tr["op_map"]), "mapped": sum(1 for _, v in tr["op_map"] if v), "operations_sampled": len(tr["fwd"])}
    except tz.TranslateError as e:
        tie_ok = False
        ctx.tie_broken("translate:op_map/convert", str(e)[:400])
    if tie_ok:
        ctx.prove("ClaripyProofs.Props.C09", THEOREMS)
    else:
        ctx.cov["obligations"] += len(THEOREMS)
    rng = ctx.rng
    bz = claripy.backends.z3
    kinds_seen = collections.Counter()
    dist = collections.Counter()
    nums = dict(claripy.backends.backend_z3.z3_op_nums)
    omap = dict(claripy.backends.backend_z3.op_map)
    n = ctx.pick(700, 12000) * (3 if ctx.broken else 1)
    identical = 0
    for it in range(n):
        name, tree = G.rule_directed(rng) if rng.random() < 0.5 else G.random_tree(rng)
        a, log, e = X.build_case(tree)
        if e is not None or a.op in ("BVV", "BoolV"):
            continue
        try:
            at = E.from_ast(a)
        except E.Unsupported:
            continue
        ctx.count()
        dist[name] += 1
        # (1) convert -> abstract
        try:
            back = bz._abstract(bz.convert(a))
        except claripy.errors.ClaripyError as ex:
            ctx.violation("C09/roundtrip/raises-%s" % type(ex).__name__, "abstracting the translation of %s raised %r" % (E.sexpr(at), ex), {"tree": at})
            continue
        identical += back is a
        try:
            bt = E.from_ast(back)
            bad, _ = X.semantic_check(at, bt, rng)
            if bad:
                ctx.violation("C09/roundtrip/not-equivalent", "%s came back from Z3 as %s; differs at %s" % (E.sexpr(at), E.sexpr(bt), bad[0]), {"tree": at, "env": bad[0]})
                continue
        except E.Unsupported:
            pass
        # (2) simplify through the backend (no fallback) and through the public entry point
        for fn_name, fn in (("backends.z3.simplify", bz.simplify), ("claripy.simplify", claripy.simplify)):
            try:
                s = fn(a)
            except claripy.errors.ClaripyError as ex:
                ctx.violation("C09/%s/raises-%s" % (fn_name, type(ex).__name__), "%s(%s) raised %r" % (fn_name, E.sexpr(at), ex), {"tree": at, "fn": fn_name})
                continue
            if s is not a:
                ctx.distinct(a.hash())
            try:
                st = E.from_ast(s)
            except E.Unsupported:
                continue
            bad, _ = X.semantic_check(at, st, rng)
            if bad:
                ctx.violation("C09/%s/not-equivalent" % fn_name, "%s(%s) = %s differs at %s" % (fn_name, E.sexpr(at), E.sexpr(st), bad[0]),
                              {"tree": at, "fn": fn_name, "env": bad[0]})
        # kinds Z3's simplifier produces
        try:
            zs = z3.simplify(bz.convert(a))
            stack = [zs]
            while stack:
                t = stack.pop()
                kinds_seen[nums.get(t.decl().kind(), "?%d" % t.decl().kind())] += 1
                stack.extend(t.children())
        except Exception:
            pass
    # ---- extension idioms: k copies of ONE bit in front of a slice (the shape Z3 prints sign_extend in) for ALL small i, hi, lo, one and
    # two sources, mixed bits, constant fills, explicit sext/zext: genuine sign extensions and every near miss, exhaustively compared
    nidiom = 0
    irng = random.Random("C09-extension-idioms:%d" % ctx.seed)   # own stream: the older stages keep theirs

    def idiom_cases():
        for W in ctx.pick((4, 6), (3, 4, 5, 6, 8)):
            for cls, tree in G.ext_idioms_all(W, ks=(1, 2) if W < 8 else (1, 3)):
                yield cls, tree
        for _ in range(ctx.pick(300, 4000)):
            yield G.ext_idiom_random(irng)
    for cls, tree in idiom_cases():
        bad = ext_idiom_check(tree, irng)
        ctx.count(); nidiom += 1
        if bad:
            fn_name, kind, what = bad
            ctx.violation("C09/%s/%s/extension-idiom/%s" % (fn_name, kind, cls), what, {"idiom": tree, "class": cls})
        elif nidiom % 7 == 0:
            ctx.distinct(("idiom", E.sexpr(tree)))
    dist["X.extension_idioms"] = nidiom
    unmapped = sorted(k for k in kinds_seen if omap.get(k) is None)
    if unmapped:
        ctx.tie_broken("corr:op_map-coverage", "Z3's simplifier produced declaration kinds that op_map cannot abstract: %s" % unmapped)
    # FP and strings: never raise; equivalent according to Z3
    for it in range(ctx.pick(8, 80)):
        for e in fp_string_templates(rng):
            ctx.count()
            try:
                s = claripy.simplify(e)
            except claripy.errors.ClaripyError as ex:
                ctx.violation("C09/claripy.simplify/raises-%s/%s" % (type(ex).__name__, e.args[0].op if e.args and hasattr(e.args[0], "op") else e.op),
                              "claripy.simplify(%r) raised %r" % (e, ex), {"expr": repr(e)})
                continue
            if not any(l.op in ("StringS", "StringV") for l in e.leaf_asts()):
                # the Z3 round trip itself (no fallback) must work for every non-string operator claripy can express
                try:
                    bz.simplify(e)
                except claripy.errors.ClaripyError as ex:
                    ctx.violation("C09/backends.z3.simplify/raises-%s/%s" % (type(ex).__name__, e.op),
                                  "translating %r to Z3 and back raised %r" % (e, ex), {"expr": repr(e)})
            if s is not e:
                ctx.distinct(e.hash())
                eq = z3_equiv(e, s)
                if eq is False:
                    ctx.violation("C09/claripy.simplify/not-equivalent-fp-str", "claripy.simplify(%r) = %r is not equivalent (Z3 model exists)" % (e, s), {"expr": repr(e)})
    # FP constants survive the round trip bit for bit (normal, subnormal, zeros, infinities; NaN as NaN), alone and inside a comparison
    from lib import fs_fp as P
    nconst = 0
    for fmt in "FD":
        vals = list(P.boundary_bits(fmt)) + [P.rand_bits(rng, fmt) for _ in range(ctx.pick(150, 3000))]
        sort = P.sort_obj(fmt)
        fv = claripy.FPS("k" + fmt, sort, explicit_name=True)
        for b in vals:
            ctx.count()
            nconst += 1
            c = P.real_fpv(fmt, b)
            want = P.ast_result(c)
            for how, mk, pick in (("constant", lambda c_: c_, lambda r: r), ("fpLT(v, constant)", lambda c_: claripy.fpLT(fv, c_), lambda r: r.args[1] if r.op == "fpLT" else None),
                                  ("fpEQ(constant, v)", lambda c_: claripy.fpEQ(c_, fv), lambda r: next((z for z in r.args if getattr(z, "op", None) == "FPV"), None) if r.op == "fpEQ" else None)):
                e = mk(c)
                try:
                    back = bz._abstract(bz.convert(e))
                    simp = bz.simplify(e)
                except claripy.errors.ClaripyError as ex:
                    ctx.violation("C09/fp-constant/raises-%s" % type(ex).__name__, "round trip of %r (%s bits %#x) raised %r" % (e, fmt, b, ex), {"fmt": fmt, "bits": b, "how": how})
                    break
                bad = None
                for what, r in (("_abstract(convert(e))", back), ("backends.z3.simplify(e)", simp)):
                    k_ = pick(r)
                    if k_ is None or k_.op != "FPV":
                        if want[0] == "f" and want[2] == "nan" and r.op == "BoolV":
                            continue     # comparison with NaN folded by Z3
                        if r.op == "BoolV" or k_ is None:
                            continue
                    got = P.ast_result(k_)
                    if got != want:
                        bad = (what, got)
                        break
                if bad:
                    ctx.violation("C09/fp-constant/value-changed", "%s of %s with the %s constant of bits %#x came back as %r (expected %r)" % (
                        bad[0], how, fmt, b, bad[1], want), {"fmt": fmt, "bits": b, "how": how})
                    break
    # wide constants (more than 64 bits: they cross the Z3 boundary as decimal strings): many simplifications in one process, the
    # results kept alive, each compared with Python integers on every assignment of two 3-bit unknowns
    kept_wide, nwide, fresh_wide = [], 0, 0
    for it in range(ctx.pick(250, 4000)):
        w = rng.choice([65, 72, 96, 128, 128, 200, 256])
        ux, uy = ("zext:%d" % (w - 3), ("bvs", "wx", 3)), ("zext:%d" % (w - 3), ("bvs", "wy", 3))

        def wconst():
            r_ = rng.random()
            v = rng.getrandbits(w) if r_ < 0.6 else (1 << w) - 1 - rng.getrandbits(8) if r_ < 0.8 else (1 << (w - 1)) + rng.getrandbits(16)
            return ("bvv", v % (1 << w), w)

        ones = ("bvv", (1 << w) - 1, w)

        def hidden_const():
            """variable-free in value but not in form: only Z3 finds the constant, which is then a numeral it has just made"""
            u, v = rng.sample([ux, uy], 2)
            return rng.choice([("or", u, ones), ("xor", u, ("not", u)), ("sub", ("mul", u, v), ("mul", v, u)), ("add", ("sub", u, v), ("sub", v, u)),
                               ("ite", ("ule", u, ones), wconst(), v), ("and", ("or", u, ones), wconst())])

        def wtree(d):
            if d == 0:
                return rng.choice([ux, uy, wconst(), wconst()]) if rng.random() < 0.6 else hidden_const()
            k_ = rng.random()
            if k_ < 0.15:
                return (rng.choice(["neg", "not"]), wtree(d - 1))
            return (rng.choice(["add", "sub", "sub", "xor", "or", "and", "mul"]), wtree(d - 1), wtree(d - 1))
        tree = wtree(rng.choice([1, 2, 3]))
        if rng.random() < 0.4:
            tree = (rng.choice(["eq", "ne", "ult", "uge", "slt"]), tree, wtree(1))
        a, log, e = X.build_case(tree)
        if e is not None or a.op in ("BVV", "BoolV"):
            continue
        at = E.from_ast(a)
        ctx.count(); nwide += 1
        consts_in = {l.args[0] for l in a.leaf_asts() if l.op == "BVV"}
        for fn_name, fn in (("backends.z3.simplify", bz.simplify), ("claripy.simplify", claripy.simplify)):
            try:
                s_ = fn(a)
            except claripy.errors.ClaripyError as ex:
                ctx.violation("C09/%s/raises-%s/wide" % (fn_name, type(ex).__name__), "%s(%s) raised %r" % (fn_name, E.sexpr(at)[:300], ex), {"tree": at, "fn": fn_name})
                continue
            kept_wide.append(s_)
            if any(l.op == "BVV" and l.args[0] >= (1 << 64) and l.args[0] not in consts_in for l in s_.leaf_asts()):
                fresh_wide += 1
                ctx.distinct(a.hash())
            if type(s_) is not type(a) or getattr(s_, "length", None) != getattr(a, "length", None):
                ctx.violation("C09/%s/sort-changed/wide" % fn_name, "%s(%s) = %r: a %s of length %r became a %s of length %r (simplification #%d of this run)" % (
                    fn_name, E.sexpr(at)[:300], s_, type(a).__name__, getattr(a, "length", None), type(s_).__name__, getattr(s_, "length", None), len(kept_wide)),
                    {"tree": at, "fn": fn_name})
                break
            st = E.from_ast(s_)

            def ev_(t_, vx, vy):
                try:
                    return E.ev(t_, {"wx": vx, "wy": vy})
                except E.Unsupported as ex_:
                    return ("ill-typed", str(ex_))
            bad = next(((vx, vy) for vx in range(8) for vy in range(8) if ev_(at, vx, vy) != ev_(st, vx, vy)), None)
            if bad is not None:
                ctx.violation("C09/%s/not-equivalent/wide" % fn_name, "%s(%s) = %s differs at wx=%d wy=%d (simplification #%d of this run)" % (
                    fn_name, E.sexpr(at)[:300], E.sexpr(st)[:300], bad[0], bad[1], len(kept_wide)), {"tree": at, "fn": fn_name, "env": {"wx": bad[0], "wy": bad[1]}})
                break
        if len(kept_wide) > 3000:
            del kept_wide[:1500]
    dist["W.wide_constants"] = nwide
    # directed: an unsatisfiable group next to a constraint simplification must keep, simplified, then an independent group, simplified
    # again (the composite forgot the variable-free False its child had left behind; found by this very stage under another seed)
    SAA_ = claripy.annotation.SimplificationAvoidanceAnnotation
    dx, dy = claripy.BVS("mx", 3, explicit_name=True), claripy.BVS("my", 3, explicit_name=True)
    for first, second in (([claripy.ULT(dx, 0), claripy.UGE(dx, 1).annotate(SAA_())], [claripy.UGT(dy, 1)]),
                          ([claripy.ULT(dx, 2), claripy.UGT(dx, 5).annotate(SAA_()), dx == 3], [(dy & 1) == 0]),
                          ([dx != dx, claripy.ULT(dy, 4).annotate(SAA_())], [claripy.UGE(dx, 1)]),
                          ([claripy.And(dx > 1, dx < 1), dy == 2], [claripy.ULT(dx, 7).annotate(SAA_())])):
        for cls in (claripy.Solver, claripy.SolverCacheless, claripy.SolverComposite, claripy.SolverHybrid, claripy.SolverReplacement):
            ctx.count()
            s = cls()
            try:
                s.add(first); s.simplify(); s.add(second); s.simplify()
                if cls is not claripy.SolverReplacement:
                    s.simplify()
            except claripy.errors.ClaripyError as ex:
                ctx.violation("C09/%s.simplify/raises" % cls.__name__, "%s.simplify() raised %r on %s + %s" % (cls.__name__, ex, first, second), {"constraints": [repr(c) for c in first + second]})
                continue
            allc = first + second
            before = {(a, b) for a in range(8) for b in range(8) if all(E.ev(E.from_ast(c), {"mx": a, "my": b})[1] for c in allc)}
            after = {(a, b) for a in range(8) for b in range(8) if all(E.ev(E.from_ast(c), {"mx": a, "my": b})[1] for c in s.constraints)}
            if before != after:
                ctx.violation("C09/%s.simplify/model-set-changed" % cls.__name__, "%s: add %s, simplify(), add %s, simplify(): the constraint set %s has other models: lost %s gained %s" % (
                    cls.__name__, first, second, s.constraints, sorted(before - after)[:4], sorted(after - before)[:4]), {"solver": cls.__name__, "constraints": [repr(c) for c in allc]})
    # Solver.simplify keeps the model set
    for it in range(ctx.pick(60, 800)):
        w = 3
        x, y = claripy.BVS("mx", w, explicit_name=True), claripy.BVS("my", w, explicit_name=True)
        atoms = [claripy.ULT(x, rng.randrange(8)), x + y == rng.randrange(8), claripy.Or(x == 1, y == 2), x != y, claripy.SLE(x, y), (x & y) == 0,
                 claripy.And(x > 1, x < 6), claripy.Not(x == y), x * 2 == y, claripy.If(x > y, x, y) == 5]
        # two-sided bounds on a bare variable, signed and unsigned, as separate constraints and as one conjunction (range-driven
        # tactics narrow such variables; the result must still speak about the same variable)
        lo_, hi_ = sorted(rng.sample(range(-4, 4), 2))
        atoms += [claripy.SGE(x, claripy.BVV(lo_ % 8, w)), claripy.SLE(x, claripy.BVV(hi_ % 8, w)), claripy.And(claripy.SGE(y, claripy.BVV(lo_ % 8, w)), claripy.SLE(y, claripy.BVV(hi_ % 8, w))),
                  claripy.UGE(x, rng.randrange(4)), claripy.ULE(x, rng.randrange(4, 8)),
                  # constraints over y alone: with the x-only ones above they form independent groups (separate children of a composite)
                  claripy.ULT(y, rng.randrange(1, 8)), y != rng.randrange(8), (y & 1) == 0, claripy.UGT(y, rng.randrange(0, 6))]
        # tautologies only Z3 recognises (the rest of the set may collapse to `true`), and constraints that simplification must keep as they are
        tauts = [claripy.UGE(x | 4, 4), claripy.Or(claripy.ULT(x, 5), claripy.UGE(x, 5)), (x ^ y) == (y ^ x), claripy.ULE(x & y, x), (x + y) - y == x]
        cons = rng.sample(atoms, rng.choice([0, 1, 2, 3, 4, 5])) + rng.sample(tauts, rng.choice([0, 0, 1, 2]))
        if not cons:
            cons = [rng.choice(atoms)]
        if rng.random() < 0.5:
            k_ = rng.randrange(len(cons))
            cons[k_] = cons[k_].annotate(claripy.annotation.SimplificationAvoidanceAnnotation())
        rng.shuffle(cons)
        for cls in (claripy.Solver, claripy.SolverCacheless, claripy.SolverComposite, claripy.SolverHybrid, claripy.SolverReplacement):
            ctx.count()
            s = cls()
            # in two instalments, simplified after each (the second simplification meets constraints that are already simplified);
            # `before` is always the model set of EVERYTHING added so far
            cut = rng.randrange(len(cons) + 1) if rng.random() < 0.6 else len(cons)
            if rng.random() < 0.3:
                # independent groups arriving one after the other
                xs_ = [c for c in cons if c.variables == frozenset(["mx"])]
                ys_ = [c for c in cons if c.variables == frozenset(["my"])]
                if xs_ and ys_:
                    cons = xs_ + ys_
                    cut = len(xs_)
            try:
                if cut < len(cons) and cut > 0:
                    s.add(cons[:cut])
                    s.simplify()
                    s.add(cons[cut:])
                else:
                    s.add(cons)
                before = {(a, b) for a in range(8) for b in range(8) if all(E.ev(E.from_ast(c), {"mx": a, "my": b})[1] for c in cons)}
                s.simplify()
            except claripy.errors.ClaripyError as ex:
                ctx.violation("C09/%s.simplify/raises" % cls.__name__, "%s.simplify() raised %r on %s" % (cls.__name__, ex, cons), {"constraints": [repr(c) for c in cons]})
                continue
            foreign = set().union(*[set(c.variables) for c in s.constraints] or [set()]) - {"mx", "my"}
            if foreign:
                ctx.violation("C09/%s.simplify/introduces-variables" % cls.__name__, "%s.simplify() of %s speaks about variables the constraints never had: %s" % (
                    cls.__name__, cons, sorted(foreign)), {"solver": cls.__name__, "constraints": [repr(c) for c in cons]})
                continue
            after = {(a, b) for a in range(8) for b in range(8) if all(E.ev(E.from_ast(c), {"mx": a, "my": b})[1] for c in s.constraints)}
            if before != after:
                ctx.violation("C09/%s.simplify/model-set-changed" % cls.__name__, "%s.simplify() changed the models of %s: lost %s gained %s" % (
                    cls.__name__, cons, sorted(before - after)[:4], sorted(after - before)[:4]), {"solver": cls.__name__, "constraints": [repr(c) for c in cons]})
    # Solver.simplify over constraints that contain extension idioms (copies of one bit of x in front of a slice of x, compared with a
    # constant or with y), next to ordinary constraints, in one or two instalments: the model set stays (brute force over 64 assignments)
    for it in range(ctx.pick(60, 800)):
        bad = solver_idiom_check(solver_idiom_spec(irng))
        ctx.count(5)
        if bad:
            ctx.violation("C09/%s.simplify/%s/extension-idiom" % (bad[0], bad[1]), bad[2], {"solver_idiom": bad[3]})
    ctx.cov["traces_validated_against_impl"] = sum(dist.values())
    ctx.cov["input_distribution"] = {"templates": dict(dist), "z3_kinds_seen_after_simplify": dict(kinds_seen),
                                     "roundtrip_identical_objects": identical, "fp_constants_round_tripped": nconst, "wide_expressions": nwide,
                                     "wide_results_with_a_new_wide_constant": fresh_wide}
    ctx.sample({"z3_kinds_seen": sorted(kinds_seen)[:20]})


def replay(ctx, obj):
    r = obj["replay"]

    def tup(t):
        return tuple(tup(x) if isinstance(x, list) else x for x in t)
    if "solver_idiom" in r:
        bad = solver_idiom_check(r["solver_idiom"])
        print(bad[2] if bad else "Solver.simplify keeps the model set on the current tree")
        if bad:
            print("VIOLATION property=C09 replay=(given)"); return 1
        return 0
    if "idiom" in r:
        bad = ext_idiom_check(tup(r["idiom"]), ctx.rng)
        print(E.sexpr(tup(r["idiom"])), "->", bad or "round trip and simplifications equivalent on the current tree")
        if bad:
            print("VIOLATION property=C09 replay=(given)"); return 1
        return 0
    if "tree" in r:
        t = tup(r["tree"]); a = E.build(t)
        fn = claripy.simplify if r.get("fn") != "backends.z3.simplify" else claripy.backends.z3.simplify
        try:
            s = fn(a)
        except claripy.errors.ClaripyError as ex:
            print("raised", repr(ex)); print("VIOLATION property=C09 replay=(given)"); return 1
        bad, n = X.semantic_check(t, E.from_ast(s), ctx.rng)
        print(a, "->", s, "difference:", bad)
        if bad:
            print("VIOLATION property=C09 replay=(given)"); return 1
        return 0
    print(r); return 1
