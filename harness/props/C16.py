"""C16 — unsat cores of tracked solvers: flat, made of constraints of the solver, unsatisfiable; empty when sat.
Same machinery as C11 (model, recorder, driver); histories are tracked, add-heavy and ask for cores."""
import os, re

from lib.common import LEAN, write_if_changed
from lib import solvercheck as SC, solverlib as L, corefam
import translate_solver as ts

THEOREMS = ["Claripy.Props.C16.C16_mro_solver", "Claripy.Props.C16.C16_core_ids", "Claripy.Props.C16.C16_core_after_check"]
A = lambda c, s=0: {"s": s, "op": "add", "cs": [c]}  # noqa: E731
CORE = lambda s=0, ex=(): {"s": s, "op": "unsat_core", "extra": list(ex)}  # noqa: E731
SAT = lambda s=0: {"s": s, "op": "satisfiable", "extra": []}  # noqa: E731
RULES = {
    "cheap-pairwise-path": [A("x == 5"), A("x != 5"), CORE()],
    "z3-path": [A("ULT(x, 3)"), A("ZeroExt(1, y) == x + 1"), A("SLT(y, 0)"), CORE()],
    "sat-is-empty": [A("ULT(x, 3)"), CORE(), A("SLT(y, 0)"), CORE()],
    "after-cached-unsat": [A("ULT(x, 3)"), A("ZeroExt(1, y) == x + 1"), A("SLT(y, 0)"), {"s": 0, "op": "satisfiable", "extra": []}, CORE(), CORE()],
    "branch-then-add": [A("ULT(x, 3)"), A("ZeroExt(1, y) == x + 1"), {"s": 0, "op": "satisfiable", "extra": []}, {"s": 0, "op": "branch"},
                        A("SLT(y, 0)", 1), CORE(1), CORE(0)],
    "unsat-then-branch": [A("ULT(x, 3)"), A("ZeroExt(1, y) == x + 1"), A("SLT(y, 0)"), {"s": 0, "op": "satisfiable", "extra": []},
                          {"s": 0, "op": "branch"}, A("b", 1), CORE(1)],
    "false-tracked": [A("ULT(x, 3)"), A("false"), CORE(), {"s": 0, "op": "branch"}, A("b", 1), CORE(1)],
    "after-simplify-and-expansion": [A("Or(x == 1, x == 2)"), {"s": 0, "op": "max", "e": "x", "signed": False, "extra": []},
                                     A("UGE(x, 2)"), A("x != 2"), CORE(), {"s": 0, "op": "simplify"}, CORE()],
    "downsize": [A("ULT(x, 3)"), A("UGE(x, 8)"), {"s": 0, "op": "downsize"}, CORE()],
    # what-if cores (extra constraints): the solver's own constraints have no model (a conflict only Z3 sees) and hold an unrelated
    # constraint; the core asked for under an extra constraint may blame that one - the core of the solver itself may not
    "whatif-core-then-own-core": [A("UGT(z, y)"), A("ULT(z, y)"), A("UGE(x, 8)"), SAT(), CORE(0, ["ULT(x, 3)"]), CORE(), {"s": 0, "op": "branch"},
                                  CORE(1), CORE(0, ["x == 5"]), CORE()],
    "whatif-core-unchecked": [A("x * x == 3"), A("SLT(y, 0)"), CORE(0, ["y == 2"]), CORE(), CORE(0, ["false"]), CORE()],
    "whatif-core-on-sat": [A("UGE(x, 8)"), A("SLT(y, 0)"), CORE(0, ["ULT(x, 3)"]), CORE(), SAT(), CORE(0, ["y == 2", "b"]), CORE(), A("ULT(x, 3)"),
                           CORE(0, ["y == 2"]), CORE()],
}
# histories the model does not take (annotated constraints: it has no notion of an AST and its un-annotated twin; classes other
# than Solver): judged by the oracle only
ORACLE_RULES = {
    # the cheap pairwise path of SatCacheMixin compares the constraints WITHOUT their annotations; what it reports must be the
    # constraints that were added, annotations and all
    "annotated-cheap-path": [A("x == 1"), A("Ann(x == 2, 7)"), CORE(), {"s": 0, "op": "branch"}, CORE(1)],
    "annotated-cheap-path-both": [A("Ann(y == 6, 1)"), A("SLT(x, 2)"), A("Ann(y != 6, 2)"), CORE(), A("b"), CORE()],
    "annotated-z3-path": [A("Ann(UGE(x, 8), 1)"), A("ZeroExt(1, y) == x + 1"), A("Ann(ULT(x, 3), 2)"), CORE(), SAT(), CORE()],
    "annotated-variable": [A("xa == 5"), A("x == 5"), A("xa != 5"), CORE(), A("x != 5"), CORE()],
    "annotated-then-simplify": [A("Ann(Or(x == 1, x == 2), 3)"), A("Ann(UGE(x, 8), 1)"), CORE(), {"s": 0, "op": "simplify"}, CORE()],
    # the same formula held by two solvers with different annotations: the backend abstracts Z3's core through an AST cache keyed
    # by the formula and shared by all solvers - each solver must get its OWN constraint back (found at the thorough tier)
    "same-formula-other-annotations": [A("y == 5"), A("Ann(Not(y == 5), 3)"), {"s": 0, "op": "branch"}, A("Ann(y == 5, 1)"), SAT(1), SAT(0),
                                       CORE(1), CORE(0)],
    "same-formula-other-annotations-z3": [A("ULT(x, 3)"), A("ZeroExt(1, y) == x + 1"), {"s": 0, "op": "branch"}, A("Ann(ULT(x, 3), 2)"),
                                          A("SLT(y, 0)"), A("SLT(y, 0)", 1), SAT(1), SAT(0), CORE(1), CORE(0), CORE(1)],
    # a what-if core whose extra constraint CONNECTS two children of a composite, neither of which is unsatisfiable with it alone
    # (found at the thorough tier once branches and spanning extras were generated)
    "whatif-core-connects-two-children": [A("y == 6"), A("SLE(x, 2)"), CORE(0, ["ZeroExt(1, y) == x + 1"]), CORE(), {"s": 0, "op": "branch"},
                                          A("ULT(z, 2)", 1), CORE(1, ["ZeroExt(1, y) == x + 1"]), CORE(1, ["z == y"]), CORE(1)],
    # a concretely false constraint is held by no child of a composite: it is the core
    "concrete-false": [A("ULT(x, 3)"), A("false"), CORE(), SAT(), CORE(), {"s": 0, "op": "branch"}, A("b", 1), CORE(1)],
    "concrete-false-first": [A("x != x"), CORE(), A("y == 6"), CORE(), CORE(0, ["b"])],
    "concrete-false-in-one-add": [{"s": 0, "op": "add", "cs": ["y == 6", "BVV(3, 4) == BVV(4, 4)", "ULT(z, 2)"]}, CORE(), {"s": 0, "op": "simplify"}, CORE()],
    # a question spanning two independent constraint sets (whoever combines what it holds about x and about y may remember the
    # combination), branch twice, two of the solvers each add a constraint over exactly {x, y} - each satisfiable on its own
    "spanning-question-then-two-branches-add": [A("ULT(x, 3)"), A("SLT(y, 0)"), {"s": 0, "op": "eval", "e": "x + ZeroExt(1, y)", "n": 1, "extra": []},
                                                {"s": 0, "op": "branch"}, {"s": 0, "op": "branch"}, A("x + ZeroExt(1, y) == 9", 1),
                                                A("x + ZeroExt(1, y) == 4", 2), CORE(2), CORE(1), CORE(0), SAT(2), SAT(1)],
    # thread hand-off (the calls run strictly one after the other): after a branch the parent is asked, grows and is asked again
    # in a WORKER thread; back in the main thread it gets a constraint that contradicts what parent and child share
    "parent-used-by-worker-after-branch": [A("ULE(x, 11)"), SAT(), {"s": 0, "op": "branch"}, dict(SAT(), t=1), dict(A("SLT(y, 0)"), t=1), dict(SAT(), t=1),
                                           A("UGE(x, 12)"), CORE(0), CORE(1), A("x == 9", 1), CORE(1)],
    "child-used-by-worker-after-branch": [A("ULE(x, 11)"), SAT(), {"s": 0, "op": "branch"}, A("ULT(z, 2)", 1), dict(SAT(1), t=1), dict(A("UGE(x, 12)", 1), t=1),
                                          dict(CORE(1), t=1), CORE(1), CORE(0), A("x == 9", 0), CORE(0)],
    "two-unsat-children": [A("ULT(x, 3)"), A("UGE(x, 8)"), A("y == 6"), A("y * y == 3"), A("ULT(z, 2)"), CORE(), SAT(), CORE(0, ["z == 5"]), CORE()],
}
ORACLE_CLASSES = ["Solver", "SolverComposite", "SolverCacheless", "SolverHybrid"]
WEIGHTS = {"add": 40, "satisfiable": 8, "eval": 8, "min": 4, "max": 4, "solution": 4, "simplify": 4, "downsize": 2,
           "branch": 6, "batch_eval": 2, "unsat_core": 14}


def jobs_for(ctx, mult=1):
    jobs = []
    for name, h in RULES.items():
        for reuse in (False, True):
            jobs.append({"cls": "Solver", "cfg": {"track": True, "reuse": reuse}, "hist": h})
    n = ctx.pick(110, 900) * mult
    lens = ctx.pick([6, 12, 20], [12, 30, 60])
    for i in range(n):
        # every other history: a third of the unsat_core() calls are what-if cores (extra constraints)
        jobs.append({"cls": "Solver", "cfg": {"track": True, "reuse": i % 4 == 0}, "len": lens[i % len(lens)],
                     "gen": dict({"weights": WEIGHTS}, **({"core_extra": 0.35, "contra": 0.15} if i % 2 else {}))})
    # the solver's own constraints unsatisfiable (solver-only conflict) + a harmless constraint; a question; a what-if core that
    # may blame the extras, then the solver's own core (again / on a branch); random tail
    for i in range(ctx.pick(40, 300) * mult):
        jobs.append({"cls": "Solver", "cfg": {"track": True, "reuse": i % 4 == 0}, "len": ctx.pick(3, 10),
                     "gen": {"shape": "core-whatif", "weights": WEIGHTS, "core_extra": 0.35}})
    return jobs


def oracle_jobs(ctx, mult=1):
    """annotated constraints, what-if cores and concretely false constraints on every tracked class (no model correspondence)"""
    jobs = []
    for cls in ORACLE_CLASSES:
        hyb = cls == "SolverHybrid"       # its VSA half accepts only the annotations it knows
        kinds = (0,) if hyb else (1, 2, 3, 0)
        for name, h in list(ORACLE_RULES.items()) + [(k, v) for k, v in RULES.items() if cls != "Solver"]:
            if hyb and any("Ann(" in c and not c.endswith(", 0)") for d in h for c in d.get("cs", [])):
                h = [dict(d, cs=[re.sub(r", \d\)$", ", 0)", c) if c.startswith("Ann(") else c for c in d["cs"]]) if "cs" in d else d for d in h]
            jobs.append({"cls": cls, "cfg": {"track": True, "reuse": False}, "hist": h})
        lens = ctx.pick([6, 12, 20], [12, 30, 60])
        calpha = L.CONSTRAINTS + ["false", "x != x", "xa == 5", "xs != 5"]
        for i in range(ctx.pick(36, 300) * mult):
            gen = {"weights": WEIGHTS, "calpha": calpha, "core_extra": 0.3, "contra": 0.2, "annotate": 0.4 if i % 3 else 0.0, "ann_kinds": kinds}
            if i % 3 == 0:
                jobs.append({"cls": cls, "cfg": {"track": True, "reuse": i % 4 == 0}, "len": lens[i % len(lens)], "gen": gen})
            else:
                jobs.append({"cls": cls, "cfg": {"track": True, "reuse": i % 4 == 0}, "len": ctx.pick(3, 10),
                             "gen": dict(gen, shape="annotated-core" if i % 3 == 1 else "core-whatif")})
        # (a) two variables with range constraints of their own, ONE question spanning exactly both, branch (twice), one or two of the
        # solvers add a constraint over exactly both, every solver is asked for its core and about expressions over both;
        # (b) thread hand-off: after a branch one side is used by a worker thread in between (ask, add, ask), gets a contradicting
        # constraint in the main thread, cores of both sides; random tails
        for i in range(ctx.pick(12, 80) * mult):
            jobs.append({"cls": cls, "cfg": {"track": True, "reuse": i % 4 == 0}, "len": ctx.pick(3, 10),
                         "gen": {"shape": "span-then-branch", "prefix_args": {"core": True}, "weights": WEIGHTS, "core_extra": 0.3}})
        for i in range(ctx.pick(12, 80) * mult):
            jobs.append({"cls": cls, "cfg": {"track": True, "reuse": False}, "len": ctx.pick(3, 10),
                         "gen": {"shape": "worker-between", "prefix_args": {"core": True}, "weights": WEIGHTS, "threads": 1}})
    return jobs


def run(ctx):
    ctx._chunk_base = 0
    ctx.cov["trusted_base"] += [
        "L0 core contract (hypothesis CoreExact): after an `unsat` answer Z3's unsat_core() lists tracking names whose assertions, "
        "together with the assumptions, are unsatisfiable — validated by brute force on every recorded check",
        "OracleExact, BuildExact, SimplifyEquiv, CheapSound as for C11; recorder harness/lib/solverrec.py; MRO translator",
    ]
    ctx.cov["rule"] = ("tracked Solver objects (track=True, reuse_z3_solver on/off), add-heavy histories with unsat_core() calls in between and "
                       "after branches, a third of them what-if cores (extra constraints, mostly contradicting a held constraint); rule-directed: "
                       "cheap pairwise path, Z3 path, cached verdict, branch then add, tracked false, after simplify/expansion, downsize, what-if core "
                       "then the solver's own core; directed openings: own constraints unsatisfiable by a solver-only conflict + harmless "
                       "constraint, question, what-if core blaming the extras, own core (again, on a branch); oracle-only stream on Solver, "
                       "SolverComposite, SolverCacheless, SolverHybrid: constraints carrying annotations (Bool-level Origin / Uninitialized, annotated "
                       "variables), syntactic contradictions among them, concretely false constraints, openings `question spanning two independent "
                       "variables, branches, two solvers add over exactly both` and `one side of a branch used by a worker thread in between`; "
                       "core elements compared by AST identity; same-shape families: one 8/16-bit variable, 3..8 "
                       "constraints `(x + a) OP c` differing in the constant only (dense constants; pairs whose Z3 formulas have the same 32-bit AST hash "
                       "searched for and placed side by side, the earlier one outside every conflict), Solver / SolverCacheless / SolverComposite, judged "
                       "over all 2^w values; "
                       "non-trivial = history with >= 3 calls")
    tie_ok = True
    try:
        write_if_changed(os.path.join(LEAN, "Claripy", "Gen", "SolverMro.lean"), ts.render(ts.translate()))
    except ts.TranslateError as e:
        tie_ok = False
        ctx.tie_broken("translate:solvers.py/__mro__", str(e))
    if tie_ok:
        ctx.prove("ClaripyProofs.Props.C16", THEOREMS, driver_exe="driver_solver")
    else:
        ctx.cov["obligations"] += len(THEOREMS)
        ctx.lake_build(["driver_solver"])
    workers = ctx.pick(4, 6)
    m = SC.run_jobs(ctx, jobs_for(ctx), workers, corr=True, chunk_size=ctx.pick(12, 25))
    SC.merge_cov(ctx, m, "tracked-histories")
    ctx.cov["input_distribution"]["tracked-histories"]["unsat_core_calls"] = m["opdist"].get("unsat_core", 0)
    fails = [f for f in m["fails"]]
    mo = SC.run_jobs(ctx, oracle_jobs(ctx), workers, corr=False, chunk_size=ctx.pick(12, 25))
    SC.merge_cov(ctx, mo, "tracked-histories(oracle only: annotated constraints, all classes)")
    ctx.cov["input_distribution"]["tracked-histories(oracle only: annotated constraints, all classes)"]["unsat_core_calls"] = mo["opdist"].get("unsat_core", 0)
    fails += mo["fails"]
    # same-shape families (own alphabet: one 8/16-bit variable, `(x + a) OP c` for many c, look-alikes for Z3's AST hash side by side)
    # more tracked constraints than the Z3 backend's AST cache holds (a private backend with a cache of 64 entries; the global one
    # holds 10000): the cache must own a reference to the ASTs of tracked constraints, or eviction frees them while in use
    # (Z3Exception 'invalid argument' on the next add of such a constraint; found by the same-shape-families stage at the thorough tier)
    bad_cache = tracked_beyond_cache()
    ctx.count(600)
    if bad_cache:
        ctx.violation("C16/SolverCacheless/unsat_core/crash:tracked-constraints-beyond-ast-cache", bad_cache, {"beyond_cache": True})
    fam, fstats = corefam.stage(ctx, ctx.pick(150, 1500), ctx.pick(4096, 16384))
    ctx.cov["input_distribution"]["same-shape-families"] = fstats
    for case, kind, why in fam[:3]:
        ctx.violation("C16/%s/unsat_core/%s:%s" % (case["cls"], kind, corefam.SIG), why, {"family": case})
    if m["driver_error"]:
        ctx.tie_broken("driver", m["driver_error"])
    for mm in m["mismatch"][:3]:
        ctx.tie_broken("corr:%s.%s" % (mm["cls"], mm["op"].get("op", "?")),
                       "%s differs after %s (%s); model=%s real=%s" % ("/".join(mm["differs"]), mm["op"], mm["cfg"], mm["model"][:400], mm["real"][:400]))
    if ctx.broken and not fails:
        m2 = SC.run_jobs(ctx, jobs_for(ctx, mult=3) + oracle_jobs(ctx, mult=2), workers, corr=False, chunk_size=40)
        SC.merge_cov(ctx, m2, "failing-input-search")
        fails += m2["fails"]
    # only core failures belong to this property; answers of other calls are C11's business but a wrong one is reported there
    SC.report_failures(ctx, "C16", [f for f in fails if any(h["op"] == "unsat_core" for h in [f["hist"][f["fails"][0][0]]])])
    other = [f for f in fails if f["hist"][f["fails"][0][0]]["op"] != "unsat_core"]
    if other:
        ctx.notes.append("%d non-core answers failed the C11 oracle during this run (see ./check C11)" % len(other))
        SC.report_failures(ctx, "C16", other[:1])


_BEYOND = r"""
import claripy, sys
from claripy.backends.backend_z3 import BackendZ3
b = BackendZ3(ast_cache_size=64)
x = claripy.BVS("c16_cache_x", 16, explicit_name=True)
cons = [claripy.UGT(x, i + 7) for i in range(300)]
low = claripy.ULT(x, 5)
for rnd in range(2):
    for c in cons:
        try:
            t = claripy.SolverCacheless(backend=b, track=True)
            t.add(c); t.add(low)
            if t.satisfiable():
                print("BAD %s and %s reported satisfiable" % (c, low)); sys.exit(0)
            core = tuple(t.unsat_core())
        except Exception as e:
            print("BAD round %d, constraint %s: %s: %s" % (rnd, c, type(e).__name__, str(e)[:120])); sys.exit(0)
        if {k.hash() for k in core} != {c.hash(), low.hash()}:
            print("BAD round %d: core of [%s, %s] is %s" % (rnd, c, low, [str(k) for k in core])); sys.exit(0)
print("GOOD")
"""


def tracked_beyond_cache():
    """-> None | text: 300 tracked look-alike constraints, each in its own solver together with a contradiction, twice over, through
    a private Z3 backend whose AST cache holds 64 entries; every unsat_core() must consist of exactly the two constraints.  Run in
    a child interpreter: a freed Z3 AST can also take the process down."""
    import subprocess, sys
    try:
        r = subprocess.run([sys.executable, "-c", _BEYOND], capture_output=True, text=True, timeout=300)
    except subprocess.TimeoutExpired:
        return "the child interpreter did not finish within 300 s"
    out = [l for l in r.stdout.splitlines() if l.startswith(("BAD", "GOOD"))]
    if r.returncode != 0 or not out:
        return "the child interpreter died (exit status %s) %s" % (r.returncode, (r.stderr or "").strip().splitlines()[-1:] or "")
    return None if out[-1] == "GOOD" else out[-1][4:]


def replay(ctx, obj):
    if "family" in obj["replay"]:
        return corefam.replay(obj)
    if obj["replay"].get("beyond_cache"):
        bad = tracked_beyond_cache()
        print(bad or "no failure on the current tree")
        if bad:
            print("VIOLATION property=C16 replay=(given)")
        return 1 if bad else 0
    return SC.replay_history("C16", obj)
