"""C16 — unsat cores of tracked solvers: flat, made of constraints of the solver, unsatisfiable; empty when sat.
Same machinery as C11 (model, recorder, driver); histories are tracked, add-heavy and ask for cores."""
import os

from lib.common import LEAN, write_if_changed
from lib import solvercheck as SC
import translate_solver as ts

THEOREMS = ["Claripy.Props.C16.C16_mro_solver", "Claripy.Props.C16.C16_core_ids", "Claripy.Props.C16.C16_core_after_check"]
A = lambda c, s=0: {"s": s, "op": "add", "cs": [c]}  # noqa: E731
CORE = lambda s=0: {"s": s, "op": "unsat_core", "extra": []}  # noqa: E731
RULES = {
    "cheap-pairwise-path": [A("x == 5"), A("x != 5"), CORE()],
    "z3-path": [A("ULT(x, 3)"), A("ZeroExt(1, y) == x + 1"), A("SLT(y, 0)"), CORE()],
    "sat-is-empty": [A("ULT(x, 3)"), CORE(), A("SLT(y, 0)"), CORE()],
    "after-cached-unsat": [A("ULT(x, 3)"), A("ZeroExt(1, y) == x + 1"), A("SLT(y, 0)"), {"s": 0, "op": "satisfiable", "extra": []}, CORE(), CORE()],
    "branch-then-add": [A("ULT(x, 3)"), A("ZeroExt(1, y) == x + 1"), {"s": 0, "op": "satisfiable", "extra": []}, {"s": 0, "op": "branch"},
                        A("SLT(y, 0)", 1), CORE(1), CORE(0)],
    "unsat-then-branch": [A("ULT(x, 3)"), A("ZeroExt(1, y) == x + 1"), A("SLT(y, 0)"), {"s": 0, "op": "satisfiable", "extra": []},
                          {"s": 0, "op": "branch"}, A("b", 1), CORE(1)],
    "false-tracked": [A("ULT(x, 3)"), A("false"), CORE(), {"s": 0, "op": "branch"}, A("b", 1), CORE(1)],
    "after-simplify-and-expansion": [A("Or(x == 1, x == 2)"), {"s": 0, "op": "max", "e": "x", "signed": False, "extra": []},
                                     A("UGE(x, 2)"), A("x != 2"), CORE(), {"s": 0, "op": "simplify"}, CORE()],
    "downsize": [A("ULT(x, 3)"), A("UGE(x, 8)"), {"s": 0, "op": "downsize"}, CORE()],
}
WEIGHTS = {"add": 40, "satisfiable": 8, "eval": 8, "min": 4, "max": 4, "solution": 4, "simplify": 4, "downsize": 2,
           "branch": 6, "batch_eval": 2, "unsat_core": 14}


def jobs_for(ctx, mult=1):
    jobs = []
    for name, h in RULES.items():
        for reuse in (False, True):
            jobs.append({"cls": "Solver", "cfg": {"track": True, "reuse": reuse}, "hist": h})
    n = ctx.pick(110, 900) * mult
    lens = ctx.pick([6, 12, 20], [12, 30, 60])
    for i in range(n):
        jobs.append({"cls": "Solver", "cfg": {"track": True, "reuse": i % 4 == 0}, "len": lens[i % len(lens)],
                     "gen": {"weights": WEIGHTS}})
    return jobs


def run(ctx):
    ctx._chunk_base = 0
    ctx.cov["trusted_base"] += [
        "L0 core contract (hypothesis CoreExact): after an `unsat` answer Z3's unsat_core() lists tracking names whose assertions, "
        "together with the assumptions, are unsatisfiable — validated by brute force on every recorded check",
        "OracleExact, BuildExact, SimplifyEquiv, CheapSound as for C11; recorder harness/lib/solverrec.py; MRO translator",
    ]
    ctx.cov["rule"] = ("tracked Solver objects (track=True, reuse_z3_solver on/off), add-heavy histories with unsat_core() calls in between and "
                       "after branches; rule-directed: cheap pairwise path, Z3 path, cached verdict, branch then add, tracked false, after "
                       "simplify/expansion, downsize; non-trivial = history with >= 3 calls")
    tie_ok = True
    try:
        write_if_changed(os.path.join(LEAN, "Claripy", "Gen", "SolverMro.lean"), ts.render(ts.translate()))
    except ts.TranslateError as e:
        tie_ok = False
        ctx.tie_broken("translate:solvers.py/__mro__", str(e))
    if tie_ok:
        ctx.prove("ClaripyProofs.Props.C16", THEOREMS, driver_exe="driver_solver")
    else:
        ctx.cov["obligations"] += len(THEOREMS)
        ctx.lake_build(["driver_solver"])
    workers = ctx.pick(4, 6)
    m = SC.run_jobs(ctx, jobs_for(ctx), workers, corr=True, chunk_size=ctx.pick(12, 25))
    SC.merge_cov(ctx, m, "tracked-histories")
    ctx.cov["input_distribution"]["tracked-histories"]["unsat_core_calls"] = m["opdist"].get("unsat_core", 0)
    fails = [f for f in m["fails"]]
    if m["driver_error"]:
        ctx.tie_broken("driver", m["driver_error"])
    for mm in m["mismatch"][:3]:
        ctx.tie_broken("corr:%s.%s" % (mm["cls"], mm["op"].get("op", "?")),
                       "%s differs after %s (%s); model=%s real=%s" % ("/".join(mm["differs"]), mm["op"], mm["cfg"], mm["model"][:400], mm["real"][:400]))
    if ctx.broken and not fails:
        m2 = SC.run_jobs(ctx, jobs_for(ctx, mult=3), workers, corr=False, chunk_size=40)
        SC.merge_cov(ctx, m2, "failing-input-search")
        fails += m2["fails"]
    # only core failures belong to this property; answers of other calls are C11's business but a wrong one is reported there
    SC.report_failures(ctx, "C16", [f for f in fails if any(h["op"] == "unsat_core" for h in [f["hist"][f["fails"][0][0]]])])
    other = [f for f in fails if f["hist"][f["fails"][0][0]]["op"] != "unsat_core"]
    if other:
        ctx.notes.append("%d non-core answers failed the C11 oracle during this run (see ./check C11)" % len(other))
        SC.report_failures(ctx, "C16", other[:1])


def replay(ctx, obj):
    return SC.replay_history("C16", obj)
