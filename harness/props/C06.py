"""C06 — structurally equal expressions are one object; different ones never merge.

prove:       ClaripyProofs.Props.C06 (int encoding injective for every int; weak-table invariant over any history with
             arbitrary collections; Python int-hash collision theorems = why annotation keys can merge)
correspond:  `_arg_serialize(int)` vs Lean intBytes, `hash(int)` vs Lean pyHashInt, `_ast_serialize` of real nodes vs Lean
             astSerialize (byte for byte)
oracle:      identity vs deep structure over pools of live ASTs: same tree built twice -> same object; two different
             objects never share a deep structural key; an annotation requested is the annotation carried (==), also for
             annotation objects with colliding hashes (built-in classes and a user class)
"""
import collections, gc, math, os, pickle, struct, subprocess, sys

import claripy
from claripy.ast.base import Base

from lib import exprs as E, exprgen as G, exprcheck as X

THEOREMS = ["Claripy.Props.C06.C06_int_roundtrip", "Claripy.Props.C06.C06_intBytes_injective",
            "Claripy.Props.C06.C06_pyhash_collision_neg1_neg2", "Claripy.Props.C06.C06_pyhash_collision_modulus",
            "Claripy.Props.C06.C06_table_key", "Claripy.Props.C06.C06_never_merges", "Claripy.Props.C06.C06_same_object",
            "Claripy.Props.C06.C06_collision_merges", "Claripy.Props.C06.run_keyOK", "Claripy.Props.C06.C06_floatBytes_injective", "Claripy.Props.C06.C06_int_not_sentinel"]

M61 = (1 << 61) - 1


from lib.c06_shared import UA, UR, anno_pool, build_all  # noqa: E402


def anno_desc(an):
    d = (type(an).__name__, tuple(sorted((k, repr(v)) for k, v in vars(an).items())))
    if type(an).__eq__ is object.__eq__:
        # no value equality (e.g. SimplificationAvoidanceAnnotation()): every instance is its own annotation
        d += (id(an),)
    return d


def skey(a, memo):
    """deep structural key of an AST (op, args recursively, annotation contents, length)"""
    i = id(a)
    if i in memo:
        return memo[i]
    parts = []
    for x in a.args:
        if isinstance(x, Base):
            parts.append(skey(x, memo))
        elif isinstance(x, float):
            parts.append(("f", repr(x)))
        elif isinstance(x, int) and not isinstance(x, bool):
            parts.append(("l", "int", hex(x)))
        else:
            parts.append(("l", type(x).__name__, repr(x)))
    # annotations in ORDER: the tuple is applied in sequence by backends, x.annotate(a, b) is not x.annotate(b, a)
    k = (a.op, tuple(parts), tuple(anno_desc(an) for an in a.annotations), a.length)
    memo[i] = k
    return k


def ser_request(a):
    args = []
    for x in a.args:
        if isinstance(x, Base):
            args.append("c:%d" % x._hash)
        elif x is None:
            args.append("N")
        elif x is True:
            args.append("T")
        elif x is False:
            args.append("F")
        elif isinstance(x, int):
            if x.bit_length() > 8000:
                return None
            args.append("i:%d" % x)
        elif isinstance(x, str):
            args.append("s:" + x.encode("utf-8", "surrogatepass").hex())
        elif isinstance(x, float):
            args.append("f:%d" % struct.unpack("<Q", struct.pack("<d", x))[0])
        elif isinstance(x, claripy.fp.FSort | claripy.fp.RM):
            args.append("h:%d" % hash(x))
        else:
            return None
    if any(" " in a.op for _ in [0]):
        return None
    annos = " ".join(str(hash(an)) for an in a.annotations)
    return "aser %s | %s | %s | %s" % (a.op, " ".join(args), annos, "-" if a.length is None else a.length)


def colliding_pairs(rng):
    k = rng.randrange(0, 50)
    return [(-1, -2), (k, k + M61), (-k - 3, -(k + 3) - M61), (k, k + 2 * M61), (1 << 64, (1 << 64) % M61), (k, k + 1)]


# ---------------------------------------------------------------- annotations put on an expression that already carries them
ANNO_KINDS = ["UA", "UR", "SIA", "Region", "Avoid", "Uninit"]


def mk_anno(spec):
    A = claripy.annotation
    k = spec[0]
    if k == "UA":
        return UA(spec[1])
    if k == "UR":
        return UR(spec[1])
    if k == "SIA":
        return A.StridedIntervalAnnotation(spec[1], spec[2], spec[3])
    if k == "Region":
        return A.RegionAnnotation("r%d" % spec[1], spec[2])
    if k == "Avoid":
        return A.SimplificationAvoidanceAnnotation()
    return A.UninitializedAnnotation()


def rand_anno_spec(rng):
    k = rng.choice(ANNO_KINDS)
    if k in ("UA", "UR"):
        return [k, rng.randrange(4)]
    if k == "SIA":
        lo = rng.randrange(4)
        return [k, rng.choice([1, 2]), lo, lo + rng.choice([5, 10])]
    if k == "Region":
        return [k, rng.randrange(2), rng.randrange(3)]
    return [k]


REANNOTATE_BASES = ["x", "x+1", "const", "fps", "x>3", "If", "concat", "fp-add"]


def reannotate_base(kind):
    x = claripy.BVS("c06_x", 32, explicit_name=True)
    f = claripy.FPS("c06_f", claripy.FSORT_FLOAT, explicit_name=True)
    return {"x": lambda: x, "x+1": lambda: x + 1, "const": lambda: claripy.BVV(5, 32), "fps": lambda: f, "x>3": lambda: x > 3,
            "If": lambda: claripy.If(x > 3, x, x + 2), "concat": lambda: claripy.Concat(x, x[7:0]),
            "fp-add": lambda: f + claripy.FPV(1.5, claripy.FSORT_FLOAT)}[kind]()


def reannotate_spec(rng):
    """a base, three annotations a / again / b where `again` is `a` itself or an EQUAL second object, and sequences of the public
    annotation methods that (also) put an annotation on a node that already carries it"""
    sa = rand_anno_spec(rng)
    sb = rand_anno_spec(rng)
    while sb == sa:
        sb = rand_anno_spec(rng)
    fixed = [[["annotate", [0]]], [["annotate", [1]]], [["annotate", [0, 2]]], [["annotate", [0]], ["annotate", [2]]],
             [["annotate", [0, 2]], ["remove_annotation", [2]]], [["replace_annotations", [0]]],
             [["annotate", [0]], ["annotate", [1]]], [["annotate", [0, 1]]], [["annotate", [0]], ["append_annotation", [1]]],
             [["annotate", [0]], ["insert_annotation", [1]]], [["annotate", [0, 2]], ["annotate", [1]]], [["annotate", [0, 2, 1]]],
             [["annotate", [0, 2]], ["annotate", [1]], ["remove_annotation", [2]]], [["annotate", [2]], ["insert_annotations", [0, 1]]],
             [["annotate", [1]], ["append_annotations", [0]]], [["replace_annotations", [0, 1]]], [["annotate", [0]], ["replace_annotations", [1, 0]]]]
    methods = ["annotate", "append_annotation", "insert_annotation", "append_annotations", "insert_annotations", "remove_annotation", "replace_annotations"]
    rand = []
    for _ in range(rng.choice([2, 4, 6])):
        seq = []
        for _ in range(rng.choice([1, 2, 3, 4])):
            mth = rng.choice(methods)
            n = 1 if mth in ("append_annotation", "insert_annotation", "remove_annotation") else rng.choice([1, 1, 2, 3])
            seq.append([mth, [rng.randrange(3) for _ in range(n)]])
        rand.append(seq)
    # an EQUAL second object only for classes with value equality (a RegionAnnotation / SimplificationAvoidanceAnnotation is only equal to itself)
    again = rng.choice(["same-object", "equal-object"]) if sa[0] in ("UA", "UR", "SIA", "Uninit") else "same-object"
    return {"base": rng.choice(REANNOTATE_BASES), "a": sa, "b": sb, "again": again, "sequences": fixed + rand}


def reannotate_check(spec):
    """build every sequence on the base, then parents over the results, keep all alive: same deep structure <=> same object, and every
    annotation requested last is carried.  -> list of (kind, text)"""
    base = reannotate_base(spec["base"])
    a, b = mk_anno(spec["a"]), mk_anno(spec["b"])
    again = a if spec["again"] == "same-object" else mk_anno(spec["a"])
    annos = [a, again, b]
    alive, memo, pool, out = [base, annos], {}, {}, []

    def see(node, how):
        alive.append(node)
        k = skey(node, memo)
        other = pool.setdefault(k, (node, how))
        if other[0] is not node:
            out.append(("two-objects-one-structure", "%r annotated %r built by %s and %r annotated %r built by %s have the same operation, arguments, width and annotations "
                        "but are two live objects (hashes %#x, %#x)" % (node, node.annotations, how, other[0], other[0].annotations, other[1], node.hash() % (1 << 64), other[0].hash() % (1 << 64))))
    see(base, "base")
    results = []
    for seq in spec["sequences"]:
        node, how = base, "base"
        for mth, idx in seq:
            args = [annos[i] for i in idx]
            try:
                if mth in ("annotate",):
                    node = node.annotate(*args)
                elif mth in ("append_annotation", "insert_annotation", "remove_annotation"):
                    node = getattr(node, mth)(args[0])
                else:
                    node = getattr(node, mth)(tuple(args))
            except claripy.errors.ClaripyError:
                break
            how += ".%s(%s)" % (mth, ", ".join("abc"[0] + ("'" if i == 1 and spec["again"] != "same-object" else "") if i < 2 else "b" for i in idx))
            if mth != "remove_annotation" and not all(any(anno_desc(c) == anno_desc(q) for c in node.annotations) for q in args):
                out.append(("requested-annotation-not-carried", "%s carries %r" % (how, node.annotations)))
            see(node, how)
        results.append((node, how))
    for node, how in results:
        try:
            if isinstance(node, claripy.ast.BV):
                ps = [(node + 1, "+1"), (claripy.Concat(node, node), "Concat(v, v)"), (~node, "~v"), (claripy.If(claripy.BoolS("c06_c", explicit_name=True), node, base), "If(c, v, base)")]
            elif isinstance(node, claripy.ast.Bool):
                ps = [(claripy.Not(node), "Not(v)"), (claripy.And(node, claripy.BoolS("c06_c", explicit_name=True)), "And(v, c)")]
            else:
                ps = [(claripy.fpAbs(node), "fpAbs(v)"), (claripy.fpIsNaN(node), "fpIsNaN(v)")]
        except claripy.errors.ClaripyError:
            continue
        for p_, ph in ps:
            see(p_, "%s over v = %s" % (ph, how))
    by_hash = {}
    for k, (node, how) in pool.items():
        o = by_hash.setdefault(node._hash, (k, node, how))
        if o[0] != k:
            out.append(("hash-shared-by-different-structures", "%r (%s) and %r (%s) share hash %d" % (o[1], o[2], node, how, node._hash)))
    return out


def run(ctx):
    ctx.cov["trusted_base"] += [
        "blake2b-64 does not collide on the serialisations seen (a hypothesis: the table theorems are stated for an arbitrary key function, "
        "C06_never_merges assumes it injective on the two nodes involved)",
        "framing of variable-length arguments with '<' '>' is NOT proved uniquely decodable in general (ints/strings may contain those bytes); "
        "argument shapes are fixed per operation in claripy, checked by the byte-for-byte correspondence on real nodes",
        "str and tuple hashes inside annotation __hash__ are CPython's (seed dependent); only int hashing is modelled",
    ]
    ctx.cov["rule"] = ("cases = (a) integers: boundary values around 0, +-2^k, 2^61-1 multiples, random up to 2^200; (b) every distinct sub-AST of the C01 "
                       "streams (serialisation bytes, identity vs deep structure); (c) annotated variants with built-in and user annotation classes "
                       "whose integer payloads have colliding Python hashes; non-trivial = non-leaf AST or colliding-hash pair; distinct = AST hash / pair")
    ctx.prove("ClaripyProofs.Props.C06", THEOREMS)
    rng = ctx.rng
    # ---- (a) integers
    ints = [0, 1, -1, -2, 127, 128, 255, 256, -128, -129, 32767, 32768, -32768, -32769, M61, M61 + 1, -M61, -M61 - 1, 2 * M61, 1 << 61, 1 << 63,
            (1 << 64) - 1, 1 << 64, -(1 << 63), -(1 << 64)]
    for k in range(0, 200, 7):
        ints += [1 << k, (1 << k) - 1, -(1 << k), -(1 << k) - 1, (1 << k) + 1]
    ints += [rng.getrandbits(rng.choice([8, 16, 62, 64, 100, 200])) * rng.choice([1, -1]) for _ in range(ctx.pick(600, 6000))]
    lines = ["intbytes %d" % n for n in ints] + ["pyhash %d" % n for n in ints]
    outs = ctx.driver(lines)
    agree = 0
    for n, o in zip(ints, outs[:len(ints)]):
        ctx.count()
        want = Base._arg_serialize(n).hex()
        if o != want:
            ctx.tie_broken("corr:_arg_serialize(int)", "%d: model %s real %s" % (n, o, want)); break
        agree += 1
    for n, o in zip(ints, outs[len(ints):]):
        if int(o) != hash(n):
            ctx.tie_broken("corr:hash(int)", "%d: model %s real %d" % (n, o, hash(n))); break
        agree += 1
    # ---- (b) real nodes: serialisation + identity
    pool = {}          # skey -> object
    memo = {}
    keep_alive = []
    ser_lines, ser_want = [], []
    n1 = ctx.pick(2500, 40000)
    dist = collections.Counter()
    for i in range(n1):
        name, tree = G.rule_directed(rng) if rng.random() < 0.6 else G.random_tree(rng)
        a, log, e = X.build_case(tree)
        if e is not None:
            continue
        dist[name] += 1
        ctx.count()
        a2, _, e2 = X.build_case(tree)
        if e2 is None and a2 is not a:
            ctx.violation("C06/rebuild/not-same-object", "building %r twice gave two objects" % (tree,), {"tree": tree})
            continue
        keep_alive.append(a)
        for sub in [a] + list(a.children_asts()):
            k = skey(sub, memo)
            other = pool.get(k)
            if other is None:
                pool[k] = sub
                if sub.args and any(isinstance(x, Base) for x in sub.args):
                    ctx.distinct(sub._hash)
                if len(ser_lines) < ctx.pick(4000, 40000):
                    r = ser_request(sub)
                    if r:
                        ser_lines.append(r)
                        ser_want.append(Base._ast_serialize(sub.op, sub.args, sub.annotations, sub.length).hex())
            elif other is not sub:
                ctx.violation("C06/identity/two-objects-one-structure", "two live objects for %r" % (sub,), {"tree": tree, "node": repr(sub)})
    # ---- (b1) leaf constructors: what comes back holds exactly the value asked for (they have caches of their own in front
    # of the table), and values that differ — by one unit in the last place, by the sign of zero, by width — stay apart
    def bits64(v):
        return struct.unpack("<Q", struct.pack("<d", v))[0]
    def bits32(v):
        return struct.unpack("<I", struct.pack("<f", v))[0]
    nleaf = 0
    fl = [0.0, -0.0, 0.1, 0.3, 0.1 + 0.2, 1.0, 1e300, 5e-324, 2.2250738585072014e-308, 1.7976931348623157e308, float("inf"), float("-inf"), 1 / 3, 2 / 3, 1e16, 1e16 + 2]
    for rep in range(ctx.pick(300, 3000)):
        v = rng.choice(fl) if rng.random() < 0.4 else struct.unpack("<d", struct.pack("<Q", rng.getrandbits(64)))[0]
        if math.isnan(v):
            continue
        near = [v, math.nextafter(v, math.inf), math.nextafter(v, -math.inf), -v]
        for srt_, nm in ((claripy.FSORT_DOUBLE, "DOUBLE"), (claripy.FSORT_FLOAT, "FLOAT")):
            objs = []
            for w in near:
                if math.isnan(w):
                    continue
                ctx.count(); nleaf += 1
                try:
                    e = claripy.FPV(w, srt_)
                except (OverflowError, claripy.errors.ClaripyError) as ex:
                    ctx.violation("C06/FPV/raises", "FPV(%r, %s) raised %r" % (w, nm, ex), {"value": repr(w), "sort": nm})
                    continue
                if nm == "DOUBLE":
                    want = w
                else:
                    try:
                        want = struct.unpack("f", struct.pack("f", w))[0]
                    except OverflowError:
                        want = math.copysign(math.inf, w)
                if e.op != "FPV" or bits64(e.args[0]) != bits64(want) or e.args[1] != srt_ or e.length != srt_.length:
                    ctx.violation("C06/FPV/value-differs-from-the-one-built", "FPV(%r, %s) returned an expression holding %r (bits %#x, wanted %#x)" % (
                        w, nm, e.args[0], bits64(e.args[0]), bits64(want)), {"value": repr(w), "sort": nm, "got": repr(e.args[0])})
                    continue
                objs.append((bits64(want), e))
                keep_alive.append(e)
                k = skey(e, memo)
                if pool.setdefault(k, e) is not e:
                    ctx.violation("C06/identity/two-objects-one-structure", "two live objects for %r" % (e,), {"node": repr(e)})
                elif len(ser_lines) < ctx.pick(6000, 60000) and rng.random() < 0.3:
                    assert ser_request(e) is not None
                    ser_lines.append(ser_request(e)); ser_want.append(Base._ast_serialize(e.op, e.args, e.annotations, e.length).hex())
            for (b1_, e1) in objs:
                for (b2_, e2) in objs:
                    if (b1_ == b2_) != (e1 is e2):
                        ctx.violation("C06/FPV/identity-differs-from-value-equality", "%r (bits %#x) and %r (bits %#x): same object = %s" % (
                            e1, b1_, e2, b2_, e1 is e2), {"a": repr(e1.args[0]), "b": repr(e2.args[0]), "sort": nm})
    sizes = [1, 7, 8, 63, 64, 65, 255, 256, 4096, 65535, 65536, 65537, 1 << 17, (1 << 17) + 8, 1 << 20]
    for rep in range(ctx.pick(300, 3000)):
        size = rng.choice(sizes) if rng.random() < 0.7 else rng.randrange(1, 300)
        # 15, 31, 46 are the one-byte images of None / True / False in the node serialisation; None itself is the value of the
        # empty strided interval ESI(size) = BVV(None, size)
        v = rng.choice([0, 1, 2, 255, (1 << size) - 1, 1 << (size - 1), rng.getrandbits(min(size, 200)), -1, -rng.getrandbits(8), (1 << size) + 5, size, 65536 + size,
                        15, 31, 46, None, None])
        ctx.count(); nleaf += 1
        if v is None:
            e = claripy.ESI(size)
            if e.op != "BVV" or e.args != (None, size) or e.length != size:
                ctx.violation("C06/ESI/value-differs-from-the-one-built", "ESI(%d) returned a node with args %r" % (size, e.args), {"size": size})
                continue
            keep_alive.append(e)
            if pool.setdefault(skey(e, memo), e) is not e:
                ctx.violation("C06/identity/two-objects-one-structure", "two live objects for ESI(%d)" % size, {"size": size})
            elif size <= 64 and len(ser_lines) < ctx.pick(6000, 60000):
                r_ = ser_request(e)
                if r_:
                    ser_lines.append(r_); ser_want.append(Base._ast_serialize(e.op, e.args, e.annotations, e.length).hex())
            continue
        e = claripy.BVV(v, size)
        want = v % (1 << size)
        if e.op != "BVV" or e.args != (want, size) or e.length != size:
            ctx.violation("C06/BVV/value-differs-from-the-one-built", "BVV(%#x, %d) returned BVV(%#x, %r) of length %r" % (
                v if size < 300 else v % (1 << 64), size, e.args[0] % (1 << 64) if isinstance(e.args[0], int) else -1, e.args[1], e.length), {"value": hex(v), "size": size})
            continue
        keep_alive.append(e)
        k = skey(e, memo)
        if pool.setdefault(k, e) is not e:
            ctx.violation("C06/identity/two-objects-one-structure", "two live objects for BVV(%d bits)" % size, {"value": hex(v), "size": size})
    # strings: ordinary text, the bytes of the node framing, lone surrogates (legal in Python and Z3 strings) next to the text
    # that spells their escape, and text that differs only in how it could be escaped
    twins = [("\ud800", "\\ud800"), ("\udfff", "\\udfff"), ("\udc80", "\x80"), ("é", "e\u0301"), ("\x00", "\\x00"), ("a", "a\x00"), ("", "\x00"),
             ("\U0001f600", "\ud83d\ude00")]
    svals = [t for pr in twins for t in pr]
    for rep in range(ctx.pick(100, 1000)):
        svals.append("".join(rng.choice(["a", "b", "\\", "<", ">", " ", "é", "中", "\x00", "0", "\n", "\ud800", "u", "d", "8"]) for _ in range(rng.randrange(0, 6))))
    sobjs = {}
    for sv in svals:
        ctx.count(); nleaf += 1
        e = claripy.StringV(sv)
        if e.op != "StringV" or e.args[0] != sv:
            ctx.violation("C06/StringV/value-differs-from-the-one-built", "StringV(%r) returned a node holding %r" % (sv, e.args[0]), {"value": sv.encode("utf-8", "surrogatepass").hex()})
            continue
        keep_alive.append(e)
        sobjs[sv] = e
        if pool.setdefault(skey(e, memo), e) is not e:
            ctx.violation("C06/identity/two-objects-one-structure", "two live objects for %r" % (e,), {"node": repr(e)})
        elif len(ser_lines) < ctx.pick(6000, 60000):
            r_ = ser_request(e)
            if r_:
                ser_lines.append(r_); ser_want.append(Base._ast_serialize(e.op, e.args, e.annotations, e.length).hex())
    for a_, b_ in twins:
        if a_ in sobjs and b_ in sobjs and (sobjs[a_] is sobjs[b_] or sobjs[a_].hash() == sobjs[b_].hash()):
            ctx.violation("C06/StringV/different-strings-one-node", "StringV(%r) and StringV(%r) are the same node / share a hash" % (a_, b_),
                          {"a": a_.encode("utf-8", "surrogatepass").hex(), "b": b_.encode("utf-8", "surrogatepass").hex()})
    # ---- (b2) nodes carrying several annotations, attached in different orders and in different ways
    apool = anno_pool()
    live = [z for z in keep_alive if isinstance(z, claripy.ast.BV | claripy.ast.Bool)] or [claripy.BVS("x", 32, explicit_name=True)]
    nperm = 0
    for rep in range(ctx.pick(400, 6000) * (3 if ctx.broken else 1)):
        base = rng.choice(live)
        if base.annotations and rng.random() < 0.7:
            continue
        picks = rng.sample(apool, rng.choice([2, 2, 3, 4]))
        p1 = tuple(picks)
        p2 = tuple(rng.sample(picks, len(picks)))
        ctx.count()
        built = []
        try:
            built.append((p1, base.annotate(*p1), "annotate(*p)"))
            built.append((p2, base.annotate(*p2), "annotate(*p)"))
            built.append((p2, base.annotate(p2[0]).annotate(*p2[1:]), "annotate(p0).annotate(*rest)"))
            built.append((p1, base.insert_annotations(p1), "insert_annotations(p)"))
            built.append((p2, base.annotate(p2[-1]).insert_annotations(p2[:-1]), "annotate(last).insert_annotations(rest)"))
            built.append((p2, base.annotate(*p1).replace_annotations(p2), "replace_annotations(p)"))
        except claripy.errors.ClaripyError:
            continue
        nperm += 1
        if p1 != p2:
            ctx.distinct(("perm", base._hash, tuple(repr(a_) for a_ in p1), tuple(repr(a_) for a_ in p2)))
        for want, got, how in built:
            expect = tuple(anno_desc(a_) for a_ in (tuple(base.annotations) if "replace" not in how else ()) )
            if "insert" in how:
                expect = tuple(anno_desc(a_) for a_ in want) + expect
            else:
                expect = expect + tuple(anno_desc(a_) for a_ in want)
            have = tuple(anno_desc(a_) for a_ in got.annotations)
            if have != expect or got.op != base.op or got.args != base.args:
                ctx.violation("C06/annotate/annotations-differ-from-the-ones-built",
                              "%r.%s with %r returned an object annotated with %r" % (base, how, want, got.annotations),
                              {"base": repr(base), "how": how, "requested": repr(want), "got": repr(got.annotations)})
                break
            keep_alive.append(got)
            k = skey(got, memo)
            other = pool.get(k)
            if other is None:
                pool[k] = got
                if len(ser_lines) < ctx.pick(6000, 60000):
                    r = ser_request(got)
                    if r:
                        ser_lines.append(r)
                        ser_want.append(Base._ast_serialize(got.op, got.args, got.annotations, got.length).hex())
            elif other is not got:
                ctx.violation("C06/identity/two-objects-one-structure", "two live objects for %r annotated %r" % (got, got.annotations),
                              {"base": repr(base), "how": how, "requested": repr(want)})
    # ---- (b2r) an annotation put on an expression that ALREADY carries it (the same object, or an equal second object), through
    # annotate / append_annotation(s) / insert_annotation(s) / replace_annotations, next to the plain routes; parents over the results
    import random
    arng = random.Random("C06-re-annotation:%d" % ctx.seed)      # own stream: the older stages keep theirs
    nre = 0
    for rep in range(ctx.pick(150, 2500) * (3 if ctx.broken else 1)):
        spec = reannotate_spec(arng)
        ctx.count(); nre += 1
        probs = reannotate_check(spec)
        if probs:
            kind, what = probs[0]
            # shrink: one sequence at a time next to the plain ones
            small = spec
            for i_ in range(len(spec["sequences"]) - 1, -1, -1):
                trial = dict(small, sequences=small["sequences"][:i_] + small["sequences"][i_ + 1:])
                pr2 = reannotate_check(trial)
                if pr2 and pr2[0][0] == kind:
                    small, what = trial, pr2[0][1]
            ctx.violation("C06/re-annotate/%s/%s/%s" % (kind, spec["again"], spec["a"][0]), what, {"reannotate": small})
        elif rep % 3 == 0:
            ctx.distinct(("reannotate", repr(spec["a"]), repr(spec["b"]), spec["base"], spec["again"]))
    # ---- (b3) expressions arriving from another process (other string-hash seed), before and after the native build
    ncross = 0
    for rep in range(ctx.pick(2, 10) * (3 if ctx.broken else 1)):
        cseed, cnt = rng.randrange(1 << 30), ctx.pick(120, 400)
        env = dict(os.environ)
        env["PYTHONHASHSEED"] = str(rng.randrange(1, 1 << 20))
        pr = subprocess.run([sys.executable, os.path.join(os.path.dirname(os.path.dirname(os.path.abspath(__file__))), "lib", "c06_shared.py"),
                             str(cseed), str(cnt)], capture_output=True, text=True, env=env, timeout=300)
        if pr.returncode != 0:
            ctx.notes.append("C06 child failed: " + pr.stderr[-300:])
            continue
        native_first = rep % 2 == 0
        native = build_all(cseed, cnt) if native_first else None
        foreign = pickle.loads(bytes.fromhex(pr.stdout))
        if native is None:
            native = build_all(cseed, cnt)
        for i_, (n_, f_) in enumerate(zip(native, foreign)):
            ctx.count()
            ncross += 1
            m2 = {}
            if skey(n_, m2) != skey(f_, m2):
                ctx.violation("C06/pickle/structure-differs", "item %d: built %r here, the other process built %r" % (i_, n_, f_),
                              {"seed": cseed, "count": cnt, "index": i_, "native_first": native_first})
                break
            if n_ is not f_:
                ctx.violation("C06/pickle/two-objects-one-structure",
                              "%r: the object unpickled from another process and the one built here (%s) are two live objects" % (
                                  n_, "before" if native_first else "afterwards"),
                              {"seed": cseed, "count": cnt, "index": i_, "native_first": native_first, "expr": repr(n_)})
                break
            ctx.distinct(("cross", n_._hash))
        keep_alive.extend(native); keep_alive.extend(foreign)
    # different structure, same object?  -> compare hash buckets
    by_hash = {}
    for k, obj in pool.items():
        if obj._hash in by_hash and by_hash[obj._hash][0] != k:
            ctx.violation("C06/identity/hash-shared-by-different-structures", "%r and %r share hash %d" % (by_hash[obj._hash][1], obj, obj._hash),
                          {"a": repr(by_hash[obj._hash][1]), "b": repr(obj)})
        by_hash[obj._hash] = (k, obj)
    # ---- (c) annotations with colliding hashes
    x = claripy.BVS("x", 32, explicit_name=True)
    y = x + claripy.BVS("y", 32, explicit_name=True)
    classes = [("builtin-annotation-int-hash-collision", lambda v: claripy.annotation.StridedIntervalAnnotation(1, v, 5 if v < 5 else v + 5)),
               ("builtin-annotation-int-hash-collision", lambda v: claripy.annotation.StridedIntervalAnnotation(v if v > 0 else 1, 0, v)),
               ("builtin-annotation-int-hash-collision", lambda v: claripy.annotation.RegionAnnotation("r", v)),
               ("user-annotation-hash-collision", lambda v: UA(v))]
    for rep in range(ctx.pick(20, 200)):
        for (v1, v2) in colliding_pairs(rng):
            for sig, mk in classes:
                for base in (x, y):
                    ctx.count()
                    a1, a2 = mk(v1), mk(v2)
                    r1 = base.annotate(a1)
                    r2 = base.annotate(a2)
                    ctx.distinct(("anno", sig, v1, v2, base is x))
                    ok1 = any(anno_desc(an) == anno_desc(a1) for an in r1.annotations)
                    ok2 = any(anno_desc(an) == anno_desc(a2) for an in r2.annotations)
                    if not (ok1 and ok2):
                        ctx.violation("C06/_arg_serialize/" + sig,
                                      "%r.annotate(%r) returned an object carrying %r (built after annotating with %r)" % (
                                          base, a2, r2.annotations, a1),
                                      {"base": repr(base), "first": repr(a1), "second": repr(a2), "got": repr(r2.annotations), "class": type(a1).__name__,
                                       "values": [v1, v2]})
                    del r1, r2
    souts = ctx.driver(ser_lines) if ser_lines else []
    for l, o, w in zip(ser_lines, souts, ser_want):
        if o != w:
            ctx.tie_broken("corr:_ast_serialize", "%s: model %s real %s" % (l[:300], o[:200], w[:200])); break
        agree += 1
    ctx.cov["traces_validated_against_impl"] = agree
    ctx.cov["input_distribution"] = {"integers": len(ints), "nodes_serialised": len(ser_lines), "distinct_structures": len(pool), "multi_annotation_bases": nperm, "re_annotation_cases": nre, "leaf_constructor_calls": nleaf, "cross_process_items": ncross, "templates": dict(dist)}
    if ser_lines:
        ctx.sample({"request": ser_lines[-1][:200], "bytes": ser_want[-1][:120]})
    del keep_alive
    gc.collect()


def replay(ctx, obj):
    r = obj["replay"]
    if "reannotate" in r:
        probs = reannotate_check(r["reannotate"])
        for kind, what in probs[:3]:
            print(kind + ":", what)
        if probs:
            print("VIOLATION property=C06 replay=(given)"); return 1
        print("same structure <=> same object over these annotated nodes on the current tree"); return 0
    if "values" in r:
        v1, v2 = r["values"]
        mk = {"UA": UA, "StridedIntervalAnnotation": lambda v: claripy.annotation.StridedIntervalAnnotation(1, v, 5 if v < 5 else v + 5),
              "RegionAnnotation": lambda v: claripy.annotation.RegionAnnotation("r", v)}[r["class"]]
        x = claripy.BVS("x", 32, explicit_name=True)
        r1 = x.annotate(mk(v1)); r2 = x.annotate(mk(v2))
        print(r1.annotations, r2.annotations, "same object:", r1 is r2)
        if r1 is r2 and v1 != v2:
            print("VIOLATION property=C06 replay=(given)"); return 1
        return 0
    print(r); return 1
