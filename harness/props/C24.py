"""C24 — VSA evaluation of expressions over annotated variables over-approximates.
prove (Lean: structural induction from per-operator lemmas) -> end-to-end oracle on the real backend and SolverVSA
(expression trees over 1..3 annotated variables, every assignment enumerated) -> blame of the failing node."""
import collections, itertools, logging

from lib import vsa, vsa_expr as vx, vsa_sets

PROP = "C24"
P = "Claripy.Props.C24."
L = "Claripy.VSA."
THEOREMS = [P + n for n in ("C24_convert_sound", "C24_bool_sound", "C24_if_join", "C24_light_min_max_over",
                                "C24_convert_sound_rest", "C24_bool_sound_rest", "C24_fragment_sound", "C24_sound", "C24_sound_bool", "C24_fragment_noeq_sound", "C24_fragment_bool_sound", "C24_fragment_min_max_over", "queriesOK",
                                "C24_sound_aligned_fragment", "C24_sound_aligned_fragment_bool", "C24_sound_aligned", "C24_sound_aligned_bool", "C24_value_aligned", "C24_max_attained_aligned",
                                "C24_same_name_same_value", "C24_same_name_same_value_proved")] + \
           [L + n for n in ("convBV_good", "convB_good", "nameOK_eq", "nameOK_bin", "nameOK_join", "new_WF", "top_WF", "const_mem", "mem_integer", "brAnd_has", "brOr_has", "iteB_has",
                            "convBV_rest_good", "convB_rest_good", "bin_proved", "bin_proved_nrm", "and_sound", "or_sound", "xor_sound", "concat_sound", "ashr_sound", "meet_sound", "mul_sound", "mod_sound", "usesRestBV_false", "usesRestB_false", "alBV_of_noEq", "alB_of_noEq", "zeroExtend_nrm", "sext_sound", "sext_nrm", "sextKeeps_sound", "widen_bits_nrm", "pseudoJoin_nrm", "scmp_sound", "defBV_some", "defB_some",
                            "alBV_of_guardFree", "alB_of_guardFree", "bin_aligned", "guardFreeBV_of_all", "guardFreeB_of_all", "alSrc_of_all", "union_aligned", "pseudoJoin_aligned")]
TESTS = [P + "test_eval_example", P + "test_shared_name"]


def rand_anno(rng, w, aligned=True):
    t = vsa.rand_si(rng, w, p_unaligned=0.0 if aligned else 0.5)
    # keep the number of assignments enumerable
    if vsa.card(t) > 12:
        s = t[1] or 1
        n = rng.randrange(1, 12)
        t = vsa.norm(w, s, t[2], t[2] + n * s)
    return t


def envs_of(annos, cap=1500):
    gs = [vsa.gamma(t) for t in annos]
    tot = 1
    for g in gs:
        tot *= len(g)
    if tot > cap:
        return None
    return list(itertools.product(*gs))


def node_sig(kind, st, child_abs):
    """signature of a failing node: operation + kind + class of the children's abstract values"""
    k = st[0]
    op = st[1] if k in ("bin", "un", "cmp") else k
    tuples = []
    for c in child_abs:
        if c[0] == "si" and isinstance(c[1], tuple):
            tuples.append(c[1])
    if op in vsa.OPS and len(tuples) == len(child_abs) and tuples:
        base = vsa.classify({"lshr": "lshr", "ashr": "ashr"}.get(op, op), kind, tuples + [x for x in st[1:] if isinstance(x, int)] if k in ("zext", "sext", "extract") else tuples)
        return "C24/" + base.split("/", 1)[1]
    return "C24/%s/%s/%s" % (op, kind, ",".join(c[0] for c in child_abs) or "leaf")


_NARY = {"__add__": "add", "__sub__": "sub", "__mul__": "mul", "__and__": "and", "__or__": "or", "__xor__": "xor"}


def real_blame(e_st, xs, envs):
    """The failing tree node, seen as the backend evaluates it: construction-time rewriting flattens chains of one operator
    (1 * (v * v) -> __mul__(1, v, v)) and drops identities, BackendVSA.convert excavates If above the operators
    (7 * If(c, a, b) -> If(c, 7 * a, 7 * b)) and folds n-ary nodes from the left (functools.reduce).  Walks THAT AST in
    post-order (concrete values: vsa_expr.ev_ast, independent of claripy's backends) -> (pseudo tree node, abstract values of
    its operands) of the first step whose result misses one of its concrete values; None when no step fails alone or an
    operator is outside the vocabulary."""
    import claripy, operator
    names = [x.args[0] for x in xs]
    envd = [dict(zip(names, env)) for env in envs]
    fns = {"add": operator.add, "sub": operator.sub, "mul": operator.mul, "and": operator.and_, "or": operator.or_, "xor": operator.xor}
    try:
        root = claripy.excavate_ite(e_st)
    except Exception:  # noqa
        return None
    order, seen = [], set()

    def walk(n):
        if n.hash() in seen:
            return
        seen.add(n.hash())
        for c in n.args:
            if hasattr(c, "op"):
                walk(c)
        order.append(n)
    walk(root)
    for n in order:
        if n.op in ("BVS", "BVV", "BoolV", "BoolS"):
            continue
        try:
            vals = [vx.ev_ast(n, d) for d in envd]
        except (vx.Unmodelled, KeyError):
            return None
        a = vx.abstract(n)
        if a[0] == "err" or all(v is None or vx.contains(a, v) for v in vals):
            continue
        kids = [c for c in n.args if hasattr(c, "op")]
        if n.op in _NARY and len(n.args) >= 2:
            fn, w = fns[_NARY[n.op]], n.size()
            try:
                conv = [claripy.backends.vsa.convert(c) for c in n.args]
                cvals = [[vx.ev_ast(c, d) for d in envd] for c in n.args]
                acc, accv = conv[0], cvals[0]
                for c, cv in zip(conv[1:], cvals[1:]):
                    new = fn(acc, c)
                    newv = [None if (p is None or q is None) else fn(p, q) & ((1 << w) - 1) for p, q in zip(accv, cv)]
                    if any(v is not None and not vx.contains(vsa_sets.canon_obj(new), v) for v in newv):
                        return ("bin", _NARY[n.op], None, None), [vsa_sets.canon_obj(acc), vsa_sets.canon_obj(c)]
                    acc, accv = new, newv
            except Exception:  # noqa
                return None
            return None
        child_abs = [vx.abstract(c) for c in kids]
        if n.op in vx._FOLD:
            return ("bin", vx._FOLD[n.op], None, None), child_abs
        if n.op in vx._CMP:
            return ("cmp", vx._CMP[n.op], None, None), child_abs
        if n.op in ("__neg__", "__invert__"):
            return ("un", "neg" if n.op == "__neg__" else "not", None), child_abs
        if n.op in ("ZeroExt", "SignExt"):
            return ("zext" if n.op == "ZeroExt" else "sext", n.args[0], None), child_abs
        if n.op == "Extract":
            return ("extract", n.args[0], n.args[1], None), child_abs
        if n.op in ("Concat", "If", "Not", "And", "Or"):
            return ({"Concat": "concat", "If": "if", "Not": "not", "And": "and", "Or": "or"}[n.op],), child_abs
        return None
    return None


def analyse(tree, annos, tag):
    """-> None | (signature, what, blamed-subtree-string)"""
    vw = [t[0] for t in annos]
    xs = vx.mk_vars(annos, tag)
    envs = envs_of(annos)
    if envs is None:
        return "skip"
    try:
        e = vx.build(tree, xs)
    except Exception as ex:  # noqa  (constant folding of x / 0 raises while building: exempt, C04's subject)
        if type(ex).__name__ == "ClaripyZeroDivisionError":
            return "skip"
        raise
    top = vx.abstract(e)
    vals = set()
    for env in envs:
        v = vx.ev(tree, env, vw)
        if v is not None:
            vals.add(v)
    bad = None
    if top == ("err", "ClaripyZeroDivisionError"):
        return None          # a division by (an abstract) zero somewhere in the expression: exempt by the property
    if top[0] == "err":
        bad = ("err:" + top[1], "conversion raises " + top[1])
    else:
        for v in vals:
            if not vx.contains(top, v):
                bad = ("unsound", "value %r (e.g. under some assignment) is not in the abstract value %s" % (v, top[1] if top[0] != "dsis" else top))
                break
    if not bad:
        return None
    # blame: first subtree in post-order whose abstract value misses one of its own concrete values
    for st in vx.subtrees(tree):
        a = vx.abstract(vx.build(st, xs))
        svals = set()
        for env in envs:
            v = vx.ev(st, env, vw)
            if v is not None:
                svals.add(v)
        kind = None
        if a == ("err", "ClaripyZeroDivisionError"):
            continue
        if a[0] == "err":
            kind = "err:" + a[1]
        elif any(not vx.contains(a, v) for v in svals):
            kind = "unsound"
        if kind:
            kids = [x for x in st[1:] if isinstance(x, tuple) and x and x[0] in ("var", "const", "bin", "un", "zext", "sext", "extract", "concat", "if", "cmp", "not", "and", "or", "bool")]
            child_abs = [vx.abstract(vx.build(c, xs)) for c in kids]
            if kind == "unsound" and st[0] == "cmp" and all(c[0] == "si" and isinstance(c[1], tuple) for c in child_abs):
                # the same comparison on fresh intervals (new names) with the children's bounds: if that answer is sound the
                # failure comes from the operands' NAMES (== / != answer by name first), not from their values
                fresh = vsa.run_real(st[1], [c[1] for c in child_abs])
                if isinstance(fresh, str) and fresh.startswith("bool:") and all(("T" if v else "F") in fresh[5:] for v in svals):
                    outer = lambda t: t[1] if t[0] in ("bin", "un") else {"var": "variable", "const": "constant"}.get(t[0], t[0])  # noqa: E731
                    sig = "C24/%s/unsound/same-name-different-value:%s" % (st[1], "+".join(sorted({outer(c) for c in kids})))
                    return (sig, "%s with %s: %s; failing node %s = %s over children %s; the same comparison of fresh intervals gives %s" % (
                        vx.show(tree), [vsa.show(t) for t in annos], bad[1], vx.show(st), a, child_abs, fresh), vx.show(st))
            if kind == "unsound":
                rb = real_blame(vx.build(st, xs), xs, envs)
                if rb and (rb[0][:2] != st[:2] or rb[1] != child_abs):
                    # the operation the backend performed is not the one the tree shows: classify that one
                    return (node_sig(kind, rb[0], rb[1]), "%s with %s: %s; failing node %s = %s over children %s; the backend evaluates the "
                            "rewritten / If-excavated form and its first failing step is %s over %s" % (
                                vx.show(tree), [vsa.show(t) for t in annos], bad[1], vx.show(st), a, child_abs, rb[0][1] if len(rb[0]) > 1 and isinstance(rb[0][1], str) else rb[0][0], rb[1]), vx.show(st))
            return (node_sig(kind, st, child_abs), "%s with %s: %s; failing node %s = %s over children %s" % (
                vx.show(tree), [vsa.show(t) for t in annos], bad[1], vx.show(st), a, child_abs), vx.show(st))
    # every node is locally fine but the whole is not (construction-time rewriting or ITE excavation changed the meaning)
    return ("C24/whole-expression/%s/no-node-blamed" % bad[0], "%s with %s: %s" % (vx.show(tree), [vsa.show(t) for t in annos], bad[1]), vx.show(tree))


def solver_queries(tree, annos, tag):
    """SolverVSA eval/min/max must not exclude a value the expression can take -> None | (sig, what)"""
    import claripy
    vw = [t[0] for t in annos]
    xs = vx.mk_vars(annos, tag)
    envs = envs_of(annos)
    if envs is None:
        return None
    try:
        e = vx.build(tree, xs)
    except Exception:  # noqa
        return None
    vals = sorted({v for v in (vx.ev(tree, env, vw) for env in envs) if v is not None})
    if not vals:
        return None
    w = vx.width(tree, vw)
    s = claripy.SolverVSA()
    try:
        mn, mx = s.min(e), s.max(e)
        ev = s.eval(e, 1 << min(w, 10))
    except Exception as ex:  # noqa
        if type(ex).__name__ == "ClaripyZeroDivisionError":
            return None      # a division by an abstract zero: exempt
        return ("C24/SolverVSA/err:%s" % type(ex).__name__, "%s: %r" % (vx.show(tree), ex))
    if mn is None or mx is None:
        # the abstract value is empty (min/max of an empty interval are None) although the expression takes values
        return ("C24/SolverVSA/min-max-of-empty-value", "%s with %s: min() = %s, max() = %s (empty abstract value) but the value %d occurs" % (
            vx.show(tree), [vsa.show(t) for t in annos], mn, mx, vals[0]))
    if mn > vals[0]:
        return ("C24/SolverVSA/min-too-large", "%s with %s: min() = %d but the value %d occurs" % (vx.show(tree), [vsa.show(t) for t in annos], mn, vals[0]))
    if mx < vals[-1]:
        return ("C24/SolverVSA/max-too-small", "%s with %s: max() = %d but the value %d occurs" % (vx.show(tree), [vsa.show(t) for t in annos], mx, vals[-1]))
    if len(ev) < (1 << min(w, 10)) and any(v not in ev for v in vals):
        return ("C24/SolverVSA/eval-misses-value", "%s with %s: eval lists %d values and misses %d" % (
            vx.show(tree), [vsa.show(t) for t in annos], len(ev), next(v for v in vals if v not in ev)))
    return None


def sat_query(conds, annos, tag):
    import claripy
    vw = [t[0] for t in annos]
    xs = vx.mk_vars(annos, tag)
    envs = envs_of(annos)
    if envs is None:
        return None
    has_model = any(all(vx.ev(c, env, vw) is True for c in conds) for env in envs)
    if not has_model:
        return None
    s = claripy.SolverVSA()
    try:
        for c in conds:
            try:
                b = vx.build(c, xs)
            except Exception:  # noqa
                return None
            s.add(b)
        ok = s.satisfiable()
    except Exception as ex:  # noqa
        if type(ex).__name__ == "ClaripyZeroDivisionError":
            return None
        return ("C24/SolverVSA/satisfiable/err:%s" % type(ex).__name__, repr(ex))
    if not ok:
        return ("C24/SolverVSA/satisfiable-false-with-model", "%s with %s has a model but satisfiable() is False" % (
            [vx.show(c) for c in conds], [vsa.show(t) for t in annos]))
    return None


def correspond(ctx, cases):
    """Lean model of the backend dispatch (Claripy.VSA.Backend) vs the real convert() on the AST claripy hands to the
    backend (after construction-time rewriting and excavate_ite), exact abstract values."""
    import claripy
    from lib import vsa_check as vc
    lines, reals, shown = [], [], []
    stats = collections.Counter()
    for i, (annos, tree) in enumerate(cases):
        xs = vx.mk_vars(annos, "k%d" % i)
        try:
            e = vx.build(tree, xs)
        except Exception:  # noqa
            stats["skipped_build_error"] += 1
            continue
        real = vx.abstract(e)
        if real == ("err", "ClaripyZeroDivisionError"):
            stats["skipped_division_by_zero"] += 1
            continue
        try:
            ex = claripy.excavate_ite(e)
            toks, orders = vx.serialize(ex, {x.args[0]: j for j, x in enumerate(xs)})
        except vx.Unmodelled as u:
            stats["unmodelled:" + str(u).split(" ")[0]] += 1
            continue
        except Exception as u:  # noqa
            stats["unmodelled:" + type(u).__name__] += 1
            continue
        line = "ex %s ; %s ; %s %s" % (" | ".join(vc.fmt_arg(t) for t in annos), " , ".join(" ".join(map(str, o)) for o in orders),
                                      "B" if vx.is_bool(tree) else "V", " ".join(toks))
        lines.append(line)
        if real[0] == "si":
            reals.append(vc.canon(real[1]))
        elif real[0] == "bool":
            reals.append("bool:" + real[1])
        elif real[0] == "err":
            reals.append("err:" + real[1])
        else:
            reals.append(str(real))
        shown.append(vx.show(tree))
    try:
        outs = ctx.driver(lines, exe="driver_vsa") if lines else []
    except RuntimeError as ex_:
        ctx.tie_broken("driver_vsa", str(ex_)[:300])
        return dict(stats)
    bad = 0
    for line, m, r, sh in zip(lines, outs, reals, shown):
        stats["modelled"] += 1
        ctx.cov["traces_validated_against_impl"] += 1
        if m != r:
            bad += 1
            if bad == 1:
                ctx.tie_broken("corr:convert", "%s  [%s] model=%s real=%s" % (sh, line, m, r))
    stats["disagreements"] = bad
    return dict(stats)


def nested_anno(rng, t):
    """an interval inside t with a compatible stride (the join of the two is t itself)"""
    w, s, lb, ub = t
    n = vsa.card(t)
    if n <= 1:
        return t
    i = rng.randrange(n); j = rng.randrange(i, n)
    m = rng.choice([1, 1, 2, 3])
    st = (s * m) if j > i else 0
    cnt = (j - i) // m
    if cnt == 0:
        st = 0
    return vsa.norm(w, st, lb + i * s, lb + i * s + cnt * s * m)


def directed_shared():
    """fixed cases: ONE derived node under two name-keeping contexts (found by the thorough sweep, seed 2: the model gave every
    fresh name `none` and answered {False, True} where the backend - one object, one name per AST - answers False)"""
    x, y = ("var", 0), ("var", 1)
    a5 = [(5, 1, 0, 8), (5, 1, 3, 9)]
    d = ("extract", 4, 2, x)                                  # [0, 2]: non-negative, sext keeps the name
    dn = ("extract", 3, 1, x)                                 # [0, 4]: sext does not keep it
    s5 = ("bin", "add", x, ("const", 1, 5))
    J = ("if", ("cmp", "ULT", y, ("const", 5, 5)), x, y)      # a join
    sel = ("cmp", "ULE", y, ("const", 20, 5))                 # decided: true
    out = []
    for op in ("eq", "ne"):
        out += [
            (a5, ("cmp", op, ("zext", 2, d), ("sext", 2, d))),
            (a5, ("cmp", op, ("zext", 2, dn), ("sext", 2, dn))),
            (a5, ("cmp", op, ("zext", 2, d), ("sext", 2, ("extract", 4, 2, y)))),
            (a5, ("cmp", op, ("extract", 4, 0, s5), ("if", sel, s5, y))),                          # extract-full / selecting If
            (a5, ("cmp", op, ("zext", 1, ("zext", 2, d)), ("zext", 3, d))),                       # different widths, then another zext
            (a5, ("cmp", op, ("zext", 1, ("sext", 2, d)), ("sext", 3, d))),
            (a5, ("cmp", op, ("zext", 1, ("sext", 2, d)), ("zext", 3, d))),
            (a5, ("cmp", op, ("zext", 2, s5), ("zext", 2, s5) if op == "eq" else ("sext", 2, ("bin", "and", s5, ("const", 7, 5))))),
            (a5, ("cmp", op, ("if", sel, ("const", 7, 5), x), ("if", ("cmp", "UGE", y, ("const", 2, 5)), ("const", 7, 5), y))),   # a shared constant
            (a5, ("cmp", op, J, ("if", sel, J, ("const", 3, 5)))),                                  # a shared If join
            (a5, ("cmp", op, ("zext", 2, ("if", sel, d, ("const", 1, 3))), ("sext", 2, d))),
            (a5, ("cmp", op, ("bin", "lshr", s5, ("const", 0, 5)), s5)),                            # a shift makes a new name
        ]
    return out


def gen(ctx, n=None, n_first=0):
    rng = ctx.rng
    cases = directed_shared() if n is None else []
    for k in range(n if n is not None else ctx.pick(14000, 400000)):
        nv = rng.choice([1, 1, 2, 2, 3])
        vw = [rng.choice([1, 2, 3, 3, 4, 4, 5, 6, 8]) for _ in range(nv)]
        if rng.random() < 0.5:
            vw = [vw[0]] * nv            # same widths combine more
        aligned = rng.random() < 0.9
        annos = [rand_anno(rng, w, aligned) for w in vw]
        w = rng.choice(vw)
        depth = rng.choice([1, 1, 2, 2, 3, 4])
        if k % 5 == 4 or k < n_first:
            # the NAME dimension: two derivations of the same variable compared with each other (f(x) cmp x, two joins)
            if len(set(vw)) > 1 or rng.random() < 0.5:
                vw = [vw[0]] * max(nv, 2)
                annos = [rand_anno(rng, vw[0], aligned) for _ in vw]
            if rng.random() < 0.5 and len(annos) >= 2:
                annos[1] = nested_anno(rng, annos[0])
            # every other one of them: ONE derived node under two name-keeping contexts (a fresh name is shared by all
            # occurrences of the sub-AST: the backend converts an AST once)
            tree = vx.gen_shared(rng, vw, annos) if k % 10 == 9 else vx.gen_named(rng, vw)
        else:
            tree = vx.gen_bv(rng, vw, w, depth) if rng.random() < 0.75 else vx.gen_bool(rng, vw, depth)
        cases.append((annos, tree))
    return cases


def sequences(ctx, fails):
    """stateful sequences through the backend (vsa_expr, last section): the converted object of a variable is reused by every
    expression and query, so what it remembers from an earlier query must not leak into a later one"""
    seqs = vx.gen_sequences(ctx.rng, rand_anno, ctx.pick(45, 400), ctx.pick(160, 2000))
    found = collections.defaultdict(list)
    stats = collections.Counter()
    for n, (annos, items, stream) in enumerate(seqs):
        stats[stream] += 1
        stats["items"] += len(items)
        ctx.count(len(items))
        ctx.distinct(("seq", str(annos), len(items), str(items[-1])))
        for k, fkind, detail, r in vx.seq_run(annos, items):
            kind, tree, param = items[k]
            subj = vx.seq_subject(tree)
            alone = vx.seq_run(annos, [items[k]])
            if not alone:
                sig = "C24/%s/%s/state-dependent:%s" % (vx.seq_qname(kind, tree), fkind, vx.seq_outer(subj))
            else:       # fails over fresh variables too: the plain analysis names the node (a query inherits the conversion's finding)
                a = analyse(tree, annos, "sa%d_%d" % (n, k))
                sig = a[0] if a and a != "skip" else "C24/backend-%s/%s/%s" % (vx.seq_qname(kind, tree), fkind, vx.seq_outer(subj))
            found[sig].append((annos[0][0] * 1000 + vsa.card(annos[0]), vx.size(tree), k, annos, items, fkind, detail, r, not alone))
    for sig, lst in sorted(found.items()):
        _, _, k, annos, items, fkind, detail, r, dep = min(lst, key=lambda c: (c[0], c[1], c[2], str(c[3])))
        small = vx.seq_shrink(annos, items, k, fkind) if dep else [items[k]]
        fl = [f for f in vx.seq_run(annos, small) if f[0] == len(small) - 1 and f[1] == fkind]
        if fl:
            detail, r = fl[0][2], fl[0][3]
        else:
            small = items[:k + 1]
        what = "%s: the last answer is %s - %s%s  [%d case(s)]" % (vx.seq_show(annos, small), r[1] if r[0] != "dsis" else r, detail,
                                                                  "; asked alone over fresh variables the last item is answered correctly" if dep else "", len(lst))
        ctx.violation(sig, what, {"seq_case": True, "annos": [list(t) for t in annos], "items": small, "failure": fkind})
        fails[sig].extend([None] * len(lst))
    ctx.cov["sequence_stream"] = {
        "sequences": len(seqs), "status": dict(stats),
        "rule": "items over ONE set of variables, executed in order: query x (ten comparisons against pole constants both orders via convert / is_true / "
                "is_false / has_true / has_false, convert, min/max signed/unsigned, eval, cardinality, solution) -> the same for every derivation d(x) "
                "(neg, not, zero/sign extension, extract, shifts and arithmetic by constants, concat) -> x again; and two levels deep; oracle = values of "
                "the tree over every assignment; a failing item is re-run alone over fresh variables (passing there = state-dependent)"}


def run(ctx):
    logging.disable(logging.CRITICAL)
    ctx.cov["trusted_base"] += [
        "concrete meaning of expression trees: harness/lib/vsa_expr.py:ev (SMT-LIB bit-vector semantics, independent of claripy); trees are built into claripy ASTs by vsa_expr.build",
    ]
    ctx.cov["rule"] = ("case = expression tree (depth <= 3; + - * & | ^ ~ neg udiv urem shl lshr ashr zext sext extract concat If, 10 comparisons, And/Or/Not) over 1..3 "
                       "variables of width 1..6 annotated with strided intervals; every assignment of the variables is enumerated (<= 1500); "
                       "non-trivial = the tree has at least one operator; distinct = distinct (annotations, tree)")
    ctx.prove("ClaripyProofs.Props.C24", THEOREMS, tests=TESTS, driver_exe="driver_vsa")
    cases = gen(ctx)
    corr_stats = correspond(ctx, cases)
    ctx.cov["correspondence"] = corr_stats
    fails = collections.defaultdict(list)
    ops_seen = collections.Counter()
    skipped = 0
    if corr_stats.get("disagreements"):
        # the model/code tie is broken: more search budget, half of it on the name dimension (two derivations of one variable)
        extra = gen(ctx, n=ctx.pick(8000, 60000), n_first=ctx.pick(4000, 30000))
        ctx.cov["extra_search_after_broken_tie"] = len(extra)
        cases = cases + extra
    for i, (annos, tree) in enumerate(cases):
        ctx.count()
        if vx.size(tree) > 1:
            ctx.distinct((str(annos), str(tree)))
        for st in vx.subtrees(tree):
            ops_seen[st[1] if st[0] in ("bin", "un", "cmp") else st[0]] += 1
        r = analyse(tree, annos, "c%d" % i)
        if r == "skip":
            skipped += 1
            continue
        if r:
            fails[r[0]].append((vx.size(tree), r[1], annos, tree))
        # SolverVSA answers come from the same abstract values: a wrong answer on an expression whose conversion is
        # already unsound is the same finding (same signature); otherwise it is a finding of the frontend itself
        if not vx.is_bool(tree) and i % 3 == 0:
            q = solver_queries(tree, annos, "q%d" % i)
            if q:
                sig = r[0] if r else q[0]
                fails[sig].append((vx.size(tree), q[1] + ("  (consequence of the unsound conversion)" if r else ""), annos, tree))
        if vx.is_bool(tree):
            extra = [vx.gen_bool(ctx.rng, [t[0] for t in annos], 1)] if ctx.rng.random() < 0.5 else []
            q = sat_query([tree] + extra, annos, "s%d" % i)
            if q:
                cause = r
                for c in extra:
                    if not cause:
                        rc = analyse(c, annos, "x%d" % i)
                        cause = rc if rc and rc != "skip" else None
                sig = cause[0] if cause else q[0]
                fails[sig].append((vx.size(tree), q[1] + ("  (consequence of the unsound conversion)" if cause else ""), annos, tree))
    for sig, lst in sorted(fails.items()):
        sz, what, annos, tree = min(lst, key=lambda c: (c[0], len(c[1])))
        ctx.violation(sig, what + "  [%d case(s)]" % len(lst), {"annos": [list(t) for t in annos], "tree": tree})
    sequences(ctx, fails)
    ctx.cov["operators_seen"] = dict(ops_seen)
    ctx.cov["skipped_too_many_assignments"] = skipped
    ctx.cov["failing_classes_seen"] = {k: len(v) for k, v in sorted(fails.items())}
    for annos, tree in cases[:3]:
        ctx.sample({"annotations": [vsa.show(t) for t in annos], "tree": vx.show(tree)})


def _tuplify(x):
    return tuple(_tuplify(y) for y in x) if isinstance(x, list) else x


def replay(ctx, obj):
    logging.disable(logging.CRITICAL)
    r = obj["replay"]
    annos = [tuple(t) for t in r["annos"]]
    if r.get("seq_case"):
        items = [_tuplify(i) for i in r["items"]]
        print("sequence:", vx.seq_show(annos, items))
        fl = vx.seq_run(annos, items)
        for k, fkind, detail, res in fl:
            print("VIOLATION property=C24 replay=(given)"); print("failure: item %d %s - %s (answer %s)" % (k, fkind, detail, res))
        if not fl:
            print("no failure on the current tree")
        return 1 if fl else 0
    tree = _tuplify(r["tree"])
    print("expression:", vx.show(tree), "annotations:", [vsa.show(t) for t in annos])
    res = analyse(tree, annos, "replay")
    q = None if vx.is_bool(tree) else solver_queries(tree, annos, "replayq")
    s = sat_query([tree], annos, "replays") if vx.is_bool(tree) else None
    for x in (res, q, s):
        if x and x != "skip":
            print("VIOLATION property=C24 replay=(given)"); print("failure:", x[0], "-", x[1])
            return 1
    print("no failure on the current tree")
    return 0
