"""C10 — cheap truth checks never claim a truth value that does not hold.

prove:       ClaripyProofs.Props.C10 (C10_history: any history of is_true/is_false queries from empty caches; cache invariant)
correspond:  answers of random query histories (repeats, shuffled, cache hits) on the real claripy.is_true/is_false vs the Lean
             `truth` run of the same history; the real cache contents are audited (every positive entry must be correct)
oracle:      a True answer implies validity / unsatisfiability (all or sampled assignments); also through Bool.is_true()/is_false();
             solver-level is_true/is_false: True only if the expression holds in every model of constraints + extra constraints
             (brute force over small domains)
"""
import collections, itertools

import claripy

from lib import exprs as E, exprgen as G, exprcheck as X

THEOREMS = ["Claripy.Props.C10.C10_history", "Claripy.Props.C10.C10_from_empty", "Claripy.Props.C10.isTrue_step",
            "Claripy.Props.C10.isFalse_step", "Claripy.Props.C10.isTrueCore_sound", "Claripy.Props.C10.isFalseCore_sound",
            "Claripy.Props.C10.beq_eq"]


class Keep(claripy.Annotation):
    eliminatable = False
    relocatable = False

    def __init__(self, n):
        self.n = n

    def __hash__(self):
        return hash(("K10", self.n))

    def __eq__(self, o):
        return isinstance(o, Keep) and o.n == self.n


class HybridApprox(claripy.SolverHybrid):
    """SolverHybrid queried through its approximating (VSA) path"""

    def is_true(self, e, extra_constraints=(), exact=None):
        return super().is_true(e, extra_constraints=extra_constraints, exact=False)

    def is_false(self, e, extra_constraints=(), exact=None):
        return super().is_false(e, extra_constraints=extra_constraints, exact=False)


APPROX = (claripy.SolverVSA, HybridApprox)
# constraints of an approximating frontend go through constraint_to_si (property C25's subject).  The C25 witnesses found
# here (x[1:0] == 2 bounded x to {2}; a Bool == Bool truism crashed the balancer) are fixed, so the approximating frontends are
# queried under constraints as well.
APPROX_WITH_CONSTRAINTS = True


def build_unfolded(t, rng, p, ctr):
    """build with Keep annotations sprinkled on constants so that concrete sub-trees stay unfolded"""
    r = E.build_leaf(t)
    if r is None:
        args = [build_unfolded(x, rng, p, ctr) for x in t[1:]]
        r = E.apply_op(t[0], args)
    elif t[0] in ("bvv", "boolv") and rng.random() < p:
        ctr[0] += 1
        r = r.annotate(Keep(ctr[0]))
    return r


def const_bool(rng, w, depth):
    """a variable-free Boolean tree"""
    def cbv(d):
        if d <= 0 or rng.random() < 0.3:
            return G.const(rng, w)
        return (rng.choice(["add", "sub", "and", "or", "xor", "mul", "shl", "lshr"]), cbv(d - 1), cbv(d - 1))
    r = rng.random()
    if depth <= 0 or r < 0.5:
        return (rng.choice(G.BV_CMP), cbv(depth), cbv(depth))
    if r < 0.7:
        return ("Not", const_bool(rng, w, depth - 1))
    return (rng.choice(["And", "Or"]), const_bool(rng, w, depth - 1), const_bool(rng, w, depth - 1))


def valid_status(t, rng):
    """-> (always_true, always_false) over all / sampled assignments"""
    vs = E.variables(t)
    envs = E.all_envs(vs, 10) or E.sample_envs(vs, rng, 64)
    vals = set()
    for env in envs:
        vals.add(E.ev(t, env)[1])
        if len(vals) == 2:
            break
    return vals == {True}, vals == {False}


def run(ctx):
    ctx.cov["trusted_base"] += [
        "modelled: bool_check.is_true/is_false, Backend.is_true/is_false caching, the concrete backend's verdict as 'variable-free and evaluates to the literal' "
        "(the evaluation itself is the folding model of C01/C04; agreement is checked on every query)",
        "cache keys are AST hashes; they are identified with structure (C06)",
        "solver-level is_true/is_false: proved for the SolverCacheless mixin stack (C11_is_true_false_sound, given a sound cheap backend test); the other "
        "solver classes are validated by the brute-force oracle here (histories over a tree of branched solvers)",
    ]
    ctx.cov["rule"] = ("cases = histories of 6..40 is_true/is_false queries over pools of Boolean expressions: variable-free but unfolded (annotations block "
                       "folding), symbolic tautologies/contradictions, ordinary symbolic ones; each expression queried several times in shuffled order; "
                       "non-trivial = history with at least one cache hit and one True answer; distinct = history")
    ctx.prove("ClaripyProofs.Props.C10", THEOREMS)
    # solver level (SolverCacheless stack, from the generated MRO): a True from is_true/is_false holds in every model of constraints ++ extra
    ctx.prove("ClaripyProofs.Props.C11", ["Claripy.Props.C11.C11_is_true_false_sound", "Claripy.Solver.clTruth_spec", "Claripy.Solver.clStage_isTrue",
                                          "Claripy.Solver.clStage_isFalse"], driver_exe="driver_solver")
    rng = ctx.rng
    conc = claripy.backends.concrete
    nh = ctx.pick(250, 4000)
    lines, wants = [], []
    ctr = [0]
    stats = collections.Counter()
    for h in range(nh):
        w = rng.choice([1, 2, 3, 4, 8])
        pool = []
        for _ in range(rng.choice([2, 4, 6])):
            k = rng.random()
            if k < 0.45:
                t = const_bool(rng, w, rng.choice([0, 1, 2]))
                try:
                    a = build_unfolded(t, rng, 0.6, ctr)
                except Exception:
                    continue
            elif k < 0.7:
                x = G.var(rng, w)
                t = rng.choice([("eq", x, x), ("ne", x, x), ("Or", ("ult", x, G.const(rng, w)), ("uge", x, x)), ("And", ("ult", x, x), ("bools", "p")),
                                ("uge", x, ("bvv", 0, w)), ("ule", x, ("bvv", (1 << w) - 1, w))])
                a, _, e = X.build_case(t)
                if e is not None:
                    continue
            else:
                t = G.rand_bool(rng, w, rng.choice([1, 2]))
                if rng.random() < 0.4:
                    # the shapes the simplifiers look for, and their near misses: what is judged is the WRITTEN formula
                    name_, t2 = G.near_miss(rng) if rng.random() < 0.5 else G.rule_directed(rng)
                    if E.is_bool(t2) and all(wd <= 12 for wd in E.variables(t2).values()):
                        t = t2
                a, _, e = X.build_case(t)
                if e is not None:
                    continue
            if not isinstance(a, claripy.ast.Bool):
                continue
            try:
                pool.append((a, E.from_ast(a), t))
            except E.Unsupported:
                pass
        if not pool:
            continue
        conc._true_cache.clear(); conc._false_cache.clear()
        qs = []
        written = {}      # what the caller wrote: a True answer is judged against THAT formula (the built AST may already be wrong)
        for _ in range(rng.choice([6, 12, 24, 40])):
            a, at, wt = rng.choice(pool)
            kind = rng.choice("TF")
            qs.append((kind, a, at))
            written[a.hash()] = wt
        answers = []
        hits = 0
        byhash = {}
        for kind, a, at in qs:
            ctx.count()
            byhash[a.hash()] = at
            before = (a.hash() in conc._true_cache) if kind == "T" else (a.hash() in conc._false_cache)
            hits += before
            route = rng.random()
            if route < 0.5:
                ans = claripy.is_true(a) if kind == "T" else claripy.is_false(a)
            else:
                ans = a.is_true() if kind == "T" else a.is_false()
            answers.append(ans)
            if ans:
                stats["true_answers"] += 1
                at_true, at_false = valid_status(written[a.hash()], rng)
                if (kind == "T" and not at_true) or (kind == "F" and not at_false):
                    ctx.violation("C10/%s/claimed-but-not-%s" % ("is_true" if kind == "T" else "is_false", "valid" if kind == "T" else "unsat"),
                                  "%s(%s) returned True but the expression is not %s" % ("is_true" if kind == "T" else "is_false", E.sexpr(at),
                                                                                         "valid" if kind == "T" else "unsatisfiable"),
                                  {"kind": kind, "tree": at, "history": [(k, E.sexpr(t)) for k, _, t in qs]})
        # audit the real caches: every positive entry must be a correct verdict
        for hsh, v in conc._true_cache.items():
            if v is True and hsh in byhash and not valid_status(byhash[hsh], rng)[0]:
                ctx.violation("C10/_true_cache/wrong-positive-entry", "cached True for %s" % E.sexpr(byhash[hsh]), {"tree": byhash[hsh]})
        for hsh, v in conc._false_cache.items():
            if v is True and hsh in byhash and not valid_status(byhash[hsh], rng)[1]:
                ctx.violation("C10/_false_cache/wrong-positive-entry", "cached True (is_false) for %s" % E.sexpr(byhash[hsh]), {"tree": byhash[hsh]})
        if hits and any(answers):
            ctx.distinct(tuple((k, a.hash()) for k, a, _ in qs))
        stats["cache_hits"] += hits
        lines.append("truth " + " ;; ".join("%s %s" % (k, E.sexpr(t)) for k, _, t in qs))
        wants.append("".join("1" if x else "0" for x in answers))
    outs = ctx.driver(lines) if lines else []
    agree = 0
    for l, o, w_ in zip(lines, outs, wants):
        if o.split(" ")[0] != w_:
            ctx.tie_broken("corr:is_true/is_false", "%s: model answers %s real %s" % (l[:400], o, w_))
            break
        agree += 1
    conc._true_cache.clear(); conc._false_cache.clear()
    # ---- floating point: comparisons are not reflexive (NaN); a True answer must survive every sampled assignment
    import math, operator
    fvals = [float("nan"), 0.0, -0.0, 1.0, -1.0, float("inf"), float("-inf"), 5e-324, 2.5, -2.5]
    nfp = 0
    for it in range(ctx.pick(150, 2500)):
        sort = rng.choice([claripy.FSORT_DOUBLE, claripy.FSORT_FLOAT])
        f, g = claripy.FPS("tf", sort, explicit_name=True), claripy.FPS("tg", sort, explicit_name=True)

        def operand():
            r_ = rng.random()
            if r_ < 0.4:
                return f, (lambda a, b: a)
            if r_ < 0.7:
                return g, (lambda a, b: b)
            v = rng.choice(fvals[:7] + [2.5])
            return claripy.FPV(v, sort), (lambda a, b, v=v: v)

        def atom():
            name, py = rng.choice([("fpEQ", operator.eq), ("fpNEQ", operator.ne), ("fpLT", operator.lt), ("fpLEQ", operator.le), ("fpGT", operator.gt),
                                   ("fpGEQ", operator.ge), ("==", operator.eq), ("!=", operator.ne)])
            (l, lf) = operand()
            (r, rf) = (l, lf) if rng.random() < 0.5 else operand()
            if name == "==":
                a_ = l == r
            elif name == "!=":
                a_ = l != r
            else:
                a_ = getattr(claripy, name)(l, r)
            return a_, (lambda a, b: py(lf(a, b), rf(a, b)))
        k_ = rng.random()
        if k_ < 0.5:
            e, ef = atom()
        elif k_ < 0.65:
            e1, f1 = atom(); e, ef = claripy.Not(e1), (lambda a, b: not f1(a, b))
        else:
            (e1, f1), (e2, f2) = atom(), atom()
            if rng.random() < 0.5:
                e, ef = claripy.And(e1, e2), (lambda a, b: f1(a, b) and f2(a, b))
            else:
                e, ef = claripy.Or(e1, e2), (lambda a, b: f1(a, b) or f2(a, b))
        if not isinstance(e, claripy.ast.Bool):
            continue
        ctx.count()
        nfp += 1
        truth = {bool(ef(a, b)) for a in fvals for b in fvals}
        for kind, fns in (("T", (claripy.is_true, lambda z: z.is_true(), claripy.Solver().is_true)), ("F", (claripy.is_false, lambda z: z.is_false(), claripy.Solver().is_false))):
            for fn in fns:
                if fn(e) and ((kind == "T" and False in truth) or (kind == "F" and True in truth)):
                    cex = next((a, b) for a in fvals for b in fvals if bool(ef(a, b)) == (kind != "T"))
                    ctx.violation("C10/%s/fp-claimed-but-refuted" % ("is_true" if kind == "T" else "is_false"),
                                  "%s(%r) returned True but tf=%r, tg=%r refutes it" % ("is_true" if kind == "T" else "is_false", e, cex[0], cex[1]),
                                  {"expr": repr(e), "kind": kind, "tf": repr(cex[0]), "tg": repr(cex[1])})
                    break
    stats["fp_expressions"] = nfp
    # ---- solver level: True only if it holds in every model of the constraints (+ extra constraints)
    for cls in (claripy.Solver, claripy.SolverCacheless, claripy.SolverComposite, claripy.SolverHybrid, claripy.SolverReplacement, claripy.SolverVSA,
                HybridApprox):
        for it in range(ctx.pick(60, 600)):
            w = 3
            x, y = claripy.BVS("sx", w, explicit_name=True), claripy.BVS("sy", w, explicit_name=True)
            atoms = [claripy.ULT(x, rng.randrange(8)), x == rng.randrange(8), x + y == rng.randrange(8), claripy.UGE(y, rng.randrange(8)),
                     x != y, claripy.SLT(x, y), (x & 1) == 0, claripy.Or(x == 1, y == 2)]
            # Boolean (dis)equalities and tautologies/contradictions an abstract backend may be tempted to decide
            atoms += [rng.choice(atoms) == rng.choice(atoms), rng.choice(atoms) != rng.choice(atoms), rng.choice(atoms) != claripy.true(),
                      claripy.false() == rng.choice(atoms), claripy.UGE(x, 0), claripy.ULT(x, 0), claripy.And(rng.choice(atoms), rng.choice(atoms)),
                      x.zero_extend(2) == x.sign_extend(2), claripy.If(rng.choice(atoms), x, y) == x]
            cons = rng.sample(atoms, rng.choice([0, 1, 2]))
            extra = rng.sample(atoms, rng.choice([0, 0, 1]))
            if cls in APPROX and not APPROX_WITH_CONSTRAINTS:
                cons, extra = [], []
            # a history over a tree of solvers: add / branch / query, every True answer checked against the models of THAT solver
            family = [(cls(), [])]
            hist = []
            try:
                family[0][0].add(cons)
                family[0][1].extend(cons)
                hist.append(("add", 0, [repr(c) for c in cons]))
                queries = rng.sample(atoms, 3) + [claripy.Not(rng.choice(atoms))]
                for step in range(rng.choice([4, 8, 14])):
                    r_ = rng.random()
                    i_ = rng.randrange(len(family))
                    s, scons = family[i_]
                    if r_ < 0.2 and len(family) < 5:
                        family.append((s.branch(), list(scons)))
                        hist.append(("branch", i_))
                        continue
                    if r_ < 0.4 and not (cls in APPROX and not APPROX_WITH_CONSTRAINTS):
                        c_ = rng.choice(atoms) if rng.random() < 0.6 else rng.choice([x, y]) == rng.randrange(8)    # equalities pin variables (replacements)
                        s.add(c_)
                        scons.append(c_)
                        hist.append(("add", i_, [repr(c_)]))
                        continue
                    q = rng.choice(queries)
                    ex_ = extra if rng.random() < 0.5 else []
                    models = [(a, b) for a in range(8) for b in range(8)
                              if all(E.ev(E.from_ast(c), {"sx": a, "sy": b})[1] for c in scons + ex_)]
                    ctx.count()
                    qt = E.from_ast(q)
                    vals = {E.ev(qt, {"sx": a, "sy": b})[1] for a, b in models}
                    both = [("T", s.is_true), ("F", s.is_false)]
                    if rng.random() < 0.5:
                        both.reverse()          # the two caches must not feed each other, whichever is asked first
                    for kind, fn in both:
                        ans = fn(q, extra_constraints=tuple(ex_))
                        hist.append(("is_true" if kind == "T" else "is_false", i_, repr(q), [repr(c) for c in ex_], ans))
                        if ans and ((kind == "T" and False in vals) or (kind == "F" and True in vals)):
                            ctx.violation("C10/%s.%s/not-entailed" % (cls.__name__, "is_true" if kind == "T" else "is_false"),
                                          "%s(constraints=%s).%s(%s, extra=%s) is True but a model disagrees (solver %d of a history with %d branches)" % (
                                              cls.__name__, scons, "is_true" if kind == "T" else "is_false", q, ex_, i_, len(family) - 1),
                                          {"solver": cls.__name__, "constraints": [repr(c) for c in scons], "query": repr(q), "extra": [repr(c) for c in ex_],
                                           "history": hist})
            except claripy.errors.ClaripyError:
                continue
            except (AttributeError, TypeError, ValueError) as ex:
                # a crash while adding/querying is not a wrong truth value; it is noted (and passed on to the family that owns the code)
                stats["solver_history_crashes"] += 1
                if stats["solver_history_crashes"] <= 3:
                    ctx.notes.append("%s history crashed with %r after %r" % (cls.__name__, ex, hist[-1:]))
                continue
    # ---- solver level with floats: constraints that pin a float only up to IEEE equality (fpEQ(x, +0.0) has the models +0.0
    # and -0.0; fpEQ(x, x) excludes NaN) and queries that tell such values apart
    import struct as _struct

    def f2b(v):
        return _struct.unpack("<Q", _struct.pack("<d", v))[0]
    cand = [0.0, -0.0, 1.0, -1.0, 2.5, float("inf"), float("-inf"), float("nan"), 5e-324, -5e-324]
    nfs = 0
    for cls in (claripy.Solver, claripy.SolverCacheless, claripy.SolverComposite, claripy.SolverHybrid, claripy.SolverReplacement):
        for it in range(ctx.pick(25, 250)):
            tf = claripy.FPS("sf", claripy.FSORT_DOUBLE, explicit_name=True)
            k = rng.choice([0.0, -0.0, 1.0, 2.5, float("inf")])
            K = claripy.FPV(k, claripy.FSORT_DOUBLE)
            cons_pool = [(claripy.fpEQ(tf, K), lambda v, k=k: v == k), (claripy.fpEQ(K, tf), lambda v, k=k: v == k), (tf == K, lambda v, k=k: v == k),
                         (claripy.fpLEQ(tf, K), lambda v, k=k: v <= k), (claripy.fpGEQ(tf, K), lambda v, k=k: v >= k), (claripy.fpEQ(tf, tf), lambda v: v == v),
                         (claripy.Not(claripy.fpIsNaN(tf)), lambda v: v == v), (claripy.fpIsInf(tf), lambda v: v in (float("inf"), float("-inf")))]
            q_pool = [(claripy.fpToIEEEBV(tf) == f2b(k), lambda v, k=k: v == v and f2b(v) == f2b(k)), (claripy.fpToIEEEBV(tf)[63:63] == 1, lambda v: v == v and f2b(v) >> 63 == 1),
                      (claripy.fpIsNaN(tf), lambda v: v != v), (claripy.fpLT(tf, K), lambda v, k=k: v < k), (claripy.fpEQ(tf, K), lambda v, k=k: v == k),
                      (claripy.fpGT(claripy.fpDiv(claripy.fp.RM.RM_NearestTiesEven, claripy.FPV(1.0, claripy.FSORT_DOUBLE), tf), claripy.FPV(0.0, claripy.FSORT_DOUBLE)),
                       lambda v: (v > 0 or (v == 0 and f2b(v) == 0)) and v != float("inf") or v == float("inf") and False or (v == 0 and f2b(v) == 0)),
                      (claripy.fpNeg(tf) == K, lambda v, k=k: (-v) == k)]
            chosen = rng.sample(cons_pool, rng.choice([1, 1, 2]))
            sol = cls()
            try:
                for c_, _ in chosen:
                    sol.add(c_)
                models = [v for v in cand if all(fn(v) for _, fn in chosen)]
                for q, qf in rng.sample(q_pool, 3):
                    if q is q_pool[5][0]:
                        # 1/x > 0: written out (the lambda above is only a placeholder): true for +0.0 (1/+0 = +inf) and positive finite values
                        qf = lambda v: (v > 0 and v != float("inf")) or (v == 0 and f2b(v) == 0)      # noqa: E731
                    vals = {bool(qf(v)) for v in models}
                    both = [("T", sol.is_true), ("F", sol.is_false)]
                    if rng.random() < 0.5:
                        both.reverse()
                    ctx.count(); nfs += 1
                    for kind, fn in both:
                        if fn(q) and ((kind == "T" and False in vals) or (kind == "F" and True in vals)):
                            cex = next(v for v in models if bool(qf(v)) == (kind != "T"))
                            ctx.violation("C10/%s.%s/fp-not-entailed" % (cls.__name__, "is_true" if kind == "T" else "is_false"),
                                          "%s(constraints=%s).%s(%r) is True but sf = %r (bits %#x) satisfies the constraints and refutes it" % (
                                              cls.__name__, [c_ for c_, _ in chosen], "is_true" if kind == "T" else "is_false", q, cex, f2b(cex)),
                                          {"solver": cls.__name__, "constraints": [repr(c_) for c_, _ in chosen], "query": repr(q), "value_bits": f2b(cex)})
            except claripy.errors.ClaripyError:
                continue
    stats["fp_solver_queries"] = nfs
    # ---- the Z3 backend asked directly, from fresh threads that run strictly one after the other (each thread has its own Z3
    # context, so converted expressions and their ids start afresh): a True answer must hold for every assignment
    import threading
    z3b = claripy.backends.z3
    for rnd in range(ctx.pick(25, 300)):
        w = 3
        x, y = claripy.BVS("sx", w, explicit_name=True), claripy.BVS("sy", w, explicit_name=True)

        def mk():
            a_, b_ = rng.sample([x + y, y + x, x - y, y - x, x & y, x | y, x ^ y, x * 3, x, y, claripy.BVV(rng.randrange(8), w)], 2)
            cmp_ = rng.choice([claripy.ULE, claripy.ULT, claripy.UGE, claripy.UGT, claripy.SLE, claripy.SLT, lambda p_, q_: p_ == q_, lambda p_, q_: p_ != q_])
            e_ = cmp_(a_, b_)
            if rng.random() < 0.25:
                e_ = claripy.Or(e_, rng.choice([claripy.UGE(x, 0), x == x + 0, claripy.ULT(y, y)])) if rng.random() < 0.5 else claripy.And(e_, x + y == y + x)
            return e_
        scripts = []
        for t_ in range(rng.choice([2, 3, 4])):
            qs = [q for q in (mk() for _ in range(rng.choice([2, 4, 8]))) if isinstance(q, claripy.ast.Bool) and q.symbolic]
            scripts.append(qs)
        bad = []

        def worker(qs):
            for q in qs:
                try:
                    qt = E.from_ast(q)
                except E.Unsupported:
                    continue
                vals = {E.ev(qt, {"sx": a, "sy": b})[1] for a in range(8) for b in range(8)}
                both = [("T", z3b.is_true), ("F", z3b.is_false)]
                if len(repr(q)) % 2:
                    both.reverse()
                for kind, fn in both:
                    try:
                        ans = fn(q)
                    except claripy.errors.ClaripyError:
                        continue
                    if ans and ((kind == "T" and False in vals) or (kind == "F" and True in vals)):
                        bad.append((kind, q))
        for qs in scripts:
            th = threading.Thread(target=worker, args=(qs,))
            th.start(); th.join()
            ctx.count()
        stats["z3_backend_thread_scripts"] += len(scripts)
        if bad:
            kind, q = bad[0]
            ctx.violation("C10/backends.z3.%s/not-valid-in-another-thread" % ("is_true" if kind == "T" else "is_false"),
                          "backends.z3.%s(%r) answered True in a fresh thread although the expression can be %s (threads ran one after the other)" % (
                              "is_true" if kind == "T" else "is_false", q, "False" if kind == "T" else "True"),
                          {"scripts": [[repr(q_) for q_ in qs] for qs in scripts], "query": repr(q), "kind": kind})
            break
        if rng.random() < 0.1:
            z3b.downsize()
    ctx.cov["traces_validated_against_impl"] = agree
    ctx.cov["input_distribution"] = {"histories": len(lines), "queries": sum(len(w_) for w_ in wants), **dict(stats)}
    if lines:
        ctx.sample({"history": lines[0][:300], "answers": wants[0]})


def replay(ctx, obj):
    r = obj["replay"]

    def tup(t):
        return tuple(tup(x) if isinstance(x, list) else x for x in t)
    if "tree" in r and "kind" in r:
        t = tup(r["tree"])
        a = E.build(t)
        ans = claripy.is_true(a) if r["kind"] == "T" else claripy.is_false(a)
        st = valid_status(t, ctx.rng)
        print(E.sexpr(t), "answer:", ans, "valid/unsat:", st)
        if ans and not (st[0] if r["kind"] == "T" else st[1]):
            print("VIOLATION property=C10 replay=(given)"); return 1
        return 0
    print(r); return 1
