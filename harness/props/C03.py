"""C03 — string operations mean the same folded and solved, for every character; literals reach the solver as written.

prove (Lean: model of backend_concrete/strings.py = SMT-LIB spec for every input; literal codec round trips)
-> correspondence (Lean model vs the real concrete functions; Lean codec vs real z3py / Z3 / claripy functions)
-> oracle on the real code (folded result vs independent SMT-LIB reference vs claripy's own Z3 translation evaluated by Z3;
   literal in / out; end-to-end through a real Solver)."""
import inspect

from lib import fs_str as F

THEOREMS = [
    "Claripy.Props.C03.concat_spec", "Claripy.Props.C03.len_spec", "Claripy.Props.C03.substr_spec",
    "Claripy.Props.C03.replace_spec", "Claripy.Props.C03.contains_spec", "Claripy.Props.C03.prefixof_spec",
    "Claripy.Props.C03.suffixof_spec", "Claripy.Props.C03.indexof_spec", "Claripy.Props.C03.toint_spec",
    "Claripy.Props.C03.fromint_spec", "Claripy.Props.C03.eq_spec", "Claripy.Props.C03.ne_spec",
    "Claripy.Props.C03.find_spec", "Claripy.Props.C03.findAt_sound", "Claripy.Props.C03.findAt_least",
    "Claripy.Props.C03.findAt_complete", "Claripy.Props.C03.fromInt_toInt", "Claripy.Props.C03.contains_char",
    "Claripy.Props.C03.replace_char", "Claripy.Props.C03.indexof_char",
    "Claripy.Props.C03.literal_roundtrip", "Claripy.Props.C03.literal_rejects_big", "Claripy.Props.C03.extract_roundtrip",
    "Claripy.Props.C03.literal_unescaped_backslash_wrong", "Claripy.Props.C03.extract_undecoded_wrong",
    "Claripy.Props.C03.python_int_is_not_to_int", "Claripy.Props.C03.regex_prefix_is_not_prefixof",
    "Claripy.Props.C03.indexof_unguarded_wrong",
]
TESTS = ["Claripy.Props.C03.test_ops_small"]


# ----------------------------------------------------------------------------------------------------------------------
def classify(op, a, got):
    """finding signature: property / call site / predicate class of the input"""
    kind = got[0] if got[0] in ("err", "unfolded") else "value"
    if op in ("StrPrefixOf", "StrSuffixOf"):
        p, s = a
        meta = set(map(ord, ".^$*+?{}[]\\|()"))
        if any(c in meta for c in p):
            cls = "pattern-has-regex-metacharacter"
        elif 10 in s or 10 in p:
            cls = "newline-in-operand"
        else:
            cls = "plain-operands"
    elif op == "StrToInt":
        s = a[0]
        if not s:
            cls = "empty"
        elif all(48 <= c <= 57 for c in s):
            cls = "ascii-digits-len>%d" % (4300 if len(s) > 4300 else 19 if len(s) > 19 else 0)
        elif s[0] in (43, 45):
            cls = "leading-sign"
        elif any(c > 127 for c in s):
            cls = "non-ascii-character"
        elif any(c in (32, 9, 10, 11, 12, 13) for c in s):
            cls = "whitespace"
        elif 95 in s:
            cls = "underscore"
        else:
            cls = "other-non-digit"
    elif op == "StrIndexOf":
        s, t, i = a
        cls = ("start-past-end" if i > len(s) else "start-at-end" if i == len(s) else "start-inside") + \
              ("/empty-pattern" if not t else "")
    elif op == "StrSubstr":
        i, n, s = a
        cls = ("start>=len" if i >= len(s) else "start<len") + ("/count=0" if n == 0 else "/count>=2^63" if n >= 1 << 63 else "")
    elif op == "StrReplace":
        cls = "empty-pattern" if not a[1] else "pattern"
    elif op == "IntToStr":
        cls = "n>=2^63" if a[0] >= 1 << 63 else "n"
    elif op in ("__eq__", "__ne__"):
        cls = "equal-values" if a[0] == a[1] else "different-values"
    else:
        cls = "any"
    return "C03/%s/%s/%s" % (op, cls, kind)


def gen_cases(ctx):
    rng = ctx.rng
    A = F.ALPHABET
    S1 = F.strings_upto(A, 1)
    S2 = F.strings_upto(A, 2)
    S3 = F.strings_upto(A, 3) if ctx.thorough() else None
    mult = ctx.pick(1, 24)
    cases = []

    def rs(maxlen=3):
        return tuple(rng.choice(A) for _ in range(rng.randrange(maxlen + 1)))

    def rlong():
        return tuple(rng.choice(A) for _ in range(rng.randrange(4, 13)))

    def sub_of(s):
        if not s:
            return ()
        i = rng.randrange(len(s))
        return s[i:i + rng.randrange(0, 3)]

    for op in F.OPS:
        sig = F.SIG[op]
        if sig == "s":
            for s in (S3 if S3 and op == "StrLen" else S2):
                cases.append((op, (s,)))
            if op == "StrToInt":
                digs = [48 + d for d in range(10)]
                for _ in range(150 * mult):
                    n = rng.choice([1, 2, 5, 18, 19, 20, 21, 25, 40])
                    cases.append((op, (tuple(rng.choice(digs) for _ in range(n)),)))
                for s in ["18446744073709551615", "18446744073709551616", "18446744073709551617", "9223372036854775808",
                          "00", "007", "+5", "-5", "-0", " 5", "5 ", "\t5", "1_0", "1__0", "_1", "0x10", "1e3", "1.0", "٥", "５",
                          "٣٤", "5\n", "\n5", "\x0c7", "0" * 30 + "9", "9" * 4301, "1" + "0" * 5000, "-" + "9" * 4400]:
                    cases.append((op, (F.cps(s),)))
            for _ in range(100 * mult):
                cases.append((op, (rlong(),)))
        elif sig == "i":
            for i in F.index_pool(0, 1, 2) + [9, 10, 11, 99, 100, 101, 12345678901234567890, 10 ** 19, 10 ** 19 - 1]:
                cases.append((op, (i,)))
            for _ in range(100 * mult):
                cases.append((op, (rng.getrandbits(rng.choice([4, 8, 16, 33, 64])),)))
        elif sig == "ss":
            for a in S1:
                for b in S2:
                    cases.append((op, (a, b)))
                    cases.append((op, (b, a)))
            for _ in range(400 * mult):
                cases.append((op, (rs(), rs())))
            for _ in range(300 * mult):
                s = rlong()
                t = rng.choice([s[:rng.randrange(len(s))], s[rng.randrange(len(s)):], sub_of(s), rs(2)])
                cases.append((op, (t, s)))
                cases.append((op, (s, t)))
        elif sig == "iis":
            for s in S1 + [rs() for _ in range(12 * mult)] + [rlong() for _ in range(12 * mult)]:
                P = F.index_pool(len(s))
                for i in P:
                    for n in P:
                        cases.append((op, (i, n, s)))
        elif sig == "ssi":
            for _ in range(250 * mult):
                s = rs() if rng.random() < 0.6 else rlong()
                t = rng.choice([(), s[:1], s[1:2], s[-1:], sub_of(s), rs(1), rs(2)])
                for i in F.index_pool(len(s)):
                    cases.append((op, (s, t, i)))
        elif op == "StrConcat3":
            for a in S1:
                for b in S1:
                    for c in S1[:6]:
                        cases.append((op, (a, b, c)))
            for _ in range(300 * mult):
                cases.append((op, (rs(), rs(2), rs())))
        elif sig == "sss":
            for _ in range(1500 * mult):
                s = rs() if rng.random() < 0.6 else rlong()
                t = rng.choice([(), s[:1], s[1:2], s[-1:], s[1:], sub_of(s), rs(1), rs(2)])
                cases.append((op, (s, t, rs(2))))
    return cases


def codec_pool(ctx):
    rng = ctx.rng
    pool = list(F.strings_upto(F.ALPHABET, 2))
    C = F.CODEC_ALPHABET
    hexd = [ord(c) for c in "0123456789abcdefABCDEFg"]
    for _ in range(ctx.pick(1500, 12000)):
        k = rng.random()
        if k < 0.35:   # near-escape: \u{ hex* } with mutations
            nd = rng.choice([0, 1, 2, 3, 4, 5, 5, 6, 7])
            body = [rng.choice(hexd) for _ in range(nd)]
            t = [92, 117, 123] + body + [125]
            for _ in range(rng.choice([0, 0, 1, 2])):
                j = rng.randrange(len(t) + 1)
                if rng.random() < 0.5 and t:
                    t.pop(min(j, len(t) - 1))
                else:
                    t.insert(j, rng.choice(C))
            t = [rng.choice(C)] * rng.choice([0, 1]) + t + [rng.choice(C)] * rng.choice([0, 1])
        elif k < 0.5:   # \uXXXX form
            t = [92, 117] + [rng.choice(hexd) for _ in range(rng.choice([3, 4, 4, 5]))] + [rng.choice(C)] * rng.choice([0, 1])
        elif k < 0.6:   # specific values of interest
            v = rng.choice([0, 0x5c, 0x48, 0xFF, 0x100, 0x2FFFF, 0x30000, 0xFFFFF, 0x10FFFF, 0x110000])
            t = [92, 117, 123] + [ord(c) for c in ("%x" % v)] + [125]
            if rng.random() < 0.3:
                t = t[:3] + [48] * rng.choice([1, 2, 3]) + t[3:]
        else:
            t = [rng.choice(C) for _ in range(rng.randrange(1, 9))]
        pool.append(tuple(t))
    pool += [F.cps(r"\u{48}"), F.cps("H"), F.cps("\\u{5c}u{48}"), (92,), (92, 92), (92, 117), (92, 92, 117), (0, 122)]
    # a lone surrogate (legal in a Z3 string) next to the text that spells its escape
    pool += [(0xd800,), F.cps("\\ud800"), F.cps("\\udfff"), (0xdfff,), (0x61, 0xdc80), F.cps("a\\udc80")]
    return pool


def is_surrogate(t):
    return any(0xD800 <= c <= 0xDFFF for c in t)


def shrink_case(op, a, still_fails):
    """drop characters / shrink integers while the same finding persists"""
    a = list(a)
    changed = True
    while changed:
        changed = False
        for k, kind in enumerate(F.SIG[op]):
            if kind == "s":
                for j in range(len(a[k])):
                    cand = a[:k] + [a[k][:j] + a[k][j + 1:]] + a[k + 1:]
                    if still_fails(tuple(cand)):
                        a = cand; changed = True
                        break
            else:
                if a[k] > 0:      # drop a character and move the index with it
                    for k2, kind2 in enumerate(F.SIG[op]):
                        if kind2 == "s" and len(a[k2]) > 0 and not changed:
                            cand = list(a)
                            cand[k2] = a[k2][1:]
                            cand[k] = a[k] - 1
                            if still_fails(tuple(cand)):
                                a = cand; changed = True
                    if changed:
                        break
                for v in (0, 1, a[k] // 2, a[k] - 1):
                    if 0 <= v < a[k]:
                        cand = a[:k] + [v] + a[k + 1:]
                        if still_fails(tuple(cand)):
                            a = cand; changed = True
                            break
    return tuple(a)


def show(t):
    return repr(F.to_str(t)) if not isinstance(t, int) else str(t)


class Ann:
    pass


def make_annotation():
    import claripy

    class VerifAnno(claripy.Annotation):
        eliminatable = True
        relocatable = False
    return VerifAnno()


def run(ctx):
    import claripy
    from claripy.backends.backend_concrete import strings as S
    import claripy.backends.backend_z3 as BZ
    ctx.cov["trusted_base"] += [
        "CPython str primitives (slicing, find/index/in, startswith/endswith, replace(...,1), join, str(int), ord/chr) are modelled "
        "by their documented meaning in Claripy.Str.Py; validated on every sampled case by the correspondence, not proved",
        "Z3's sequence theory (z3.simplify on ground terms) is the SMT-LIB meaning used by the oracle, cross-checked against an "
        "independent Python reference (harness/lib/fs_str.py:spec) and against the Lean Str.Spec on every case",
        "Z3's escape grammar (Z3_mk_string / Z3_get_lstring) and z3py's StringVal are transcribed by hand in Claripy.Str.Codec and "
        "validated against the installed library on every run",
        "code points above U+2FFFF are outside SMT-LIB strings: claripy's Z3 backend refuses such literals; folding them is compared "
        "with the reference only",
        "lone surrogates (U+D800..U+DFFF) cannot be carried by a claripy StringV at all (ast/base.py hashes with str.encode()): excluded "
        "from literals going in; included in values coming out of Z3",
    ]
    ctx.cov["rule"] = ("cases = (operation, literal operands); strings over the alphabet {a b A . ( \\ NUL \\n e-acute U+1F600 U+2FFFF U+10FFFF "
                       "arabic-5 - 0..9}: all of length <=2 (x all of length <=1 for binary ops; length <=3 in thorough for unary), random to length 12 "
                       "with sub-/prefix-/suffix-related second operands; indices from {0,1,2,len-1,len,len+1,2^63-1,2^63,2^64-2,2^64-1}; "
                       "codec pool = alphabet strings + 1500/12000 escape-like texts (\\u{h*}, \\uhhhh, mutated); non-trivial = distinct "
                       "(op, operands) whose operands are not all empty")
    # ---------------------------------------------------------------- 1. prove
    ctx.prove("ClaripyProofs.Props.C03", THEOREMS, tests=TESTS, driver_exe="driver_fs")
    z = F.Z()
    cases = gen_cases(ctx)
    ctx.cov["input_distribution"] = {}
    for op, a in cases:
        ctx.cov["input_distribution"][op] = ctx.cov["input_distribution"].get(op, 0) + 1

    # ---------------------------------------------------------------- 2. correspondence: Lean model vs real concrete functions
    def correspond(cs, spec_too=True):
        lines = [F.fmt_case(op, a) for op, a in cs]
        try:
            mo = ctx.driver(lines, exe="driver_fs")
            so = ctx.driver(["spec" + l[3:] for l in lines], exe="driver_fs") if spec_too else None
        except RuntimeError as e:
            ctx.tie_broken("driver_fs", str(e)[:300])
            return set()
        broken_ops = set()
        for k, (op, a) in enumerate(cs):
            real = F.fmt_res(F.real_concrete(op, a))
            ctx.count()
            if any(len(v) > 0 for kk, v in zip(F.SIG[op], a) if kk == "s") or "s" not in F.SIG[op]:
                ctx.distinct((op, a))
            if mo[k] != real and op not in broken_ops:
                broken_ops.add(op)
                ctx.tie_broken("corr:strings.%s" % op, "%s model=%s real=%s" % (lines[k], mo[k], real))
            if so is not None:
                ref = F.fmt_res(F.spec(op, a))
                if so[k] != ref and ("spec", op) not in broken_ops:
                    broken_ops.add(("spec", op))
                    ctx.tie_broken("corr:Str.Spec.%s" % op, "%s lean-spec=%s python-reference=%s" % (lines[k], so[k], ref))
        return broken_ops

    broken_ops = correspond(cases)
    ctx.cov["traces_validated_against_impl"] = len(cases)

    # ---------------------------------------------------------------- 3. oracle on the real code
    reported = set()

    def oracle(op, a, with_z3=True):
        """-> (sig, what) of the first failed comparison or None"""
        sp = F.spec(op, a)
        rf = F.real_fold(op, a)
        if rf != sp:
            return classify(op, a, rf), "folded %s(%s) = %s, SMT-LIB meaning is %s" % (
                op, ", ".join(show(v) for v in a), F.fmt_res(rf), F.fmt_res(sp))
        if with_z3 and not any(c > F.Z3_MAX_CHAR for k, v in zip(F.SIG[op], a) if k == "s" for c in v):
            zs = z.solver_side(op, a)
            if zs != sp:
                return "C03/%s/solver-translation/%s" % (op, classify(op, a, zs).split("/")[2]), \
                    "claripy's Z3 translation of %s(%s) evaluates to %s, SMT-LIB meaning is %s, folded is %s" % (
                        op, ", ".join(show(v) for v in a), F.fmt_res(zs), F.fmt_res(sp), F.fmt_res(rf))
        return None

    nz3 = 0
    z3_stride = ctx.pick(3, 1)     # quick: every 3rd case also goes through Z3 (all of them for the small exhaustive part)
    for k, (op, a) in enumerate(cases):
        small = sum(len(v) for kk, v in zip(F.SIG[op], a) if kk == "s") <= 2
        with_z3 = small or k % z3_stride == 0 or op in broken_ops
        if len(a[0]) > 3000 if isinstance(a[0], tuple) else False:
            with_z3 = True
        nz3 += with_z3
        r = oracle(op, a, with_z3)
        if r and r[0] not in reported:
            reported.add(r[0])
            sig = r[0]
            a2 = shrink_case(op, a, lambda c: (lambda rr: rr is not None and rr[0] == sig)(oracle(op, c, with_z3)))
            r2 = oracle(op, a2, with_z3) or r
            ctx.violation(sig, r2[1], {"kind": "op", "op": op, "args": [list(v) if isinstance(v, tuple) else v for v in a2]})
    ctx.cov["z3_evaluations"] = nz3

    # equal strings carried by different ASTs (annotations) must still compare equal when folded
    anno = make_annotation()
    for t in F.strings_upto(F.ALPHABET, 1) + [F.cps("ab"), F.cps("a.")]:
        for op, want in (("__eq__", True), ("__ne__", False)):
            rf = F.real_fold(op, (t, t), annotate=anno)
            ctx.count()
            if rf != ("b", want):
                ctx.violation("C03/%s/equal-values-different-asts/%s" % (op, rf[0] if rf[0] in ("err", "unfolded") else "value"),
                              "%s on two ASTs holding %s (one annotated) folds to %s" % (op, show(t), F.fmt_res(rf)),
                              {"kind": "annotated-eq", "op": op, "s": list(t)})

    # from-int beyond the 64-bit interface (the property quantifies over 64-bit values; this is an extension): values with more
    # decimal digits than CPython converts in one go (4300) take a chunked path in backend_concrete/strings.py
    import claripy as _cl

    def dec(v):             # independent decimal conversion: base 10**18 digits (integer division has no digit limit)
        out = []
        while v:
            v, r = divmod(v, 10 ** 18)
            out.append(r)
        return "0" if not out else str(out[-1]) + "".join(str(r).zfill(18) for r in reversed(out[:-1]))
    wide = [10 ** k + d for k in (4299, 4300, 4301, 4999, 8000, 8600, 12001) for d in (0, 7)] + \
           [ctx.rng.randrange(1, 10 ** 9) * 10 ** k + ctx.rng.randrange(10 ** 6) for k in (4000, 4300, 4310, 8000, 8600, 8615, 12900)] + \
           [ctx.rng.randrange(10 ** 4400, 10 ** 4500) for _ in range(ctx.pick(4, 40))]
    nwide = 0
    for v in wide:
        ctx.count(); nwide += 1
        try:
            r = _cl.IntToStr(_cl.BVV(v, v.bit_length() + ctx.rng.randrange(1, 9)))
            got = r.args[0] if r.op == "StringV" else "<unfolded %s>" % r.op
        except Exception as ex:  # noqa
            got = "<%s>" % type(ex).__name__
        want = dec(v)
        if got != want:
            k = next((i for i, (p_, q_) in enumerate(zip(got, want)) if p_ != q_), min(len(got), len(want)))
            ctx.violation("C03/IntToStr/wide-value/%s" % ("err" if got.startswith("<") else "value"),
                          "IntToStr of a %d-digit value folds to a string of %d characters that differs from the decimal representation at "
                          "position %d (%r vs %r)" % (len(want), len(got), k, got[k:k + 12], want[k:k + 12]),
                          {"kind": "wide-int-to-str", "value_hex": hex(v)})
            break
    ctx.cov["input_distribution"]["IntToStr-wide(>4300 digits)"] = nwide

    # ---------------------------------------------------------------- 4. literal codec: real pieces vs Lean model, and the property
    pool = codec_pool(ctx)
    ctx.cov["codec_pool"] = len(pool)
    lines, expect = [], []
    enc_fn = getattr(BZ, "string_to_z3_literal", None)
    dec_fn = getattr(BZ, "z3_string_to_python", None)
    for name, fn in (("string_to_z3_literal", enc_fn), ("z3_string_to_python", dec_fn)):
        if fn is None:
            ctx.tie_broken("corr:codec.%s" % name, "backend_z3.%s no longer exists; the modelled literal path is gone" % name)
    kept_consts = []
    for t in pool:
        sur = is_surrogate(t)
        ascii_only = all(0 < c < 128 for c in t)
        # (0) the constant itself: StringV holds the text it was given (whatever other constants are alive), and its folded
        # length is the number of code points
        try:
            k_ = claripy.StringV(F.to_str(t))
            kept_consts.append(k_)
            ctx.count()
            held = F.cps(k_.args[0])
            ln = claripy.StrLen(k_)
            if held != tuple(t) or ln.op != "BVV" or ln.args[0] != len(t):
                ctx.violation("C03/StringV-constant/holds-another-text", "StringV(%s) holds %s and its folded length is %r" % (show(t), show(held), ln),
                              {"kind": "constant", "s": list(t)})
        except claripy.errors.ClaripyError:
            pass
        # (a) the property, on the real code
        if not sur:
            li = z.literal_in(t)
            ctx.count()
            big = any(c > F.Z3_MAX_CHAR for c in t)
            if big:
                if li != ("err", "BackendError") and li != t:
                    ctx.violation("C03/StringV-literal/codepoint-above-0x2FFFF", "literal %s reaches Z3 as %s" % (show(t), li),
                                  {"kind": "literal-in", "s": list(t)})
            elif li != t:
                cls = "contains-z3-escape-sequence" if 92 in t else "non-printable" if any(c < 32 or c > 126 for c in t) else "plain"
                ctx.violation("C03/StringV-literal/%s" % cls, "literal %s reaches Z3 as %s" % (show(t), show(li) if isinstance(li, tuple) and li and isinstance(li[0], int) else li),
                              {"kind": "literal-in", "s": list(t)})
        if not sur and not any(c > F.Z3_MAX_CHAR for c in t):
            lr = z.literal_in_raw(t)
            ctx.count()
            if lr != t:
                ctx.violation("C03/python-str-value/%s" % ("contains-z3-escape-sequence" if 92 in t else "other"),
                              "the Python str %s handed to the Z3 backend (solution(), blocking clause of eval) reaches Z3 as %s" % (
                                  show(t), show(lr) if isinstance(lr, tuple) and lr and isinstance(lr[0], int) else lr),
                              {"kind": "literal-in-raw", "s": list(t)})
        lo = z.literal_out(t)
        ctx.count()
        if lo != t:
            ctx.violation("C03/string-extraction/z3-escaped-character", "Z3 value %s is extracted as %s" % (show(t), show(lo)),
                          {"kind": "literal-out", "s": list(t)})
        if not sur:
            lo2 = z.literal_out_ast(t)
            if lo2 != t:
                ctx.violation("C03/string-abstraction/z3-escaped-character", "Z3 value %s is abstracted to StringV(%s)" % (show(t), show(lo2)),
                              {"kind": "literal-out-ast", "s": list(t)})
        # (b) correspondence of every codec function with the real thing
        if not sur:
            lines.append("codec z3py " + F.fmt_s(t)); expect.append(("z3py.StringVal", "s:" + F.fmt_s(z.z3py_encode(t))))
            if enc_fn is not None:
                try:
                    e = "s:" + F.fmt_s(F.cps(enc_fn(F.to_str(t))))
                except Exception as ex:  # noqa
                    e = "!" + type(ex).__name__
                lines.append("codec enc " + F.fmt_s(t)); expect.append(("string_to_z3_literal", e))
            ct = z.claripy_literal_text(t) if not any(c > F.Z3_MAX_CHAR for c in t) else None
            if ct is not None:
                lines.append("codec text " + F.fmt_s(t)); expect.append(("BackendZ3.StringV->Z3_mk_string", "s:" + F.fmt_s(ct)))
        if ascii_only:
            lines.append("codec z3parse " + F.fmt_s(t)); expect.append(("Z3_mk_string", "s:" + F.fmt_s(z.z3_parse(t))))
        lines.append("codec z3print " + F.fmt_s(t)); expect.append(("Z3_get_lstring", "s:" + F.fmt_s(z.z3_print(t))))
        if dec_fn is not None:
            try:
                d = "s:" + F.fmt_s(F.cps(dec_fn(F.to_str(t))))
            except Exception as ex:  # noqa
                d = "!" + type(ex).__name__
            lines.append("codec dec " + F.fmt_s(t)); expect.append(("z3_string_to_python", d))
    try:
        out = ctx.driver(lines, exe="driver_fs")
        seen = set()
        for l, o, (fn, e) in zip(lines, out, expect):
            ctx.count()
            if o != e and fn not in seen:
                seen.add(fn)
                ctx.tie_broken("corr:codec.%s" % fn, "%s model=%s real=%s" % (l, o, e))
        ctx.cov["traces_validated_against_impl"] += len(lines)
    except (RuntimeError, AttributeError) as e:
        ctx.tie_broken("driver_fs/codec", str(e)[:300])

    # ---------------------------------------------------------------- 5. end to end through a real Solver
    n_e2e = ctx.pick(120, 1500) * (4 if ctx.broken else 1)
    rng = ctx.rng
    ok_cases = [c for c in cases if not any(cc > F.Z3_MAX_CHAR for k, v in zip(F.SIG[c[0]], c[1]) if k == "s" for cc in v)
                and "s" in F.SIG[c[0]] and sum(len(v) for k, v in zip(F.SIG[c[0]], c[1]) if k == "s") < 40]
    fixed = []
    for big in (1 << 63, (1 << 64) - 2, (1 << 64) - 1, (1 << 63) - 1):
        fixed += [("StrIndexOf", (F.cps("a01"), F.cps("01"), big)), ("StrIndexOf", (F.cps("a"), (), big)),
                  ("StrSubstr", (big, 1, F.cps("abc"))), ("StrSubstr", (1, big, F.cps("abc"))), ("StrSubstr", (big, big, F.cps("abc")))]
    fixed += [("StrToInt", (F.cps("18446744073709551617"),)), ("StrToInt", (F.cps("-5"),)), ("StrLen", ((0, 0x2FFFF, 92, 117),)),
              ("StrPrefixOf", (F.cps("a."), F.cps("ab"))), ("StrSuffixOf", (F.cps("ab"), F.cps("x\nab"))),
              ("StrReplace", (F.cps("ab"), (), F.cps("\\u{48}"))), ("StrConcat", (F.cps("\\u{4"), F.cps("8}")))]
    for op, a in fixed + rng.sample(ok_cases, min(n_e2e, len(ok_cases))):
        r = e2e(op, a)
        ctx.count()
        if r:
            ctx.violation("C03/%s/end-to-end-solver/%s" % (op, r[0]), r[1], {"kind": "e2e", "op": op, "args": [list(v) if isinstance(v, tuple) else v for v in a]})
    # a pinned string has exactly one solution, and the plain-str form of the value is accepted as that solution
    for t in [F.cps("\\u{41}"), F.cps("\\u0041"), F.cps("a\\u{5c}"), (92,), (0, 122), F.cps("plain")]:
        try:
            x = claripy.StringS("c03_pin")
            s = claripy.SolverCacheless()
            s.add(x == claripy.StringV(F.to_str(t)))
            vals = s.eval(x, 3)
            ok_sol = s.solution(x, F.to_str(t))
            ctx.count()
            if [F.cps(v) for v in vals] != [t] or not ok_sol:
                ctx.violation("C03/python-str-value/solver-%s" % ("eval-repeats" if len(vals) != 1 else "solution-rejected" if not ok_sol else "eval-differs"),
                              "x == %s: eval(x, 3) = %r, solution(x, <the same text as str>) = %s" % (show(t), vals, ok_sol),
                              {"kind": "pinned-str", "s": list(t)})
        except Exception as ex:  # noqa
            ctx.violation("C03/python-str-value/raised", "x == %s: %s: %s" % (show(t), type(ex).__name__, str(ex)[:100]), {"kind": "pinned-str", "s": list(t)})
    ctx.sample({"case": F.fmt_case(*cases[len(cases) // 2]), "model": F.fmt_res(F.real_concrete(*cases[len(cases) // 2]))})
    ctx.sample({"literal": list(F.cps("\\u{48}")), "reaches_z3_as": list(z.literal_in(F.cps("\\u{48}")))})
    ctx.sample({"z3_value": [0, 122, 0x1F600], "extracted": list(z.literal_out((0, 122, 0x1F600)))})
    ctx.cov["modelled_functions"] = sorted(n for n, f in inspect.getmembers(S, inspect.isfunction)) + [
        "backend_z3.string_to_z3_literal", "backend_z3.z3_string_to_python", "BackendZ3.StringV"]
    ctx.cov["not_modelled"] = ["StrIsDigit (no Z3 translation in claripy, not among the SMT-LIB functions of the property)"]


def e2e(op, a):
    """the first string operand becomes a symbol pinned by a constraint; the operation is evaluated by a real Solver"""
    import claripy
    sp = F.spec(op, a)
    sig = F.SIG[op]
    k0 = sig.index("s")
    x = claripy.StringS("c03_x")
    args = []
    for k, (kind, v) in enumerate(zip(sig, a)):
        if k == k0:
            args.append(x)
        elif kind == "s":
            args.append(claripy.StringV(F.to_str(v)))
        else:
            args.append(claripy.BVV(v, 64))
    try:
        e = getattr(claripy.ast.String, op)(*args) if op in ("__eq__", "__ne__") else getattr(claripy, "StrConcat" if op == "StrConcat3" else op)(*args)
        s = claripy.Solver()
        s.add(x == claripy.StringV(F.to_str(a[k0])))
        if sp[0] == "b":
            got = ("b", s.satisfiable(extra_constraints=[e]) and not s.satisfiable(extra_constraints=[claripy.Not(e)]))
            if not sp[1]:
                got = ("b", not (s.satisfiable(extra_constraints=[claripy.Not(e)]) and not s.satisfiable(extra_constraints=[e])))
        else:
            r = s.eval(e, 2)
            if len(r) != 1:
                return ("value", "%s on x == %s has %d values in the solver" % (op, show(a[k0]), len(r)))
            got = ("s", F.cps(r[0])) if sp[0] == "s" else ("i", r[0])
    except Exception as ex:  # noqa
        return ("err", "%s(%s) through a Solver raised %s: %s" % (op, ", ".join(show(v) for v in a), type(ex).__name__, str(ex)[:100]))
    if got != sp:
        return ("value", "%s(%s) through a Solver gives %s, SMT-LIB meaning %s" % (op, ", ".join(show(v) for v in a), F.fmt_res(got), F.fmt_res(sp)))
    return None


def replay(ctx, obj):
    r = obj["replay"]
    z = F.Z()
    kind = r["kind"]
    if kind in ("op", "e2e"):
        op = r["op"]
        a = tuple(tuple(v) if isinstance(v, list) else v for v in r["args"])
        sp, rf = F.spec(op, a), F.real_fold(op, a)
        print("%s(%s): folded=%s SMT-LIB=%s" % (op, ", ".join(show(v) for v in a), F.fmt_res(rf), F.fmt_res(sp)))
        bad = rf != sp
        if not any(c > F.Z3_MAX_CHAR for k, v in zip(F.SIG[op], a) if k == "s" for c in v):
            zs = z.solver_side(op, a)
            print("  claripy's Z3 translation evaluates to %s" % F.fmt_res(zs))
            bad = bad or zs != sp
            if kind == "e2e":
                e = e2e(op, a)
                print("  end to end:", e)
                bad = bad or e is not None
        return 1 if bad else 0
    if kind == "wide-int-to-str":
        import claripy
        v = int(r["value_hex"], 16)
        out, x = [], v
        while x:
            x, q = divmod(x, 10 ** 18)
            out.append(q)
        want = "0" if not out else str(out[-1]) + "".join(str(q).zfill(18) for q in reversed(out[:-1]))
        got = claripy.IntToStr(claripy.BVV(v, v.bit_length() + 1))
        ok = got.op == "StringV" and got.args[0] == want
        print("IntToStr of a %d-digit value: %s" % (len(want), "agrees with the decimal representation" if ok else "DIFFERS from the decimal representation"))
        return 0 if ok else 1
    t = tuple(r["s"])
    if kind == "annotated-eq":
        rf = F.real_fold(r["op"], (t, t), annotate=make_annotation())
        print("%s on equal strings %s with an annotation on one side folds to %s" % (r["op"], show(t), F.fmt_res(rf)))
        return 0 if rf == ("b", r["op"] == "__eq__") else 1
    if kind == "literal-in-raw":
        lr = z.literal_in_raw(t)
        print("python str %s reaches Z3 as %s" % (show(t), lr))
        return 0 if lr == t else 1
    if kind == "pinned-str":
        import claripy
        x = claripy.StringS("c03_pin")
        s = claripy.SolverCacheless()
        s.add(x == claripy.StringV(F.to_str(t)))
        vals, ok_sol = s.eval(x, 3), s.solution(x, F.to_str(t))
        print("x == %s: eval(x,3)=%r solution(str)=%s" % (show(t), vals, ok_sol))
        return 0 if [F.cps(v) for v in vals] == [t] and ok_sol else 1
    if kind == "literal-in":
        li = z.literal_in(t)
        print("literal %s reaches Z3 as %s" % (show(t), li))
        return 0 if li == t or (any(c > F.Z3_MAX_CHAR for c in t) and li == ("err", "BackendError")) else 1
    if kind in ("literal-out", "literal-out-ast"):
        lo = z.literal_out(t) if kind == "literal-out" else z.literal_out_ast(t)
        print("Z3 value %s comes back as %s" % (show(t), show(lo)))
        return 0 if lo == t else 1
    print("unknown replay kind", kind)
    return 2
