"""C07 — annotations survive rewriting as the annotation contract promises.

prove:       ClaripyProofs.Props.C07 (the gate `_handle_annotations` enforces the contract for ANY simplifier proposal;
             construction, explicit simplify, solver simplify)
correspond:  (1) cached `_uneliminatable_annotations` of real ASTs == Lean `unelim` recomputed over the tree,
             (2) real `_handle_annotations(simp, args)` vs Lean `handle` on generated (proposal, arguments) pairs
oracle:      on every construction step of annotated trees: non-eliminatable annotations reachable in the arguments stay
             reachable in the result, relocatable annotations of arguments are on the result; claripy.simplify keeps top
             and direct-argument relocatable annotations; Solver.simplify never rewrites an avoided constraint
"""
import collections

import claripy
from claripy import operations

from lib import exprs as E, exprgen as G, exprcheck as X

THEOREMS = ["Claripy.Props.C07.C07_handle_unelim", "Claripy.Props.C07.C07_handle_reloc", "Claripy.Props.C07.C07_build",
            "Claripy.Props.C07.C07_simplify", "Claripy.Props.C07.C07_frontend_simplify", "Claripy.Props.C07.hfold_spec",
            "Claripy.Props.C07.relocateFrom_spec", "Claripy.Props.C07.mkNode_contract",
            "Claripy.Props.C07.C07_carrier_kept_partial", "Claripy.Props.C07.C07_carrier_shared_removed",
            "Claripy.Props.C07.C07_carrier_moved_accepted", "Claripy.Anno.handle_topOnly", "Claripy.Anno.unelim_carrier"]


class Keep(claripy.Annotation):
    eliminatable = False
    relocatable = False

    def __init__(self, n):
        self.n = n

    def __hash__(self):
        return hash(("K", self.n))

    def __eq__(self, o):
        return isinstance(o, Keep) and o.n == self.n

    def __repr__(self):
        return "k%d" % self.n


class Reloc(claripy.Annotation):
    eliminatable = False
    relocatable = True

    def __init__(self, n):
        self.n = n

    def __hash__(self):
        return hash(("R", self.n))

    def __eq__(self, o):
        return isinstance(o, Reloc) and o.n == self.n

    def __repr__(self):
        return "r%d" % self.n


class Elim(claripy.Annotation):
    def __init__(self, n):
        self.n = n

    def __hash__(self):
        return hash(("E", self.n))

    def __eq__(self, o):
        return isinstance(o, Elim) and o.n == self.n

    def __repr__(self):
        return "e%d" % self.n


class Avoid(claripy.annotation.SimplificationAvoidanceAnnotation):
    def __init__(self, n):
        self.n = n

    def __hash__(self):
        return hash(("A", self.n))

    def __eq__(self, o):
        return isinstance(o, Avoid) and o.n == self.n

    def __repr__(self):
        return "a%d" % self.n


class AvoidReloc(Avoid):
    """a simplification-avoidance annotation of a user subclass that may be relocated"""
    relocatable = True

    def __repr__(self):
        return "ar%d" % self.n


class AvoidElim(Avoid):
    """… and one that may be eliminated by expression rewrites: the solver must still leave the constraint alone"""
    eliminatable = True

    def __repr__(self):
        return "ae%d" % self.n


def all_unelim(a):
    out = set()
    for s in [a] + list(a.children_asts()):
        for an in s.annotations:
            if not an.eliminatable and not an.relocatable:
                out.add(an)
    return out


def bare(a, memo):
    """structure of an AST with every annotation stripped (annotations of other kinds may legitimately come and go)"""
    i = id(a)
    if i not in memo:
        memo[i] = (a.op, tuple(bare(x, memo) if isinstance(x, claripy.ast.Base) else ("l", repr(x)) for x in a.args), a.length
                   if hasattr(a, "length") else None)
    return memo[i]


def keepers(a, memo):
    """(bare structure, annotation) for every non-eliminatable, non-relocatable annotation and the sub-expression carrying it"""
    out = {}
    for s in [a] + list(a.children_asts()):
        for an in s.annotations:
            if not an.eliminatable and not an.relocatable:
                out[(bare(s, memo), an)] = s
    return out


def carried_reloc(a):
    return {an for an in a.annotations if an.relocatable and not an.eliminatable}


def aexpr(a):
    """abstract annotated tree for the Lean model"""
    kids = " ".join(aexpr(x) for x in a.args if isinstance(x, claripy.ast.Base))
    tag = a.op if a.op not in ("BVS", "BoolS") else "v"
    return "(%s [%s] %s)" % (tag, " ".join(repr(an) for an in a.annotations), kids)


def spec(a):
    """re-buildable description of an annotated AST: [annotation reprs, op-tree with nested specs]"""
    if isinstance(a, int):
        return ["int", a]
    t = E.from_ast(a) if a.op in ("BVV", "BVS", "BoolV", "BoolS") else None
    if t is not None:
        return [[repr(an) for an in a.annotations], list(t)]
    head = E.from_ast_head(a)
    return [[repr(an) for an in a.annotations], [head] + [spec(x) for x in a.args if isinstance(x, claripy.ast.Base)]]


def unspec(sp):
    if sp[0] == "int":
        return sp[1]
    annos, body = sp
    if body[0] in ("bvv", "bvs", "boolv", "bools"):
        r = E.build_leaf(tuple(body))
    else:
        r = E.apply_op(body[0], [unspec(x) for x in body[1:]])
    for an in annos:
        n = int(an[1:])
        r = r.annotate({"k": Keep, "r": Reloc, "e": Elim, "a": Avoid}[an[0]](n))
    return r


def srt(s):
    return ",".join(sorted(repr(x) for x in s))


class Gen:
    def __init__(self, rng, p=0.25):
        self.rng, self.p, self.ctr, self.recent = rng, p, 0, []

    def anno(self):
        # one annotation object is often put on several nodes (a taint / region label): reuse a recent one now and then
        if self.recent and self.rng.random() < 0.25:
            return self.rng.choice(self.recent)
        self.ctr += 1
        k = self.rng.random()
        an = Keep(self.ctr) if k < 0.35 else Reloc(self.ctr) if k < 0.65 else Elim(self.ctr) if k < 0.9 else Avoid(self.ctr)
        self.recent = (self.recent + [an])[-4:]
        return an

    def reannotate(self, r):
        """the other ways of changing the annotations of a node: remove one, replace all, add-and-remove"""
        k = self.rng.random()
        if not r.annotations:
            return r
        if k < 0.35:
            return r.remove_annotation(self.rng.choice(r.annotations))
        if k < 0.6:
            keep = tuple(an for an in r.annotations if self.rng.random() < 0.5)
            return r.replace_annotations((*keep, self.anno()))
        if k < 0.85:
            return r.annotate(self.anno(), remove_annotations=(self.rng.choice(r.annotations),))
        return r.remove_annotations(tuple(an for an in r.annotations if self.rng.random() < 0.5))

    def build(self, t, log):
        r = E.build_leaf(t)
        if r is None and t[0] != "int":
            args = [self.build(x, log) for x in t[1:]]
            r = E.apply_op(t[0], args)
            log.append((t[0], args, r))
        if t[0] != "int" and self.rng.random() < self.p:
            r = r.annotate(self.anno())
            if self.rng.random() < 0.2:
                r = r.annotate(self.anno())
            if self.rng.random() < 0.25:
                r = self.reannotate(r)
        elif t[0] != "int" and self.rng.random() < 0.05:
            # label the node with an annotation that already sits further down, then take it off the node again
            below = sorted(all_unelim(r), key=repr)
            if below:
                k = self.rng.choice(below)
                r = r.annotate(k, self.anno())
                r = r.remove_annotation(k) if self.rng.random() < 0.7 else r.annotate(self.anno(), remove_annotations=(k,))
        return r


def run(ctx):
    ctx.cov["trusted_base"] += [
        "modelled: _handle_annotations, Base.__new__ annotation merge, algorithm/simplify.py annotation part, ConstrainedFrontend.simplify partition; "
        "expressions are abstract annotated trees (the theorems hold for any simplifier proposal, so no rewrite rule needs to be modelled)",
        "the cached _uneliminatable_annotations is identified with the recomputed set; this identification is checked on every real AST seen",
    ]
    ctx.cov["rule"] = ("cases = construction steps of C01 trees whose leaves and inner nodes carry Keep/Reloc/Elim/Avoid annotations (p=0.25 per node, "
                       "sometimes two; annotation objects are shared between nodes and nodes are re-annotated: remove / replace / label-then-unlabel), "
                       "directed cases with annotated neutral constants, a corpus of the Lean counter-witnesses; non-trivial = some argument carries a non-eliminatable annotation and the built node differs from the plain node; "
                       "distinct = (op, annotated argument trees)")
    ctx.prove("ClaripyProofs.Props.C07", THEOREMS)
    rng = ctx.rng
    g = Gen(rng)
    n = ctx.pick(5000, 80000)
    dist = collections.Counter()
    cache_lines, cache_expect = [], []
    h_lines, h_expect = [], []
    seen_cache = set()
    # corpus first: the two witnesses of the Lean theorems C07_carrier_shared_removed (open finding: must still be what the
    # code does, else the finding is stale) and C07_carrier_moved_accepted (repaired: must be skipped now)
    x8, y8 = claripy.BVS("cx", 8, explicit_name=True), claripy.BVS("cy", 8, explicit_name=True)
    k1, k2 = Keep(900001), Keep(900002)
    corpus = [("corpus.shared", "and", [(x8 | y8).annotate(k1), claripy.BVV(255, 8).annotate(k1)]),
              ("corpus.moved", "sub", [(x8 + y8 + 1).annotate(k2), claripy.BVV(2, 8)]),
              ("corpus.moved2", "sub", [(x8 + 1).annotate(k2), claripy.BVV(2, 8)])]
    # directed: neutral / absorbing constants that carry an annotation, next to a nested node of the same operation (the shapes
    # flattening and the x+0 / x*1 / x&-1 / x|0 / x^0 rules look for) — removing the constant must be refused, not relocated
    def identity_cases():
        out = []
        for _ in range(ctx.pick(150, 2000)):
            w = rng.choice([1, 4, 8, 32])
            x, y = claripy.BVS("ix%d" % w, w, explicit_name=True), claripy.BVS("iy%d" % w, w, explicit_name=True)
            op = rng.choice(["add", "mul", "and", "or", "xor", "sub", "shl", "lshr"])
            cval = {"add": 0, "sub": 0, "xor": 0, "or": 0, "shl": 0, "lshr": 0, "mul": 1, "and": (1 << w) - 1}[op] if rng.random() < 0.7 else \
                rng.choice([0, 1, (1 << w) - 1, rng.randrange(1 << w)])
            c = claripy.BVV(cval, w).annotate(g.anno())
            if rng.random() < 0.3:
                c = c.annotate(g.anno())
            nested_op = op if op in ("add", "mul", "and", "or", "xor") else "add"
            inner = rng.choice([E.apply_op(nested_op, [x, y]), E.apply_op(nested_op, [x, claripy.BVV(rng.randrange(1 << w), w)]), x,
                                E.apply_op(nested_op, [x, y]).annotate(g.anno())])
            args_ = [c, inner] if (rng.random() < 0.5 and op not in ("sub", "shl", "lshr")) else [inner, c]
            try:
                out.append(("directed.annotated-identity", op, args_, E.apply_op(op, args_)))
            except claripy.errors.ClaripyError:
                pass
        return out
    directed = identity_cases()
    for i in range(-len(corpus) - len(directed), n):
        log = []
        if i < -len(corpus):
            name, op_, args_, res_ = directed[i + len(corpus) + len(directed)]
            log.append((op_, args_, res_))
            a = res_
        elif i < 0:
            name, op_, args_ = corpus[i + len(corpus)]
            log.append((op_, args_, E.apply_op(op_, args_)))
            a = log[0][2]
        else:
            name, tree = G.rule_directed(rng) if rng.random() < 0.7 else G.random_tree(rng)
            try:
                a = g.build(tree, log)
            except Exception:
                continue
        dist[name] += 1
        for op, args, r in log:
            ctx.count()
            aa = [x for x in args if isinstance(x, claripy.ast.Base)]
            if not aa:
                continue
            U = set().union(*[all_unelim(x) for x in aa])
            R = set().union(*[carried_reloc(x) for x in aa])
            if (U or R) and (r.op != E.BIN_INFIX.get(op, op) or len(r.args) != len(args)):
                ctx.distinct((op, tuple(aexpr(x) for x in aa)))
            lost = U - all_unelim(r)
            if lost:
                ctx.violation("C07/%s/unelim-lost" % op.split(":")[0],
                              "%s%s built %r: non-eliminatable annotation(s) %s no longer reachable" % (op, [repr(x) for x in args], r, srt(lost)),
                              {"op": op, "args": [aexpr(x) for x in aa], "result": aexpr(r), "lost": srt(lost), "template": name,
                               "rebuild": [spec(x) for x in args]})
                continue
            # the contract is about the annotated SUB-EXPRESSION: it must still be there (the rewrite is skipped instead);
            # an annotation that merely reappears on a different, rewritten node has been relocated although it is not relocatable
            bmemo = {}
            kept = keepers(r, bmemo)
            argk = {}
            for a_ in aa:
                argk.update(keepers(a_, bmemo))
            gone = [x for h_, x in argk.items() if h_ not in kept]
            if gone:
                # two ways for the annotation to stay reachable although its carrier went: it sits on a NEW expression (moved
                # although not relocatable), or the same annotation object also sits on another node that survived
                moved = {an for (b_, an) in kept if (b_, an) not in argk}
                first = [x for x in gone if moved & set(x.annotations)] or gone
                gone = first
                ctx.violation(("C07/%s/annotated-subexpression-removed" % op.split(":")[0]) if moved & set(gone[0].annotations)
                              else "C07/_handle_annotations/carrier-removed-while-same-annotation-survives-elsewhere",
                              "%s%s built %r: the sub-expression %r carrying %s is not part of the result" % (
                                  op, [repr(x) for x in args], r, gone[0], srt({an for an in gone[0].annotations if not an.eliminatable and not an.relocatable})),
                              {"op": op, "args": [aexpr(x) for x in aa], "result": aexpr(r), "removed": aexpr(gone[0]), "template": name,
                               "rebuild": [spec(x) for x in args]})
                continue
            lostr = R - set(r.annotations)
            if lostr:
                ctx.violation("C07/%s/reloc-lost" % op.split(":")[0],
                              "%s%s built %r: relocatable annotation(s) %s not on the result" % (op, [repr(x) for x in args], r, srt(lostr)),
                              {"op": op, "args": [aexpr(x) for x in aa], "result": aexpr(r), "lost": srt(lostr), "template": name,
                               "rebuild": [spec(x) for x in args]})
                continue
            # (1) cached set == recomputed set, on the result and the arguments
            for x in aa + [r]:
                if x.hash() not in seen_cache and len(cache_lines) < ctx.pick(4000, 40000):
                    seen_cache.add(x.hash())
                    cache_lines.append("aunelim " + aexpr(x))
                    cache_expect.append((srt(x._uneliminatable_annotations), srt(all_unelim(x)), repr(x)))
            # (2) the gate itself on (proposal, args): proposals = each argument and the result
            if len(h_lines) < ctx.pick(3000, 30000) and rng.random() < 0.5:
                prop = rng.choice(aa + [r])
                got = operations._handle_annotations(prop, tuple(args))
                h_lines.append("ahandle %s | %s" % (aexpr(prop), " ".join(aexpr(x) for x in aa)))
                h_expect.append("none" if got is None else "annos=%s unelim=%s" % (srt(set(got.annotations)), srt(all_unelim(got))))
        # explicit simplification keeps top annotations + direct arguments' relocatable ones — also when the answer
        # comes from the simplification cache (second and third call on the same expression)
        if rng.random() < 0.08 and not a.is_leaf():
            top = a.annotate(g.anno())
            keep = []
            for call in (1, 2, 3):
                try:
                    s = claripy.simplify(top)
                except claripy.errors.ClaripyError:
                    break
                keep.append(s)
                ctx.count()
                want = set(top.annotations) | set().union(*[carried_reloc(x) for x in top.args if isinstance(x, claripy.ast.Base)] or [set()])
                miss = want - set(s.annotations)
                if miss:
                    ctx.violation("C07/simplify/top-annotations-lost" + ("" if call == 1 else "/cached-call"),
                                  "claripy.simplify(%r) call #%d = %r lost %s" % (top, call, s, srt(miss)),
                                  {"expr": aexpr(top), "simplified": aexpr(s), "lost": srt(miss), "call": call, "rebuild_top": spec(top)})
                    break
    # solver: constraints with a simplification-avoidance annotation are never rewritten
    for k in range(ctx.pick(60, 600)):
        s = claripy.Solver()
        cs = []
        x, y = claripy.BVS("x", 8, explicit_name=True), claripy.BVS("y", 8, explicit_name=True)
        for j in range(rng.choice([2, 3, 5])):
            c = rng.choice([claripy.And(x + j > 3, y - j < 9), x + 1 + j == y + 1, claripy.Or(x == j, claripy.And(y == 2, y == 2)), (x ^ x) + j != y])
            if rng.random() < 0.5:
                c = c.annotate(rng.choice([Avoid, Avoid, AvoidReloc, AvoidElim])(1000 + k * 10 + j))
            cs.append(c)
        s.add(cs)
        try:
            out = s.simplify()
        except claripy.errors.ClaripyError:
            continue
        ctx.count()
        for c in cs:
            if any(isinstance(an, Avoid) for an in c.annotations) and not c.is_true() and not any(o is c for o in s.constraints):
                ctx.violation("C07/frontend-simplify/avoided-constraint-rewritten",
                              "Solver.simplify() rewrote or dropped the avoided constraint %r" % c, {"constraint": repr(c), "constraints": [repr(z) for z in s.constraints]})
    outs = ctx.driver(cache_lines) if cache_lines else []
    agree = 0
    for o, (cached, recomputed, rep) in zip(outs, cache_expect):
        if cached != recomputed:
            ctx.tie_broken("corr:cached-unelim", "%s: cached _uneliminatable_annotations {%s} but the tree contains {%s}" % (rep[:200], cached, recomputed))
            break
        if o != recomputed:
            ctx.tie_broken("corr:unelim", "%s: Lean unelim {%s}, harness {%s}" % (rep[:200], o, recomputed))
            break
        agree += 1
    outs = ctx.driver(h_lines) if h_lines else []
    for l, o, want in zip(h_lines, outs, h_expect):
        if o != want:
            ctx.tie_broken("corr:_handle_annotations", "%s: model %s, real %s" % (l[:400], o, want))
            break
        agree += 1
    ctx.cov["traces_validated_against_impl"] = agree
    ctx.cov["input_distribution"] = {"templates": dict(dist), "cached_sets_compared": len(cache_lines), "gate_calls_compared": len(h_lines),
                                     "gate_rejections": sum(1 for w in h_expect if w == "none")}
    if h_lines:
        ctx.sample({"gate_request": h_lines[0][:300], "answer": h_expect[0]})


def replay(ctx, obj):
    r = obj["replay"]
    if "rebuild_top" in r:
        top = unspec(r["rebuild_top"])
        keep = []
        for call in (1, 2, 3):
            s = claripy.simplify(top); keep.append(s)
            miss = set(top.annotations) - set(s.annotations)
            print("call", call, "->", aexpr(s))
            if miss:
                print("lost", srt(miss)); print("VIOLATION property=C07 replay=(given)"); return 1
        print("annotations kept on every call"); return 0
    if "rebuild" not in r:
        print(r); print("no rebuild recipe stored for this kind of violation; re-run the check with the recorded seed"); return 1
    args = [unspec(x) for x in r["rebuild"]]
    res = E.apply_op(r["op"], args)
    aa = [x for x in args if isinstance(x, claripy.ast.Base)]
    U = set().union(*[all_unelim(x) for x in aa])
    R = set().union(*[carried_reloc(x) for x in aa])
    print("op:", r["op"], "args:", [aexpr(x) for x in aa]); print("result:", aexpr(res))
    lost, lostr = U - all_unelim(res), R - set(res.annotations)
    if lost or lostr:
        print("lost non-eliminatable:", srt(lost), "lost relocatable:", srt(lostr))
        print("VIOLATION property=C07 replay=(given)")
        return 1
    print("annotation contract holds on the current tree")
    return 0
