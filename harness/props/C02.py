"""C02 — IEEE-754 / SMT-LIB FloatingPoint meaning of float expressions in every rounding mode, folded or not.

translate (rounding-mode table -> lean/Claripy/Gen/FpTables.lean) -> prove -> correspondence (Lean soft-float spec vs Z3's FPA on
claripy's own translation; Lean model of fp.py vs the real folding) -> oracle on the real code (folded vs Z3, all five modes)."""
import os

import itertools
from lib import fs_fp as P
from lib.common import LEAN, write_if_changed
import translate_fptables as tf

THEOREMS = [
    "Claripy.Props.C02.gen_table_is_smtlib", "Claripy.Props.C02.decimal_mode_spec", "Claripy.Props.C02.to_bv_spec",
    "Claripy.Props.C02.fold_add_double_rne", "Claripy.Props.C02.fold_sub_double_rne", "Claripy.Props.C02.fold_mul_double_rne",
    "Claripy.Props.C02.fold_div_double_rne", "Claripy.Props.C02.fold_sqrt_double_rne", "Claripy.Props.C02.fold_neg_abs_double",
    "Claripy.Props.C02.fold_cmp_double", "Claripy.Props.C02.div_by_zero_spec", "Claripy.Props.C02.fold_float_rne_partial",
    "Claripy.Props.C02.round_overflow_spec", "Claripy.Props.C02.round_floor_spec", "Claripy.Props.C02.round_directed_spec",
    "Claripy.Props.C02.round_nearest_spec", "Claripy.Props.C02.round_exact_spec", "Claripy.Props.C02.value_order_spec",
    "Claripy.Props.C02.fold_widen_all_modes", "Claripy.Props.C02.fold_cmp_float", "Claripy.Props.C02.fold_neg_abs_float",
    "Claripy.Props.C02.fold_to_ieee_bv", "Claripy.Props.C02.to_bv_spec_float", "Claripy.Props.C02.fold_narrow_rne",
    "Claripy.Props.C02.double_rounding_innocuous_add", "Claripy.Props.C02.double_rounding_innocuous_sub", "Claripy.Props.C02.fold_add_float_rne", "Claripy.Props.C02.fold_sub_float_rne", "Claripy.Props.C02.fold_float_rne", "Claripy.Props.C02.double_rounding_innocuous_mul", "Claripy.Props.C02.double_rounding_innocuous_div", "Claripy.Props.C02.double_rounding_innocuous_sqrt", "Claripy.Props.C02.fold_div_float_rne", "Claripy.Props.C02.fold_sqrt_float_rne", "Claripy.Props.C02.fold_float_is_rne_in_every_mode", "Claripy.Props.C02.fold_add_float_partial", "Claripy.Props.C02.sum_representable_of_53_bits", "Claripy.Props.C02.fold_mul_float_rne", "Claripy.Props.C02.round_scale_invariant", "Claripy.Props.C02.fold_int_to_double_rne", "Claripy.Props.C02.cancel_fptobv_fptofp", "Claripy.Props.C02.cancel_fptofp_fptobv",
    "Claripy.Props.C02.fold_ignores_rm_witness", "Claripy.Props.C02.int_to_float_double_rounding_witness",
    "Claripy.Props.C02.rna_round_up_wrong",
]
TESTS = ["Claripy.Props.C02.test_spec_samples"]


def gen_cases(ctx):
    """list of (op, fmt, rm, args)"""
    rng = ctx.rng
    cases = []
    mult = ctx.pick(1, 30)
    for fmt in "FD":
        B = P.boundary_bits(fmt)
        OB = P.boundary_bits(P.other(fmt))
        for op in P.OPS_UNARY:
            for b in B:
                cases.append((op, fmt, None, (b,)))
        for op in P.OPS_CMP:
            for b in B:
                for c in rng.sample(B, 6) + [b, b ^ (1 << (P.WIDTH[fmt] - 1))]:
                    cases.append((op, fmt, None, (b, c)))
            for _ in range(40 * mult):
                cases.append((op, fmt, None, (P.rand_bits(rng, fmt), P.rand_bits(rng, fmt))))
        for b in B:
            cases.append(("fpToFP_bv", fmt, None, ((b, 0),)))
            eb, sb = P.FMT[fmt]
            cases.append(("fpFP", fmt, None, (b >> (eb + sb - 1), (b >> (sb - 1)) & ((1 << eb) - 1), b & ((1 << (sb - 1)) - 1))))
        for rm in P.RMS:
            for op in P.OPS_ARITH:
                for b in B:
                    for c in rng.sample(B, 3 if not ctx.thorough() else 12):
                        cases.append((op, fmt, rm, (b, c)))
                for _ in range(90 * mult):
                    cases.append((op, fmt, rm, (P.rand_bits(rng, fmt), P.rand_bits(rng, fmt))))
                # directed: zero divisors / cancellations / ties
                Z, NZ = 0, 1 << (P.WIDTH[fmt] - 1)
                for b in rng.sample(B, 10) + [Z, NZ]:
                    cases.append((op, fmt, rm, (b, Z)))
                    cases.append((op, fmt, rm, (b, NZ)))
                    cases.append((op, fmt, rm, (b, b ^ NZ)))
                    cases.append((op, fmt, rm, (b, b)))
            for b in B:
                cases.append(("fpSqrt", fmt, rm, (b,)))
            for _ in range(40 * mult):
                cases.append(("fpSqrt", fmt, rm, (P.rand_bits(rng, fmt) & ~(1 << (P.WIDTH[fmt] - 1)),)))
            for b in OB:
                cases.append(("fpToFP_fp", fmt, rm, (b,)))
            for _ in range(60 * mult):
                cases.append(("fpToFP_fp", fmt, rm, (P.rand_bits(rng, P.other(fmt)),)))
            for size in (8, 32, 64) + ((16, 33, 65, 128) if ctx.thorough() else ()):
                for v in P.int_pool(rng, size, 6 * mult):
                    cases.append(("fpToFP_sbv", fmt, rm, ((v, size),)))
                    cases.append(("fpToFPUnsigned", fmt, rm, ((v, size),)))
                for b in B:
                    cases.append(("fpToSBV", fmt, rm, (b, size)))
                    cases.append(("fpToUBV", fmt, rm, (b, size)))
                for _ in range(25 * mult):
                    b = P.rand_bits(rng, fmt)
                    cases.append(("fpToSBV", fmt, rm, (b, size)))
                    cases.append(("fpToUBV", fmt, rm, (b, size)))
    return cases


def classify(z, op, fmt, rm, a, rf, zs):
    """finding signature of a disagreement between the folded result `rf` and the SMT-LIB result `zs`"""
    if rf[0] in ("err", "unfolded"):
        return "C02/%s/%s/%s/%s" % (op, fmt, rm or "-", rf[0] + ":" + str(rf[1]))
    if rm and rm != "RNE":
        if rf == z.solver_side(op, fmt, "RNE", a):
            return "C02/%s/rounding-mode-ignored" % op
    if op in ("fpToFP_sbv", "fpToFPUnsigned") and fmt == "F":
        # what double rounding gives: to binary64 (RNE) first, then to binary32 (RNE)
        d = z.solver_side(op, "D", "RNE", a)
        if d[0] == "f" and d[2] != "nan":
            twice = z.solver_side("fpToFP_fp", "F", "RNE", (d[2],))
            if rf == twice:
                return "C02/%s/int-to-FLOAT-rounds-twice" % op
    return "C02/%s/%s/%s/wrong-value" % (op, fmt, rm or "-")


def run(ctx):
    ctx.cov["trusted_base"] += [
        "CPython float arithmetic (+ - * /, math.sqrt, float(int), comparisons), struct.pack('f'/'d') and decimal.Decimal(float)."
        "to_integral_value are IEEE-754 binary64/binary32 round-to-nearest-even resp. exact decimal rounding: they are MODELLED by the "
        "soft-float spec at binary64/RNE and Claripy.FP.Decimal, and validated against it on every sampled case, not proved",
        "Z3's FPA (z3.simplify on ground terms built by claripy's own _op_raw_fp* translation) is the SMT-LIB reference of the oracle; "
        "the Lean soft-float specification is compared with it on every case in all five rounding modes",
        "translator harness/translate_fptables.py (dumps the live RM -> decimal table; refuses unknown constants)",
        "FLOAT arithmetic: the model rounds the binary64 result to binary32; that this equals one binary32 rounding for + - * / sqrt "
        "(double rounding 53 -> 24 is innocuous, Figueroa) is NOT proved in Lean; it is validated against Z3 on every FLOAT case",
        "NaN payloads and SMT-LIB-unspecified conversions (NaN/inf/out-of-range to integer, NaN to IEEE bits) are exempt",
    ]
    ctx.cov["rule"] = ("cases = (op, format, rounding mode, operand bit patterns); operands from ~120 boundary patterns per format (+-0, "
                       "subnormals min/max/mid, min normal, 1+-ulp, ties, 0.1, 1.2, 2.5, 3.5, 2^k-1, 2^k, 2^k+1 for k in 7 8 24 31 32 53 63 64, max, "
                       "+-inf, NaN) x sampled partners, random patterns (uniform / moderate exponents / extreme exponents; sparse or dense "
                       "significands), integers around 2^24 2^25 2^53 2^54 2^60 with tie/sticky low bits, sizes 8 32 64; all five modes; "
                       "non-trivial = distinct case whose result is not NaN")
    # ---------------------------------------------------------------- 1. translate
    tie_ok = True
    try:
        tr = tf.translate()
        write_if_changed(os.path.join(LEAN, "Claripy", "Gen", "FpTables.lean"), tf.render(tr))
        ctx.cov["translated"] = tr
    except tf.TranslateError as e:
        tie_ok = False
        ctx.tie_broken("translate:RM.pydecimal_equivalent_rounding_mode", str(e))
    # ---------------------------------------------------------------- 2. prove
    ctx.prove("ClaripyProofs.Props.C02", THEOREMS, tests=TESTS, driver_exe="driver_fs")
    z = P.ZF()
    cases = gen_cases(ctx)
    dist = {}
    for op, fmt, rm, a in cases:
        dist[op] = dist.get(op, 0) + 1
    ctx.cov["input_distribution"] = dist
    # ---------------------------------------------------------------- 3. run everything
    try:
        model = ctx.driver([P.fmt_case(*c) for c in cases], exe="driver_fs")
        spec = ctx.driver([P.fmt_case(*c, prefix="fpspec") for c in cases], exe="driver_fs")
    except RuntimeError as e:
        ctx.tie_broken("driver_fs", str(e)[:300])
        model = spec = None
    broken_fold, broken_spec, reported = set(), set(), set()
    n_unspec = 0
    for k, (op, fmt, rm, a) in enumerate(cases):
        rf = P.real_fold(op, fmt, rm, a)
        zs = z.solver_side(op, fmt, rm, a)
        ctx.count()
        uns = P.unspecified(op, fmt, rm, a, zs)
        n_unspec += uns
        if not (zs[0] == "f" and zs[2] == "nan"):
            ctx.distinct((op, fmt, rm, a))
        if model is not None:
            # (a) soft-float spec vs Z3 (the spec says `unspec` exactly where SMT-LIB does)
            want = "unspec" if uns else P.fmt_res(zs)
            if spec[k] != want and op not in broken_spec:
                broken_spec.add(op)
                ctx.tie_broken("corr:FP.Spec.%s" % op, "%s lean-spec=%s z3=%s" % (P.fmt_case(op, fmt, rm, a), spec[k], want))
            # (b) model of fp.py vs the real folding
            real = P.fmt_res(rf)
            mo = model[k]
            if op == "fpToIEEEBV" and P.is_nan_bits(fmt, a[0]):
                mo = real   # NaN payload
            if mo != real and op not in broken_fold:
                broken_fold.add(op)
                ctx.tie_broken("corr:fp.%s" % op, "%s model=%s real=%s" % (P.fmt_case(op, fmt, rm, a), mo, real))
        # (c) the property on the real code
        if rf != zs and not (uns and rf[0] not in ("err", "unfolded")):
            sig = classify(z, op, fmt, rm, a, rf, zs)
            if sig not in reported:
                reported.add(sig)
                ctx.violation(sig, "%s folds to %s, SMT-LIB (Z3 on claripy's translation) gives %s" % (
                    P.fmt_case(op, fmt, rm, a, prefix="").strip(), P.fmt_res(rf), P.fmt_res(zs)),
                    {"kind": "fold", "op": op, "fmt": fmt, "rm": rm, "args": [list(v) if isinstance(v, tuple) else v for v in a]})
    ctx.cov["unspecified_cases_exempt"] = n_unspec
    ctx.cov["traces_validated_against_impl"] = len(cases) if model is not None else 0
    # ---------------------------------------------------------------- 4. literals: a folded FPV reaches Z3 with the same bits
    for fmt in "FD":
        pool = P.boundary_bits(fmt) + [P.rand_bits(ctx.rng, fmt) for _ in range(ctx.pick(150, 2000))]
        for b in pool:
            li = z.literal_in(fmt, b)
            ctx.count()
            if li != P.canon(fmt, b):
                ctx.violation("C02/FPV-literal/%s/%s" % (fmt, "subnormal" if (b >> (P.FMT[fmt][1] - 1)) & ((1 << P.FMT[fmt][0]) - 1) == 0 else "normal"),
                              "FPV with bits %#x reaches Z3 as %s" % (b, li), {"kind": "literal", "fmt": fmt, "bits": b})
    # ---------------------------------------------------------------- 4b. the two cancellation rewrites (simplifications.py)
    import claripy
    for fmt in "FD":
        S, W = P.sort_obj(fmt), P.WIDTH[fmt]
        xb = claripy.BVS("c02_cb", W)
        yf = claripy.FPS("c02_cf", S)
        r1 = claripy.fpToIEEEBV(claripy.fpToFP(xb, S))
        r2 = claripy.fpToFP(claripy.fpToIEEEBV(yf), S)
        ctx.cov.setdefault("cancellation_rewrites", {})[fmt] = {"fpToIEEEBV(fpToFP(bv))": r1.op, "fpToFP(fpToIEEEBV(fp))": r2.op}
        z3 = z.z3
        for b in P.boundary_bits(fmt) + [P.rand_bits(ctx.rng, fmt) for _ in range(ctx.pick(50, 500))]:
            ctx.count()
            # what the rewritten ASTs denote at this point vs what SMT-LIB says about the original terms
            s = claripy.SolverCacheless()
            s.add(xb == claripy.BVV(b, W))
            got1 = s.eval(r1, 1)[0]
            want1 = z.value(z3.fpToIEEEBV(z3.fpBVToFP(z3.BitVecVal(b, W, z.ctx), z.sort(fmt))))
            if not P.is_nan_bits(fmt, b) and ("bv", W, got1) != want1:
                ctx.violation("C02/fptobv_simplifier/%s/non-nan" % fmt, "fpToIEEEBV(fpToFP(%#x)) is built as %s = %#x, SMT-LIB gives %s" % (b, r1.op, got1, want1),
                              {"kind": "cancel", "rule": 1, "fmt": fmt, "bits": b})
            s = claripy.SolverCacheless()
            s.add(yf.raw_to_bv() == claripy.BVV(b, W)) if not P.is_nan_bits(fmt, b) else s.add(claripy.fpIsNaN(yf))
            ok = s.satisfiable(extra_constraints=[claripy.fpIsNaN(r2)]) if P.is_nan_bits(fmt, b) else \
                s.eval(r2.raw_to_bv(), 1)[0] == b
            if not ok:
                ctx.violation("C02/fptofp_simplifier/%s/%s" % (fmt, "nan" if P.is_nan_bits(fmt, b) else "non-nan"),
                              "fpToFP(fpToIEEEBV(y)) with y = %#x is built as %s and does not denote y" % (b, r2.op),
                              {"kind": "cancel", "rule": 2, "fmt": fmt, "bits": b})
    # ---------------------------------------------------------------- 4c. construction-time rewrites of arithmetic nodes
    # one SYMBOLIC operand and one literal operand (the neutral / absorbing candidates), either position, every mode:
    # the expression claripy BUILDS (after any rewrite in simplifications.py) is translated to Z3 and evaluated with the
    # symbol pinned to boundary patterns; SMT-LIB's value of the written operation is Z3 on the two literals.
    import z3 as _z3
    bzb = claripy.backends.z3
    n_built = 0
    for fmt in "FD":
        S, W = P.sort_obj(fmt), P.WIDTH[fmt]
        eb_, sb_ = P.FMT[fmt]
        sign, one = 1 << (W - 1), ((1 << (eb_ - 1)) - 1) << (sb_ - 1)
        inf_, nan_ = ((1 << eb_) - 1) << (sb_ - 1), (((1 << eb_) - 1) << (sb_ - 1)) | (1 << (sb_ - 2))
        lits = [0, sign, one, one | sign, one + (1 << (sb_ - 1)), inf_, 1]        # +0 -0 1 -1 2 inf min-subnormal
        xs = [0, sign, one, one | sign, 1, sign | 1, inf_, inf_ | sign, nan_, one + 1, (one - (1 << (sb_ - 1))) | 1]
        xb = claripy.BVS("c02_sym", W)
        xf = xb.raw_to_fp()
        zx = bzb.convert(xb)
        for op in P.OPS_ARITH:
            for rm in P.RMS:
                R = P.rm_obj(rm)
                for lit in lits:
                    L = P.real_fpv(fmt, lit)
                    for pos in (0, 1):
                        try:
                            built = getattr(claripy, op)(R, xf, L) if pos == 0 else getattr(claripy, op)(R, L, xf)
                            zb = bzb.convert(built)
                        except Exception as ex:  # noqa
                            ctx.violation("C02/%s/construction/%s/raised:%s" % (op, rm, type(ex).__name__),
                                          "%s(%s, symbolic, literal %#x) cannot be built/translated: %s" % (op, rm, lit, str(ex)[:100]),
                                          {"kind": "built", "op": op, "fmt": fmt, "rm": rm, "lit": lit, "pos": pos, "x": 0})
                            continue
                        for xv in xs:
                            a = (xv, lit) if pos == 0 else (lit, xv)
                            want = z.solver_side(op, fmt, rm, a)
                            got = z.value(_z3.substitute(zb, (zx, _z3.BitVecVal(xv, W, z.ctx))))
                            ctx.count(); n_built += 1
                            if got != want:
                                cls = {0: "+0", sign: "-0", one: "1", one | sign: "-1", inf_: "inf"}.get(lit, "other")
                                sig = "C02/%s/construction-rewrite/literal=%s/pos=%d/%s" % (op, cls, pos, rm)
                                if sig not in reported:
                                    reported.add(sig)
                                    ctx.violation(sig, "%s(%s, %s) with the symbolic operand = %#x is built as %s and denotes %s; SMT-LIB gives %s" % (
                                        op, rm, "x, %#x" % lit if pos == 0 else "%#x, x" % lit, xv, built.op, P.fmt_res(got), P.fmt_res(want)),
                                        {"kind": "built", "op": op, "fmt": fmt, "rm": rm, "lit": lit, "pos": pos, "x": xv})
    # ---------------------------------------------------------------- 4c2. chains of conversions of a SYMBOLIC operand
    # fpToFP(rm2, fpToFP(rm1, x, mid), sort) for every pair of modes and every chain of sorts of length 2 and 3: a narrowing step
    # rounds under ITS mode, so the chain is not the direct conversion under the outer mode (0.1 through FLOAT under RNE, then
    # "to FLOAT" under RTZ, is not 0.1 to FLOAT under RTZ).  As in 4c the expression claripy BUILDS is translated and evaluated
    # with the symbol pinned; the reference is the written chain assembled with the raw Z3 constructors, step by step.
    n_chain = 0
    chain_vals = {"D": [0x3FB999999999999A, 0xBFB999999999999A, 0x3FF0000000000001, 0x36A0000000000001, 0x47EFFFFFF0000001, 0x0000000000000001,
                        0x7FF0000000000000, 0x8000000000000000, 0x3FE0000010000000, 0xC7EFFFFFFFFFFFFF],
                  "F": [0x3DCCCCCD, 0x00000001, 0x7F7FFFFF, 0x80000000, 0xBF800001]}
    for src in "DF":
        Wsrc = P.WIDTH[src]
        xb = claripy.BVS("c02_chain_%s" % src, Wsrc)
        xf = xb.raw_to_fp()
        zx = bzb.convert(xb)
        for sorts in [("F", "F"), ("F", "D"), ("D", "F"), ("D", "D"), ("F", "D", "F"), ("D", "F", "D"), ("F", "F", "D"), ("D", "F", "F")]:
            for rms in itertools.product(P.RMS, repeat=len(sorts)):
                if len(sorts) == 3 and ctx.rng.random() > ctx.pick(0.15, 1.0):
                    continue
                try:
                    built = xf
                    for rm, fm in zip(rms, sorts):
                        built = claripy.fpToFP(P.rm_obj(rm), built, P.sort_obj(fm))
                    zb = bzb.convert(built)
                except Exception as ex:  # noqa
                    ctx.violation("C02/fpToFP-chain/raised:%s" % type(ex).__name__, "the chain %s under %s of a symbolic %s cannot be built/translated: %s" % (
                        sorts, rms, src, str(ex)[:100]), {"kind": "chain", "src": src, "sorts": list(sorts), "rms": list(rms), "x": 0})
                    continue
                for xv in chain_vals[src]:
                    ref = _z3.fpBVToFP(_z3.BitVecVal(xv, Wsrc, z.ctx), z.sort(src))
                    for rm, fm in zip(rms, sorts):
                        ref = bzb._op_raw_fpToFP(z.rm(rm), ref, z.sort(fm))
                    want = z.value(ref)
                    got = z.value(_z3.substitute(zb, (zx, _z3.BitVecVal(xv, Wsrc, z.ctx))))
                    ctx.count(); n_chain += 1
                    if got != want:
                        sig = "C02/fpToFP-chain/construction-rewrite/%s->%s/%s" % (src, "->".join(sorts), "same-mode" if len(set(rms)) == 1 else "mixed-modes")
                        if sig not in reported:
                            reported.add(sig)
                            ctx.violation(sig, "a symbolic %s = %#x converted through %s under %s is built as %s and denotes %s; SMT-LIB gives %s" % (
                                src, xv, sorts, rms, built, P.fmt_res(got), P.fmt_res(want)),
                                {"kind": "chain", "src": src, "sorts": list(sorts), "rms": list(rms), "x": xv})
    ctx.cov["input_distribution"]["fpToFP-chains(symbolic operand)"] = n_chain
    # ---------------------------------------------------------------- 4d. comparisons of two SYMBOLIC operands under Boolean structure
    # Not / And / Or / If over float comparisons are rewritten by the Boolean simplifiers (negation tables, complement
    # detection): the expression claripy builds, with both symbols pinned to boundary patterns (NaN, zeros of both signs,
    # infinities), must have the truth value SMT-LIB gives the written formula — comparisons with NaN are all false, so a
    # comparison and its "opposite" are not complements
    n_bool = 0
    for fmt in "FD":
        S, W = P.sort_obj(fmt), P.WIDTH[fmt]
        eb_, sb_ = P.FMT[fmt]
        sign, one = 1 << (W - 1), ((1 << (eb_ - 1)) - 1) << (sb_ - 1)
        inf_, nan_ = ((1 << eb_) - 1) << (sb_ - 1), (((1 << eb_) - 1) << (sb_ - 1)) | (1 << (sb_ - 2))
        vals = [0, sign, one, one | sign, inf_, inf_ | sign, nan_, one + 1]
        xb, yb = claripy.BVS("c02_bx", W), claripy.BVS("c02_by", W)
        xf, yf = xb.raw_to_fp(), yb.raw_to_fp()
        zx, zy = bzb.convert(xb), bzb.convert(yb)
        cmps = [c for c in P.OPS_CMP if hasattr(claripy, c)]

        def atom(rng_):
            c = rng_.choice(cmps + ["==", "!="])
            l, r = rng_.choice([(xf, yf), (yf, xf), (xf, xf), (xf, P.real_fpv(fmt, rng_.choice(vals))), (P.real_fpv(fmt, rng_.choice(vals)), yf)])
            return (l == r) if c == "==" else (l != r) if c == "!=" else getattr(claripy, c)(l, r)
        for it in range(ctx.pick(120, 1500)):
            rng_ = ctx.rng
            shape = rng_.choice(["not", "not", "notnot", "and", "or", "ite", "not-and", "not-or"])
            a1, a2 = atom(rng_), atom(rng_)
            try:
                za1, za2 = bzb.convert(a1), bzb.convert(a2)       # atoms are translated as they are (checked by sections 1-3)
                if shape == "not":
                    built, written = claripy.Not(a1), _z3.Not(za1)
                elif shape == "notnot":
                    built, written = claripy.Not(claripy.Not(a1)), za1
                elif shape == "and":
                    built, written = claripy.And(a1, claripy.Not(a2)), _z3.And(za1, _z3.Not(za2))
                elif shape == "or":
                    built, written = claripy.Or(claripy.Not(a1), a2), _z3.Or(_z3.Not(za1), za2)
                elif shape == "ite":
                    built, written = claripy.If(claripy.Not(a1), a2, claripy.Not(a2)), _z3.If(_z3.Not(za1), za2, _z3.Not(za2))
                elif shape == "not-and":
                    built, written = claripy.Not(claripy.And(a1, a2)), _z3.Not(_z3.And(za1, za2))
                else:
                    built, written = claripy.Not(claripy.Or(a1, a2)), _z3.Not(_z3.Or(za1, za2))
                zb = bzb.convert(built)
            except Exception as ex:  # noqa
                ctx.violation("C02/boolean-structure/%s/raised:%s" % (shape, type(ex).__name__), "%s over %r, %r cannot be built/translated: %s" % (shape, a1, a2, str(ex)[:100]),
                              {"kind": "bool", "shape": shape})
                continue
            bad = None
            for xv in vals:
                for yv in vals:
                    sub = ((zx, _z3.BitVecVal(xv, W, z.ctx)), (zy, _z3.BitVecVal(yv, W, z.ctx)))
                    got, want = z.value(_z3.substitute(zb, *sub)), z.value(_z3.substitute(written, *sub))
                    ctx.count(); n_bool += 1
                    if got != want and want[0] == "b":
                        bad = (xv, yv, got, want); break
                if bad:
                    break
            if bad:
                sig = "C02/boolean-structure/%s/%s" % (shape, a1.op)
                if sig not in reported:
                    reported.add(sig)
                    ctx.violation(sig, "%s over %r, %r is built as %r; with x = %#x, y = %#x it is %s, the written formula is %s" % (
                        shape, a1, a2, built, bad[0], bad[1], bad[2][1] if bad[2][0] == "b" else bad[2], bad[3][1]),
                        {"kind": "bool", "shape": shape, "fmt": fmt, "a1": repr(a1), "a2": repr(a2), "x": bad[0], "y": bad[1]})
    ctx.cov["boolean_structure_evaluations"] = n_bool
    ctx.cov["built_expression_evaluations"] = n_built
    # ---------------------------------------------------------------- 5. symbolic side end to end (sample)
    n = ctx.pick(60, 600)
    ar = [c for c in cases if c[0] in P.OPS_ARITH + ("fpSqrt", "fpToFP_fp", "fpToSBV")]
    for op, fmt, rm, a in ctx.rng.sample(ar, min(n, len(ar))):
        r = e2e(z, op, fmt, rm, a)
        ctx.count()
        if r:
            # the solver evaluates concrete sub-terms with the same folding code: if the solver's answer is the folded
            # answer, this is the folding defect (same signature), not a second one
            rf, zs = P.real_fold(op, fmt, rm, a), z.solver_side(op, fmt, rm, a)
            sig = classify(z, op, fmt, rm, a, rf, zs) if (rf != zs and r[0] == "value" and r[2] == rf) else \
                "C02/%s/end-to-end-solver/%s" % (op, r[0])
            ctx.violation(sig, r[1],
                          {"kind": "e2e", "op": op, "fmt": fmt, "rm": rm, "args": [list(v) if isinstance(v, tuple) else v for v in a]})
    mid = cases[len(cases) // 3]
    ctx.sample({"case": P.fmt_case(*mid), "folded": P.fmt_res(P.real_fold(*mid)), "z3": P.fmt_res(z.solver_side(*mid))})


def e2e(z, op, fmt, rm, a):
    """first float operand symbolic (pinned by its bit pattern); the solver's value of the operation vs Z3 on the literals"""
    import claripy
    zs = z.solver_side(op, fmt, rm, a)
    if P.unspecified(op, fmt, rm, a, zs):
        return None
    src = P.other(fmt) if op == "fpToFP_fp" else fmt
    W = P.WIDTH[src]
    bv = claripy.BVS("c02_b", W)
    x = bv.raw_to_fp()
    R = P.rm_obj(rm)
    try:
        if op in P.OPS_ARITH:
            e = getattr(claripy, op)(R, x, P.real_fpv(fmt, a[1]))
        elif op == "fpSqrt":
            e = claripy.fpSqrt(R, x)
        elif op == "fpToFP_fp":
            e = claripy.fpToFP(R, x, P.sort_obj(fmt))
        else:
            e = claripy.fpToSBV(R, x, a[1])
        s = claripy.Solver()
        s.add(bv == claripy.BVV(a[0], W))
        if zs[0] == "bv":
            got = ("bv", zs[1], s.eval(e, 1)[0])
        else:
            if zs[2] == "nan":
                got = zs if s.satisfiable(extra_constraints=[claripy.fpIsNaN(e)]) else ("f", zs[1], "not-nan")
            else:
                got = ("f", zs[1], s.eval(e.raw_to_bv(), 1)[0])
    except Exception as ex:  # noqa
        return ("err", "%s through a Solver raised %s: %s" % (P.fmt_case(op, fmt, rm, a, prefix="").strip(), type(ex).__name__, str(ex)[:100]))
    if got != zs:
        return ("value", "%s through a Solver gives %s, Z3 on literals gives %s" % (P.fmt_case(op, fmt, rm, a, prefix="").strip(), P.fmt_res(got), P.fmt_res(zs)), got)
    return None


def replay(ctx, obj):
    r = obj["replay"]
    z = P.ZF()
    if r["kind"] == "built":
        import claripy, z3 as _z3
        fmt, op, rm, lit, pos, xv = r["fmt"], r["op"], r["rm"], r["lit"], r["pos"], r["x"]
        W = P.WIDTH[fmt]
        xb = claripy.BVS("c02_sym", W)
        xf = xb.raw_to_fp()
        L = P.real_fpv(fmt, lit)
        built = getattr(claripy, op)(P.rm_obj(rm), xf, L) if pos == 0 else getattr(claripy, op)(P.rm_obj(rm), L, xf)
        bzb = claripy.backends.z3
        got = z.value(_z3.substitute(bzb.convert(built), (bzb.convert(xb), _z3.BitVecVal(xv, W, z.ctx))))
        want = z.solver_side(op, fmt, rm, (xv, lit) if pos == 0 else (lit, xv))
        print("%s %s built as %s: denotes %s at x=%#x, SMT-LIB gives %s" % (op, rm, built.op, P.fmt_res(got), xv, P.fmt_res(want)))
        return 0 if got == want else 1
    if r["kind"] == "chain":
        import claripy, z3 as _z3
        src, sorts, rms, xv = r["src"], r["sorts"], r["rms"], r["x"]
        W = P.WIDTH[src]
        bzb = claripy.backends.z3
        xb = claripy.BVS("c02_chain_%s" % src, W)
        built = xb.raw_to_fp()
        ref = _z3.fpBVToFP(_z3.BitVecVal(xv, W, z.ctx), z.sort(src))
        for rm, fm in zip(rms, sorts):
            built = claripy.fpToFP(P.rm_obj(rm), built, P.sort_obj(fm))
            ref = bzb._op_raw_fpToFP(z.rm(rm), ref, z.sort(fm))
        got = z.value(_z3.substitute(bzb.convert(built), (bzb.convert(xb), _z3.BitVecVal(xv, W, z.ctx))))
        want = z.value(ref)
        print("chain %s under %s built as %s: denotes %s at x=%#x, SMT-LIB gives %s" % (sorts, rms, built, P.fmt_res(got), xv, P.fmt_res(want)))
        return 0 if got == want else 1
    if r["kind"] == "cancel":
        import claripy
        fmt, b = r["fmt"], r["bits"]
        S, W = P.sort_obj(fmt), P.WIDTH[fmt]
        xb = claripy.BVS("c02_cb", W)
        e = claripy.fpToIEEEBV(claripy.fpToFP(xb, S)) if r["rule"] == 1 else claripy.fpToFP(claripy.fpToIEEEBV(xb.raw_to_fp()), S).raw_to_bv()
        s = claripy.SolverCacheless(); s.add(xb == claripy.BVV(b, W))
        got = s.eval(e, 1)[0]
        print("rule %d on bits %#x -> %#x" % (r["rule"], b, got))
        return 0 if got == b or P.is_nan_bits(fmt, b) else 1
    if r["kind"] == "literal":
        li = z.literal_in(r["fmt"], r["bits"])
        print("FPV bits %#x reaches Z3 as %s" % (r["bits"], li))
        return 0 if li == P.canon(r["fmt"], r["bits"]) else 1
    a = tuple(tuple(v) if isinstance(v, list) else v for v in r["args"])
    op, fmt, rm = r["op"], r["fmt"], r["rm"]
    rf = P.real_fold(op, fmt, rm, a)
    zs = z.solver_side(op, fmt, rm, a)
    print("%s: folded=%s SMT-LIB(Z3)=%s" % (P.fmt_case(op, fmt, rm, a, prefix="").strip(), P.fmt_res(rf), P.fmt_res(zs)))
    if r["kind"] == "e2e":
        e = e2e(z, op, fmt, rm, a)
        print("  end to end:", e)
        return 1 if e else 0
    uns = P.unspecified(op, fmt, rm, a, zs)
    return 1 if (rf != zs and not (uns and rf[0] not in ("err", "unfolded"))) else 0
