"""C21 — strided-interval transfer functions are sound.
prove (Lean, all widths) -> correspondence (Lean model vs real code, exact tuples) -> oracle on the real code
(member enumeration; exhaustive at small widths, boundary-biased samples at 5..64 bits) -> name stream
(lib/vsa_names.py: results compared with their own operands, f(x) cmp x, operands correlated through the shared object)
-> sequence stream (lib/vsa_names.py: query x, derive from x, query the derived object and x again - hidden per-object state)."""
import logging

from lib import vsa
from lib import vsa_check as vc
from lib import vsa_names as vn

PROP = "C21"
THEOREMS = vc.THEOREMS_C21
TESTS = vc.TESTS_C21


def gen_cases(ctx):
    """-> list of (op, args, stream)"""
    rng = ctx.rng
    cases = []
    binops = list(vsa.BIN) + list(vsa.CMP)
    # (1) bounded-exhaustive: every interval of width <= wx (pairs for binary operations)
    wx = ctx.pick(2, 3)
    for w in range(1, wx + 1):
        sis = vsa.all_sis(w)
        for a in sis:
            for op in vsa.UN:
                cases.append((op, [a], "exh"))
            for b in sis:
                for op in binops:
                    cases.append((op, [a, b], "exh"))
    # unary-shaped operations exhaustively one or two widths further
    for w in range(1, ctx.pick(3, 4) + 1):
        for a in vsa.all_sis(w):
            if w > wx:
                for op in vsa.UN:
                    cases.append((op, [a], "exh"))
            for nl in range(w + 1, w + 4):
                cases.append(("zext", [a, nl], "exh"))
                cases.append(("sext", [a, nl], "exh"))
            for lo in range(w):
                for hi in range(lo, w):
                    cases.append(("extract", [a, hi, lo], "exh"))
    for wa in range(1, ctx.pick(2, 3) + 1):
        for wb in range(1, ctx.pick(2, 3) + 1):
            for a in vsa.all_sis(wa):
                for b in vsa.all_sis(wb):
                    cases.append(("concat", [a, b], "exh"))
    # (2) sampled pairs one width above the exhaustive bound (and width 4)
    for w in (wx + 1, 4):
        pool = vsa.all_sis(w)
        for _ in range(ctx.pick(1500, 12000)):
            a, b = rng.choice(pool), rng.choice(pool)
            for op in binops:
                cases.append((op, [a, b], "small"))
    # (3) random intervals at 5..64 bits
    for _ in range(ctx.pick(900, 5000)):
        w = rng.choice(vsa.WIDE_WIDTHS)
        a, b = vsa.rand_si(rng, w), vsa.rand_si(rng, w)
        if rng.random() < 0.3:      # small shift amounts / divisors are the interesting second operands
            lo, hi = sorted((rng.randrange(0, w + 2), rng.randrange(0, w + 2)))
            st = rng.choice([1, 1, 2])
            b = vsa.norm(w, st, lo, lo + (hi - lo) // st * st)
        for op in binops:
            cases.append((op, [a, b], "wide"))
        for op in vsa.UN:
            cases.append((op, [a], "wide"))
        nl = w + rng.choice([1, 3, 8, 32])
        cases.append(("zext", [a, nl], "wide"))
        cases.append(("sext", [a, nl], "wide"))
        lo = rng.randrange(w); hi = rng.randrange(lo, w)
        cases.append(("extract", [a, hi, lo], "wide"))
        wb = rng.choice([1, 3, 8, 16])
        cases.append(("concat", [a, vsa.rand_si(rng, wb)], "wide"))
    return cases


def run(ctx):
    logging.disable(logging.CRITICAL)
    import time
    t0 = time.time()
    vc.run_family(ctx, PROP, gen_cases(ctx), THEOREMS, TESTS)
    t1 = time.time()
    # the name / identity dimension: y = f(x, ..) derived from ONE named interval x, then y cmp x for all ten comparisons
    vn.run_stream(ctx, PROP)
    t2 = time.time()
    # hidden per-object state: query x, derive from x (every unary operation / width change), query the derived object and x again
    vn.run_seq_stream(ctx, PROP)
    ctx.cov["seconds_by_stage"] = {"prove+correspondence+oracle": round(t1 - t0, 1), "name_stream": round(t2 - t1, 1),
                                   "sequence_stream": round(time.time() - t2, 1)}


def replay(ctx, obj):
    logging.disable(logging.CRITICAL)
    if obj["replay"].get("name_case"):
        return vn.replay_name_case(ctx, PROP, obj)
    if obj["replay"].get("seq_case"):
        return vn.replay_seq_case(ctx, PROP, obj)
    return vc.replay_case(ctx, PROP, obj)
