"""C25 — constraint_to_si never cuts off a satisfying assignment.
prove (Lean: model of Balancer._doit on one comparison with per-step, loop, handler and composite soundness theorems; pre-image
lemmas on wrapped intervals) -> correspond (the model vs the real constraint_to_si on the generated constraints, exact) ->
oracle on the real balancer: every satisfying assignment of every generated constraint is enumerated (width <= 8, 1..2 variables)."""
import collections, itertools, logging, pickle

from lib import vsa, vsa_expr as vx, vsa_balancer as vb

PROP = "C25"
P = "Claripy.Props.C25."
L = "Claripy.VSA."
THEOREMS = [P + n for n in ("C25_preimage_add", "C25_pair_exact", "C25_lone_bound_not_a_preimage", "C25_extract_uge", "C25_extract_ne",
                            "C25_extract_eq_not_pre", "C25_extract_ule_not_pre", "C25_shl_uge", "C25_shl_ule_not_pre", "C25_combine_bounds")] + \
           [L + n for n in ("Win_preimage_add", "Win_rot", "cd_rot", "add_ule_pair", "add_uge_pair", "balAddPair_exact")] + \
           [P + n for n in ("C25_align_sound", "C25_step_holds", "C25_add_rot", "C25_sub_rot", "C25_balance_holds", "C25_balance_rot",
                            "C25_handle_sound", "C25_balancer_sound", "C25_pair_sound", "C25_balancer_sound_pair", "C25_unsat_sound",
                            "C25_replacement_interval", "C25_mixed_path_cuts_off_model", "C25_handle_signed_char", "C25_pair_sound_signed", "C25_balancer_sound_signed", "C25_unsat_sound_signed", "C25_unsat_sound_eqne_partial", "C25_balancer_sound_nolit", "C25_balancer_sound_pair_nolit", "C25_balancer_sound_signed_nolit", "C25_step_signed_zext", "C25_step_signed_concat", "C25_handle_sound_signed_unsigned_reading", "C25_zext_signed_not_meaning_preserving",
                            "C25_step_signed_sext", "C25_step_signed_and", "C25_step_signed_extract", "C25_step_signed_shl", "C25_step_holds_signed",
                            "C25_step_holds_signed_full_proved", "C25_sext_signed_not_meaning_preserving", "C25_balance_holds_signed",
                            "C25_balance_holds_signed_unsigned_reading", "C25_process_sound_signed_unsigned_reading",
                            "C25_balancer_sound_signed_arms_partial")]
TESTS = [P + "test_pair_example", P + "test_covered_example"]


def pair_correspondence(ctx):
    """the bound pair of the Lean model (balAddPair, proved exact) vs the bound the real constraint_to_si returns for
    x + c OP d and x - c OP d on a plain variable: same member sets, every (c, d) at width <= 4, sampled at 5..8 bits"""
    import claripy
    lines, wants = [], []
    cases = []
    for w in (1, 2, 3, 4):
        for c in range(1 << w):
            for d in range(1 << w):
                for op in ("ULE", "ULT", "UGE", "UGT"):
                    cases.append((w, op, c, d, "add"))
                    if ctx.thorough() or (c + d) % 3 == 0:
                        cases.append((w, op, c, d, "sub"))
    for _ in range(ctx.pick(200, 4000)):
        w = ctx.rng.choice([5, 6, 7, 8])
        cases.append((w, ctx.rng.choice(["ULE", "ULT", "UGE", "UGT"]), ctx.rng.randrange(1 << w), ctx.rng.randrange(1 << w), ctx.rng.choice(["add", "sub"])))
    bad = None
    n = 0
    for k, (w, op, c, d, kind) in enumerate(cases):
        x = claripy.BVS("p%d" % k, w, explicit_name=True)
        m = 1 << w
        cc = c if kind == "add" else (m - c) % m          # x - c = x + (2^w - c)
        lhs = x + claripy.BVV(c, w) if kind == "add" else x - claripy.BVV(c, w)
        cst = getattr(claripy, op)(lhs, claripy.BVV(d, w))
        if cst.op == "BoolV" or lhs.op not in ("__add__", "__sub__"):
            continue            # folded by the constructor (c = 0, ...)
        sat, repl = claripy.backends.vsa.constraint_to_si(cst)
        real = None
        if not sat:
            real = "unsat"
        else:
            for e, b in repl:
                if e is x:
                    t = vsa.tup(claripy.backends.vsa.convert(b))
                    real = set(vsa.gamma(t)) if isinstance(t, tuple) else set()
            if real is None:
                real = set(range(m))
        lines.append("bal %s %d %d %d" % (op, w, cc, d))
        wants.append((real, (w, op, c, d, kind)))
    outs = ctx.driver(lines, exe="driver_vsa")
    for o, (real, desc) in zip(outs, wants):
        n += 1
        ctx.cov["traces_validated_against_impl"] += 1
        w = desc[0]
        m = 1 << w
        if o == "unsat":
            model = "unsat-or-empty"
        else:
            lo, hi = map(int, o.split())
            span = (hi - lo) % m
            model = {(lo + j) % m for j in range(span + 1)}
        # an unsatisfiable comparison is reported as unsat by the real code or bounded by the empty set
        ok = (model == "unsat-or-empty" and real in ("unsat", set())) or (model == real)
        if not ok and bad is None:
            bad = "%s: model %s real %s" % (desc, sorted(model) if isinstance(model, set) else model, sorted(real) if isinstance(real, set) else real)
    if bad:
        ctx.tie_broken("corr:balance_add_pair", bad)
    return n


def balancer_correspondence(ctx, cases):
    """the Lean model of the balancer (Claripy/VSA/BalancerModel.lean, driver command `balance`) vs the REAL
    constraint_to_si on the generated constraints: same satisfiable flag, same replacement targets, same recorded
    (lower, upper) pair and the same interval `convert(bound)` for every target - or the same exception.
    Outside the model's fragment (counted, see the header of the model): the excavated constraint is not a single
    comparison of bit-vectors; n-ary +, Concat, ...; /u; the other side of the comparison is not a literal; the
    result depends on the construction-time simplifiers of Extract / == / != (two real runs disagree)."""
    import claripy
    st = collections.Counter()
    lines, wants, descs, ops = [], [], [], []
    for c, xs, annos in cases:
        try:
            e = claripy.excavate_ite(c)
        except Exception:  # noqa
            st["skipped:excavate-raises"] += 1
            continue
        if not vb.is_single_comparison(e):
            st["skipped:not-a-single-comparison"] += 1
            continue
        vi = {x.args[0]: j for j, x in enumerate(xs)}
        try:
            toks = vb.serialize(e, vi)
        except vx.Unmodelled as u:
            st["skipped:" + str(u)] += 1
            continue
        r1 = vb.real_result(c, vi)
        with vb.simplifiers_off():
            r2 = vb.real_result(c, vi)
        if r1 != r2:
            st["skipped:depends-on-extract-eq-ne-simplifiers"] += 1
            continue
        lines.append("balance %s ; %s" % (vb.fmt_annos(xs, annos), " ".join(toks)))
        wants.append(r1)
        descs.append(str(c))
        ops.append((toks[1], toks[2] == "bin" and toks[3] in ("add", "sub") or toks[2] == "const" and "bin add" in " ".join(toks) or
                    toks[2] == "const" and "bin sub" in " ".join(toks)))
    outs = ctx.driver(lines, exe="driver_vsa") if lines else []
    bad = None
    paths = collections.Counter()
    thm = collections.Counter()
    classes = {}
    for o, want, d, ln, (op, _) in zip(outs, wants, descs, lines, ops):
        got, info = vb.model_result(o)
        if got[0] == "unmodelled":
            st["skipped:model-" + got[1]] += 1
            continue
        st["compared"] += 1
        ctx.cov["traces_validated_against_impl"] += 1
        if got == want:
            st["agree:" + (want if isinstance(want, str) else want[0])] += 1
            if info:
                paths[" | ".join(x.strip().split(".")[0] or "none" for x in info.split(" | "))] += 1
                cls = theorem_class(op, info)
                thm[cls] += 1
                classes[d] = cls
        else:
            st["DISAGREE"] += 1
            if bad is None:
                bad = "%s   [%s]   model=%s real=%s" % (d, ln, o, want)
    ctx.cov["balancer_correspondence"] = dict(st)
    ctx.cov["balancer_theorem_coverage(of the compared, satisfiable inputs)"] = dict(thm)
    ctx.cov["balancer_paths(main | assumption: m = constant moved across +/-, p = other arm)"] = dict(paths)
    skipped = sum(v for k, v in st.items() if k.startswith("skipped:model-") or k.startswith("skipped:depends"))
    if bad:
        ctx.tie_broken("corr:balancer", bad + "  [%d disagreement(s) of %d]" % (st["DISAGREE"], st["compared"]))
    elif st["compared"] and skipped * 5 > st["compared"]:
        # the fragment is meant to cover the generator: a model that declares most inputs unmodelled ties nothing
        ctx.tie_broken("corr:balancer", "the model skips %d inputs for %d compared" % (skipped, st["compared"]))
    return classes


def theorem_class(op, info):
    """which composite theorem of Props/C25.lean speaks about this input (from the path information the model prints:
    per path the flags m = a constant was moved across +/-, p = another arm was used, then the final left side)"""
    parts = [x.strip() for x in info.split(" | ")]
    flags = [x.split(".")[0] for x in parts]
    finals = [x.split(".", 1)[1] if "." in x else None for x in parts]
    if op in ("SLT", "SLE", "SGT", "SGE"):
        # C25_balancer_sound_signed: truism and implicit assumption balanced only across +/- or unchanged, same final expression
        if len(flags) >= 2 and all(f in ("", "m") for f in flags[:2]) and flags[0] == flags[1] and finals[0] == finals[1]:
            return "C25_balancer_sound_signed(signed ordering, both paths unchanged or only +/-, same expression)"
        if not any("m" in f for f in flags[:2]):
            # per path: C25_balance_holds_signed (the loop keeps the signed-or-unsigned reading through ZeroExt/SignExt/Concat/&/Extract/<<0) and
            # C25_balancer_sound_signed_arms_partial (a path that ends in the unsigned reading leaves a sound lone bound); the label does not
            # start with C25_: there is no composite for the pair of paths yet, so the oracle is not tied to a proof on this class
            return "signed-comparison(a path goes through another arm, none across +/-: loop theorem C25_balance_holds_signed per path, composite partial)"
        return "signed-comparison(a path mixes +/- with another arm: no theorem)"
    if op in ("eq", "ne"):
        return "C25_balancer_sound(==, != on every path)"
    mods = ["m" in f for f in flags]
    if not any(mods):
        return "C25_balancer_sound(no constant moved across +/-)"
    if flags[0] == "m" and flags[1] == "m" and finals[0] == finals[1]:
        return "C25_balancer_sound_pair(both paths only +/-, same expression)"
    return "mixed-paths(guard of the theorems fails: the class of the open finding)"

CMPS = ["ULT", "ULE", "UGT", "UGE", "SLT", "SLE", "SGT", "SGE", "eq", "ne"]


def cmp_ast(op, a, b):
    import claripy
    if op == "eq":
        return a == b
    if op == "ne":
        return a != b
    return getattr(claripy, op)(a, b)


def gen_lhs(rng, xs, w):
    """a bit-vector shape of width w over the variables (the shapes named by the property)"""
    import claripy
    x = rng.choice(xs)
    wx = x.size()
    k = rng.random()
    const = lambda ww: claripy.BVV(rng.choice([0, 1, 2, 3, (1 << ww) - 1, 1 << (ww - 1), rng.randrange(1 << ww)]) & ((1 << ww) - 1), ww)  # noqa: E731
    shapes = ["var", "add", "sub", "rsub", "extract", "extract0", "concat0", "concatc", "zext", "sext", "and", "shl", "if", "add2", "neg", "lshr", "mul",
              "sub2", "sub2", "or", "xor", "not", "udiv", "urem", "ashr", "op2"]
    sh = rng.choice(shapes)
    if sh == "var":
        e = x
    elif sh == "add":
        e = x + const(wx)
    elif sh == "sub":
        e = x - const(wx)
    elif sh == "rsub":
        e = const(wx) - x
    elif sh == "extract" and wx > 1:
        lo = rng.randrange(0, wx); hi = rng.randrange(lo, wx)
        e = x[hi:lo]
    elif sh == "extract0" and wx > 1:
        e = x[rng.randrange(0, wx - 1):0]
    elif sh == "concat0":
        e = claripy.Concat(claripy.BVV(0, rng.randrange(1, 4)), x)
    elif sh == "concatc":
        e = claripy.Concat(x, const(rng.randrange(1, 4)))
    elif sh == "zext":
        e = x.zero_extend(rng.randrange(1, 5))
    elif sh == "sext":
        e = x.sign_extend(rng.randrange(1, 5))
    elif sh == "and":
        e = x & claripy.BVV(rng.choice([(1 << rng.randrange(1, wx + 1)) - 1, rng.randrange(1 << wx)]), wx)
    elif sh == "shl":
        e = x << rng.randrange(0, wx)
    elif sh == "lshr":
        e = claripy.LShR(x, rng.randrange(0, wx))
    elif sh == "mul":
        e = x * const(wx)
    elif sh == "neg":
        e = -x
    elif sh == "if":
        y = rng.choice(xs)
        c = cmp_ast(rng.choice(CMPS), y, const(y.size()))
        e = claripy.If(c, x + const(wx), const(wx)) if rng.random() < 0.5 else claripy.If(c, const(wx), x)
    elif sh == "add2" and len(xs) > 1 and xs[0].size() == xs[1].size():
        e = xs[0] + xs[1] + (const(wx) if rng.random() < 0.5 else 0)
    elif sh == "or":
        e = x | const(wx)
    elif sh == "xor":
        e = x ^ const(wx)
    elif sh == "not":
        e = ~x
    elif sh == "udiv":          # a zero divisor is exempt (the abstract quotient is the empty interval)
        e = x // claripy.BVV(rng.randrange(1, 1 << wx) if wx > 0 else 1, wx)
    elif sh == "urem":
        e = x % claripy.BVV(rng.randrange(1, 1 << wx), wx)
    elif sh == "ashr":
        e = x >> rng.randrange(0, wx)
    elif sh == "op2" and len(xs) > 1 and xs[0].size() == xs[1].size():
        # operators the balancer has no arm for, on two multi-valued operands (must be left alone)
        a, b = (xs[0], xs[1]) if rng.random() < 0.5 else (xs[1], xs[0])
        e = rng.choice([lambda: a * b, lambda: a & b, lambda: a | b, lambda: a // b, lambda: a << b, lambda: claripy.LShR(a, b)])()
    elif sh == "sub2" and len(xs) > 1 and xs[0].size() == xs[1].size():
        # two multi-valued operands of a subtraction (the balancer must not move the subtrahend across the comparison)
        a, b = (xs[0], xs[1]) if rng.random() < 0.5 else (xs[1], xs[0])
        e = rng.choice([lambda: a - b, lambda: a - b - const(wx), lambda: a - const(wx) - b, lambda: const(wx) - a - b,
                        lambda: a + const(wx) - b, lambda: a - (b + const(wx))])()
    else:
        e = x
    # nest once more sometimes
    if rng.random() < 0.3:
        we = e.size()
        sh2 = rng.choice(["add", "zext", "extract0", "sub", "concat0"])
        if sh2 == "add":
            e = e + const(we)
        elif sh2 == "sub":
            e = e - const(we)
        elif sh2 == "zext":
            e = e.zero_extend(rng.randrange(1, 4))
        elif sh2 == "concat0":
            e = claripy.Concat(claripy.BVV(0, rng.randrange(1, 3)), e)
        elif we > 1:
            e = e[rng.randrange(0, we - 1):0]
    return e


# ---- directed shapes: every balancer arm that removes an operator does so under a side condition on known-zero bits of the operand
# and on the bits of the other side.  Two layers (inner establishes known bits, outer is the arm), then ALL ten comparisons against
# constants around the alignment the arm cares about (k*2^n, k*2^n +- 1) and uniform ones: "shifted comparisons with unaligned constants".
LAYERS = ["and_low", "and_high", "and_any", "zext", "concat0", "concatc", "sext", "shl", "lshr", "extract", "extract0", "ashr", "or_low"]
ARMS = ["and_low", "zext", "concat0", "concatc", "sext", "shl", "shl", "extract", "extract0"]
ZERO_HIGH = ["and_low", "zext", "concat0", "lshr"]          # layers whose result has known-zero high bits
ZERO_LOW = ["and_high", "concatc", "shl"]                   # ... known-zero low bits


def layer(rng, e, kind, amount=None):
    """-> (expression, n) where n is the number of bits the layer moves / masks (used to pick constants)"""
    import claripy
    w = e.size()
    n = amount if amount is not None else rng.randrange(1, max(2, w))
    n = max(1, min(n, max(1, w - 1)))
    if kind == "and_low":
        return e & claripy.BVV((1 << n) - 1, w), n
    if kind == "and_high":
        return e & claripy.BVV(((1 << w) - 1) ^ ((1 << n) - 1), w), n
    if kind == "and_any":
        return e & claripy.BVV(rng.randrange(1 << w), w), n
    if kind == "or_low":
        return e | claripy.BVV((1 << n) - 1, w), n
    if kind == "zext":
        n = min(n, 3)
        return e.zero_extend(n), n
    if kind == "sext":
        n = min(n, 3)
        return e.sign_extend(n), n
    if kind == "concat0":
        n = min(n, 3)
        return claripy.Concat(claripy.BVV(0, n), e), n
    if kind == "concatc":
        n = min(n, 3)
        return claripy.Concat(e, claripy.BVV(0 if rng.random() < 0.7 else rng.randrange(1 << n), n)), n
    if kind == "shl":
        n = rng.randrange(0, w + 1) if amount is None and rng.random() < 0.2 else n
        return e << n, n
    if kind == "lshr":
        return claripy.LShR(e, n), n
    if kind == "ashr":
        return e >> n, n
    if kind == "extract" and w > 1:
        lo = rng.randrange(0, w); hi = rng.randrange(lo, w)
        if amount is not None:          # keep the low part / drop `amount` low bits
            lo, hi = rng.choice([(0, w - 1 - n), (n, w - 1), (0, max(0, n - 1))])
        return e[hi:lo], max(lo, 1)
    if kind == "extract0" and w > 1:
        return e[w - 1 - n:0], n
    return e, n


def gen_layered(rng, xs):
    """-> list of constraints: one two-layer shape, all ten comparisons, constants around the alignment and uniform"""
    import claripy
    x = rng.choice(xs)
    outer = rng.choice(ARMS + ARMS + LAYERS)      # layers the balancer has an arm for, three times as often as the control layers
    n_out = rng.randrange(1, max(2, x.size()))
    r = rng.random()
    if r < 0.5:
        # an inner layer that gives the outer arm its side condition (known-zero bits where the outer layer drops bits)
        inner = rng.choice(ZERO_HIGH if outer in ("shl", "extract", "extract0", "zext", "concat0", "and_low") else ZERO_LOW + ZERO_HIGH)
        e, _ = layer(rng, x, inner, amount=min(3, n_out + rng.choice([0, 0, 1])))
    elif r < 0.85:
        e, _ = layer(rng, x, rng.choice(LAYERS))
    else:
        e = x
    if e.size() > 8:
        e = x
    lhs, n = layer(rng, e, outer, amount=min(n_out, e.size() - 1) if e.size() > 1 else None)
    if rng.random() < 0.15 and lhs.size() <= 7:
        lhs, n = layer(rng, lhs, rng.choice(LAYERS))
    w = lhs.size()
    if w > 10:
        return []
    m = (1 << w) - 1
    k = rng.randrange(0, (m >> n) + 1) << n if n < w else 0
    consts = {k & m, (k + 1) & m, (k - 1) & m, rng.randrange(1 << w), rng.randrange(1 << w), (k + (1 << max(0, n - 1))) & m}
    out = []
    if w <= 6 and x.size() <= 4 and rng.random() < 0.15:
        # the other side is a second, multi-valued variable (annotated: few values, bounds around the alignment)
        from claripy.annotation import StridedIntervalAnnotation
        lo = rng.choice(sorted(consts))
        st = rng.choice([1, 1, 2, 1 << max(0, n - 1), 1 << min(n, w - 1)])
        cnt = rng.randrange(1, 5)
        ya = vsa.norm(w, st, lo, lo + cnt * st) if lo + cnt * st <= m else vsa.norm(w, 1, lo, min(m, lo + cnt))
        y = claripy.BVS(x.args[0] + "_r", w, explicit_name=True).annotate(StridedIntervalAnnotation(ya[1], ya[2], ya[3]))
        for op in CMPS:
            out.append((cmp_ast(op, lhs, y), y, ya))
        return out
    for c in sorted(consts):
        for op in CMPS:
            rhs = claripy.BVV(c, w)
            out.append(cmp_ast(op, lhs, rhs) if rng.random() < 0.9 else cmp_ast(op, rhs, lhs))
    return out


def gen_atom(rng, xs):
    import claripy
    lhs = gen_lhs(rng, xs, None)
    w = lhs.size()
    r = rng.random()
    if r < 0.8:
        rhs = claripy.BVV(rng.choice([0, 1, 2, 3, (1 << w) - 1, 1 << (w - 1), (1 << (w - 1)) - 1, rng.randrange(1 << w), rng.randrange(1 << w)]) & ((1 << w) - 1), w)
    else:
        cands = [x for x in xs if x.size() == w]
        rhs = rng.choice(cands) if cands else claripy.BVV(rng.randrange(1 << w), w)
    c = cmp_ast(rng.choice(CMPS), lhs, rhs) if rng.random() < 0.85 else cmp_ast(rng.choice(CMPS), rhs, lhs)
    return c


def gen_constraint(rng, xs):
    import claripy
    r = rng.random()
    if r < 0.55:
        return gen_atom(rng, xs)
    if r < 0.65:
        return claripy.Not(gen_atom(rng, xs))
    if r < 0.80:
        return claripy.And(gen_atom(rng, xs), gen_atom(rng, xs))
    if r < 0.88:
        return claripy.Or(gen_atom(rng, xs), gen_atom(rng, xs))
    if r < 0.92:
        return claripy.Not(claripy.And(gen_atom(rng, xs), gen_atom(rng, xs)))
    # Boolean (dis)equalities
    a, b = gen_atom(rng, xs), gen_atom(rng, xs)
    return rng.choice([lambda: a == b, lambda: a != b, lambda: a != claripy.true(), lambda: claripy.false() == a,
                       lambda: claripy.true() == a, lambda: a == claripy.false()])()


def check_constraint(c, xs, annos):
    """-> None | (signature, what)"""
    import claripy
    names = [x.args[0] for x in xs]
    doms = [vsa.gamma(a) if a is not None else range(1 << x.size()) for x, a in zip(xs, annos)]
    try:
        sat_envs = []
        for vals in itertools.product(*doms):
            env = dict(zip(names, vals))
            v = vx.ev_ast(c, env)
            if v is True:
                sat_envs.append(env)
    except vx.Unmodelled as u:
        return ("skip", str(u))
    try:
        sat, repl = claripy.backends.vsa.constraint_to_si(c)
    except Exception as ex:  # noqa
        if type(ex).__name__ == "ClaripyZeroDivisionError":
            return None
        return ("C25/constraint_to_si/raises-%s/%s" % (type(ex).__name__, root_class(c)), "%s raises %r" % (c, ex))
    if not sat_envs:
        return None
    if not sat:
        return ("C25/sat-flag/unsat-with-model/%s" % root_class(c), "%s: %d satisfying assignments (e.g. %s) but constraint_to_si reports unsatisfiable" % (c, len(sat_envs), sat_envs[0]))
    for expr, bound in repl:
        try:
            b = claripy.backends.vsa.convert(bound)
        except Exception as ex:  # noqa
            return ("C25/bound/not-convertible-%s/%s" % (type(ex).__name__, root_class(c)), "%s: bound %s for %s: %r" % (c, bound, expr, ex))
        bt = vsa.tup(b)
        if not isinstance(bt, (tuple, str)) or (isinstance(bt, str) and not bt.startswith("bottom")):
            return ("C25/bound/not-an-interval/%s" % root_class(c), "%s: bound for %s is %r" % (c, expr, b))
        for env in sat_envs:
            try:
                v = vx.ev_ast(expr, env)
            except vx.Unmodelled:
                break
            if v is None:
                continue
            if not vsa.member(bt, v):
                return ("C25/bound/cuts-off-model/%s" % root_class(c), "%s: the assignment %s satisfies it and gives %s = %d, outside the returned bound %s" % (
                    c, env, expr, v, vsa.show(bt) if isinstance(bt, tuple) else bt))
    return None


MODULAR = {"__add__", "__sub__", "__neg__", "__mul__"}
WIDTH_CHANGE = {"ZeroExt", "SignExt", "Concat", "Extract"}
SIGNED = {"SGE", "SGT", "SLE", "SLT"}


def root_class(c):
    """predicate class of a constraint by the root causes known for the balancer (a pure function of the constraint):
    1. a compared term contains modular arithmetic (+, -, unary -, *): constants are moved across it as if it were
       integer arithmetic (wrap-around; the implicit assumptions are attached to the outermost operator only);
    2. a signed comparison of a term that changes width (ZeroExt/Concat/Extract/SignExt): the sign bit moves;
    otherwise the detailed shape (never listed as a known finding)."""
    ops = {n.op for n in c.children_asts()} | {c.op}
    if ops & MODULAR and ops & (WIDTH_CHANGE | {"__lshift__", "LShR", "__and__", "If"}):
        return "modular-arithmetic-combined-with-width-change-shift-mask-or-if"
    if ops & MODULAR:
        return "modular-arithmetic-only"
    if ops & SIGNED and ops & WIDTH_CHANGE:
        return "signed-comparison-through-width-change"
    return "shape:" + shape_of(c)


def shape_of(c, expr=None):
    """predicate class of a constraint: its comparison operators and the operator shapes on their left-hand sides"""
    ops = set()

    def walk(n, depth):
        if not hasattr(n, "op"):
            return
        if n.op in ("And", "Or", "Not"):
            ops.add(n.op)
            for a in n.args:
                walk(a, depth)
            return
        if n.op in vx._CMP or n.op in ("ULT", "ULE", "UGT", "UGE", "SLT", "SLE", "SGT", "SGE"):
            inner = sorted({a.op for a in n.args if hasattr(a, "op") and a.op not in ("BVV", "BVS", "BoolV")})
            ops.add("%s(%s)" % (vx._CMP.get(n.op, n.op), "+".join(inner) or "var"))
            return
        ops.add(n.op)
    walk(c, 0)
    return ",".join(sorted(ops))


def run(ctx):
    import claripy
    from claripy.annotation import StridedIntervalAnnotation
    logging.disable(logging.CRITICAL)
    ctx.cov["trusted_base"] += ["concrete meaning of constraints: harness/lib/vsa_expr.py:ev_ast (independent of claripy's backends)"]
    ctx.cov["rule"] = ("case = constraint over 1..2 variables of width 1..8 (plain or annotated with a strided interval): comparison / equality of a shape "
                       "(x, x±c, c-x, x[h:l], Concat(0,x), Concat(x,c), ZeroExt, SignExt, x&m, x<<k, LShR, x*c, -x, If, x+y, one more nesting level) with a constant or "
                       "variable, Not/And/Or of such atoms, Boolean (dis)equalities; every assignment is enumerated; non-trivial = the constraint has a model and a bound is returned")
    ctx.prove("ClaripyProofs.Props.C25", THEOREMS, tests=TESTS, driver_exe="driver_vsa")
    ctx.cov["pair_correspondence_cases"] = pair_correspondence(ctx)
    rng = ctx.rng
    corr_cases = []
    fails = collections.defaultdict(list)
    stats = collections.Counter()
    for i in range(ctx.pick(6000, 150000)):
        nv = rng.choice([1, 1, 1, 2])
        ws = [rng.choice([1, 2, 3, 3, 4, 4, 5, 6, 8]) for _ in range(nv)]
        if nv == 2 and rng.random() < 0.6:
            ws[1] = ws[0]
        if nv == 2 and ws[0] + ws[1] > 12:
            ws[1] = min(ws[1], 4)
        annos = []
        xs = []
        for j, w in enumerate(ws):
            x = claripy.BVS("b%d_%d" % (j, i), w, explicit_name=True)
            a = None
            if rng.random() < 0.25:
                a = vsa.rand_si(rng, w, p_unaligned=0.0)
                x = x.annotate(StridedIntervalAnnotation(a[1], a[2], a[3]))
            xs.append(x); annos.append(a)
        try:
            c = gen_constraint(rng, xs)
        except Exception as ex:  # noqa  (construction-time errors, e.g. folding a division by zero, belong to C04)
            stats["skipped_build_error:" + type(ex).__name__] += 1
            continue
        ctx.count()
        if not hasattr(c, "op") or c.op == "BoolV":
            stats["folded_to_constant"] += 1
            continue
        corr_cases.append((c, xs, annos))
        r = check_constraint(c, xs, annos)
        if r and r[0] == "skip":
            stats["skipped:" + r[1]] += 1
            continue
        stats["checked"] += 1
        ctx.distinct(str(c))
        if r:
            fails[r[0]].append((len(str(c)), r[1], c, xs, annos))
    # directed two-layer shapes (known-zero bits + arm), all comparisons, constants around the alignment
    for i in range(ctx.pick(170, 4000)):
        w = rng.choice([2, 3, 3, 4, 4, 4, 5])
        x = claripy.BVS("l_%d" % i, w, explicit_name=True)
        a = None
        if rng.random() < 0.2:
            a = vsa.rand_si(rng, w, p_unaligned=0.0)
            x = x.annotate(StridedIntervalAnnotation(a[1], a[2], a[3]))
        try:
            cs = gen_layered(rng, [x])
        except Exception as ex:  # noqa
            stats["skipped_build_error:" + type(ex).__name__] += 1
            continue
        for c in cs:
            cxs, cas = [x], [a]
            if isinstance(c, tuple):
                c, y, ya = c
                cxs, cas = [x, y], [a, ya]
            ctx.count()
            if not hasattr(c, "op") or c.op == "BoolV":
                stats["folded_to_constant"] += 1
                continue
            corr_cases.append((c, cxs, cas))
            r = check_constraint(c, cxs, cas)
            if r and r[0] == "skip":
                stats["skipped:" + r[1]] += 1
                continue
            stats["checked"] += 1
            stats["checked_layered"] += 1
            ctx.distinct(str(c))
            if r:
                fails[r[0]].append((len(str(c)), r[1], c, cxs, cas))
    # the tie of the Lean balancer model: quick compares a fixed share of the stream (every layered case, every second random one)
    corr_cases = [t for i, t in enumerate(corr_cases) if i % ctx.pick(3, 4) == 0 or (str(t[1][0].args[0]).startswith("l_") and i % 2 == 0)]
    classes = balancer_correspondence(ctx, corr_cases)
    # consistency of theorems and oracle: an input on which the enumerating oracle finds a cut-off model must lie outside the guards
    # of the composite theorems (the model agrees with the real code there, so a covered failure would contradict a proof)
    for sig, lst in sorted(fails.items()):
        for _, what, c, _, _ in lst:
            cls = classes.get(str(c))
            if cls and cls.startswith("C25_") and "cuts-off-model" in sig:
                ctx.tie_broken("corr:balancer-theorems", "%s is covered by %s but the oracle reports: %s" % (c, cls, what))
                break
    for sig, lst in sorted(fails.items()):
        ln, what, c, xs, annos = min(lst, key=lambda t: (t[0], t[1]))
        ctx.violation(sig, what + "  [%d case(s)]" % len(lst), {
            "what": what, "constraint_pickle_hex": pickle.dumps(c).hex(),
            "variables": [[x.args[0], x.size(), list(a) if a else None] for x, a in zip(xs, annos)]})
    ctx.cov["stats"] = dict(stats)
    ctx.cov["failing_classes_seen"] = {k: len(v) for k, v in sorted(fails.items())}


def replay(ctx, obj):
    import claripy
    from claripy.annotation import StridedIntervalAnnotation
    logging.disable(logging.CRITICAL)
    r = obj["replay"]
    c = pickle.loads(bytes.fromhex(r["constraint_pickle_hex"]))
    xs, annos = [], []
    leaves = {l.args[0]: l for l in c.leaf_asts() if l.op == "BVS"}
    for name, w, a in r["variables"]:
        if name in leaves:
            xs.append(leaves[name]); annos.append(tuple(a) if a else None)
    print("constraint:", c, " variables:", [(x.args[0], vsa.show(a) if a else "unconstrained") for x, a in zip(xs, annos)])
    try:
        print("constraint_to_si:", claripy.backends.vsa.constraint_to_si(c))
    except Exception as ex:  # noqa
        print("constraint_to_si raises", repr(ex))
    res = check_constraint(c, xs, annos)
    if res and res[0] != "skip":
        print("VIOLATION property=C25 replay=(given)"); print("failure:", res[0], "-", res[1])
        return 1
    print("no failure on the current tree")
    return 0
