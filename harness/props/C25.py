"""C25 — constraint_to_si never cuts off a satisfying assignment.
prove (Lean: pre-image lemmas on wrapped intervals, bound bookkeeping) -> oracle on the real balancer: every
satisfying assignment of every generated constraint is enumerated (width <= 8, 1..2 variables)."""
import collections, itertools, logging

from lib import vsa, vsa_expr as vx

PROP = "C25"
P = "Claripy.Props.C25."
THEOREMS = []
TESTS = []

CMPS = ["ULT", "ULE", "UGT", "UGE", "SLT", "SLE", "SGT", "SGE", "eq", "ne"]


def cmp_ast(op, a, b):
    import claripy
    if op == "eq":
        return a == b
    if op == "ne":
        return a != b
    return getattr(claripy, op)(a, b)


def gen_lhs(rng, xs, w):
    """a bit-vector shape of width w over the variables (the shapes named by the property)"""
    import claripy
    x = rng.choice(xs)
    wx = x.size()
    k = rng.random()
    const = lambda ww: claripy.BVV(rng.choice([0, 1, 2, 3, (1 << ww) - 1, 1 << (ww - 1), rng.randrange(1 << ww)]) & ((1 << ww) - 1), ww)  # noqa: E731
    shapes = ["var", "add", "sub", "rsub", "extract", "extract0", "concat0", "concatc", "zext", "sext", "and", "shl", "if", "add2", "neg", "lshr", "mul"]
    sh = rng.choice(shapes)
    if sh == "var":
        e = x
    elif sh == "add":
        e = x + const(wx)
    elif sh == "sub":
        e = x - const(wx)
    elif sh == "rsub":
        e = const(wx) - x
    elif sh == "extract" and wx > 1:
        lo = rng.randrange(0, wx); hi = rng.randrange(lo, wx)
        e = x[hi:lo]
    elif sh == "extract0" and wx > 1:
        e = x[rng.randrange(0, wx - 1):0]
    elif sh == "concat0":
        e = claripy.Concat(claripy.BVV(0, rng.randrange(1, 4)), x)
    elif sh == "concatc":
        e = claripy.Concat(x, const(rng.randrange(1, 4)))
    elif sh == "zext":
        e = x.zero_extend(rng.randrange(1, 5))
    elif sh == "sext":
        e = x.sign_extend(rng.randrange(1, 5))
    elif sh == "and":
        e = x & claripy.BVV(rng.choice([(1 << rng.randrange(1, wx + 1)) - 1, rng.randrange(1 << wx)]), wx)
    elif sh == "shl":
        e = x << rng.randrange(0, wx)
    elif sh == "lshr":
        e = claripy.LShR(x, rng.randrange(0, wx))
    elif sh == "mul":
        e = x * const(wx)
    elif sh == "neg":
        e = -x
    elif sh == "if":
        y = rng.choice(xs)
        c = cmp_ast(rng.choice(CMPS), y, const(y.size()))
        e = claripy.If(c, x + const(wx), const(wx)) if rng.random() < 0.5 else claripy.If(c, const(wx), x)
    elif sh == "add2" and len(xs) > 1 and xs[0].size() == xs[1].size():
        e = xs[0] + xs[1] + (const(wx) if rng.random() < 0.5 else 0)
    else:
        e = x
    # nest once more sometimes
    if rng.random() < 0.3:
        we = e.size()
        sh2 = rng.choice(["add", "zext", "extract0", "sub", "concat0"])
        if sh2 == "add":
            e = e + const(we)
        elif sh2 == "sub":
            e = e - const(we)
        elif sh2 == "zext":
            e = e.zero_extend(rng.randrange(1, 4))
        elif sh2 == "concat0":
            e = claripy.Concat(claripy.BVV(0, rng.randrange(1, 3)), e)
        elif we > 1:
            e = e[rng.randrange(0, we - 1):0]
    return e


def gen_atom(rng, xs):
    import claripy
    lhs = gen_lhs(rng, xs, None)
    w = lhs.size()
    r = rng.random()
    if r < 0.8:
        rhs = claripy.BVV(rng.choice([0, 1, 2, 3, (1 << w) - 1, 1 << (w - 1), (1 << (w - 1)) - 1, rng.randrange(1 << w), rng.randrange(1 << w)]) & ((1 << w) - 1), w)
    else:
        cands = [x for x in xs if x.size() == w]
        rhs = rng.choice(cands) if cands else claripy.BVV(rng.randrange(1 << w), w)
    c = cmp_ast(rng.choice(CMPS), lhs, rhs) if rng.random() < 0.85 else cmp_ast(rng.choice(CMPS), rhs, lhs)
    return c


def gen_constraint(rng, xs):
    import claripy
    r = rng.random()
    if r < 0.55:
        return gen_atom(rng, xs)
    if r < 0.65:
        return claripy.Not(gen_atom(rng, xs))
    if r < 0.80:
        return claripy.And(gen_atom(rng, xs), gen_atom(rng, xs))
    if r < 0.88:
        return claripy.Or(gen_atom(rng, xs), gen_atom(rng, xs))
    if r < 0.92:
        return claripy.Not(claripy.And(gen_atom(rng, xs), gen_atom(rng, xs)))
    # Boolean (dis)equalities
    a, b = gen_atom(rng, xs), gen_atom(rng, xs)
    return rng.choice([lambda: a == b, lambda: a != b, lambda: a != claripy.true(), lambda: claripy.false() == a,
                       lambda: claripy.true() == a, lambda: a == claripy.false()])()


def check_constraint(c, xs, annos):
    """-> None | (signature, what)"""
    import claripy
    names = [x.args[0] for x in xs]
    doms = [vsa.gamma(a) if a is not None else range(1 << x.size()) for x, a in zip(xs, annos)]
    try:
        sat_envs = []
        for vals in itertools.product(*doms):
            env = dict(zip(names, vals))
            v = vx.ev_ast(c, env)
            if v is True:
                sat_envs.append(env)
    except vx.Unmodelled as u:
        return ("skip", str(u))
    try:
        sat, repl = claripy.backends.vsa.constraint_to_si(c)
    except Exception as ex:  # noqa
        if type(ex).__name__ == "ClaripyZeroDivisionError":
            return None
        return ("C25/constraint_to_si/raises-%s/%s" % (type(ex).__name__, shape_of(c)), "%s raises %r" % (c, ex))
    if not sat_envs:
        return None
    if not sat:
        return ("C25/sat-flag/unsat-with-model/%s" % shape_of(c), "%s: %d satisfying assignments (e.g. %s) but constraint_to_si reports unsatisfiable" % (c, len(sat_envs), sat_envs[0]))
    for expr, bound in repl:
        try:
            b = claripy.backends.vsa.convert(bound)
        except Exception as ex:  # noqa
            return ("C25/bound/not-convertible-%s/%s" % (type(ex).__name__, shape_of(c)), "%s: bound %s for %s: %r" % (c, bound, expr, ex))
        bt = vsa.tup(b)
        if not isinstance(bt, (tuple, str)) or (isinstance(bt, str) and not bt.startswith("bottom")):
            return ("C25/bound/not-an-interval/%s" % shape_of(c), "%s: bound for %s is %r" % (c, expr, b))
        for env in sat_envs:
            try:
                v = vx.ev_ast(expr, env)
            except vx.Unmodelled:
                break
            if v is None:
                continue
            if not vsa.member(bt, v):
                return ("C25/bound/cuts-off-model/%s" % shape_of(c, expr), "%s: the assignment %s satisfies it and gives %s = %d, outside the returned bound %s" % (
                    c, env, expr, v, vsa.show(bt) if isinstance(bt, tuple) else bt))
    return None


def shape_of(c, expr=None):
    """predicate class of a constraint: its comparison operators and the operator shapes on their left-hand sides"""
    ops = set()

    def walk(n, depth):
        if not hasattr(n, "op"):
            return
        if n.op in ("And", "Or", "Not"):
            ops.add(n.op)
            for a in n.args:
                walk(a, depth)
            return
        if n.op in vx._CMP or n.op in ("ULT", "ULE", "UGT", "UGE", "SLT", "SLE", "SGT", "SGE"):
            inner = sorted({a.op for a in n.args if hasattr(a, "op") and a.op not in ("BVV", "BVS", "BoolV")})
            ops.add("%s(%s)" % (vx._CMP.get(n.op, n.op), "+".join(inner) or "var"))
            return
        ops.add(n.op)
    walk(c, 0)
    return ",".join(sorted(ops))


def run(ctx):
    import claripy
    from claripy.annotation import StridedIntervalAnnotation
    logging.disable(logging.CRITICAL)
    ctx.cov["trusted_base"] += ["concrete meaning of constraints: harness/lib/vsa_expr.py:ev_ast (independent of claripy's backends)"]
    ctx.cov["rule"] = ("case = constraint over 1..2 variables of width 1..8 (plain or annotated with a strided interval): comparison / equality of a shape "
                       "(x, x±c, c-x, x[h:l], Concat(0,x), Concat(x,c), ZeroExt, SignExt, x&m, x<<k, LShR, x*c, -x, If, x+y, one more nesting level) with a constant or "
                       "variable, Not/And/Or of such atoms, Boolean (dis)equalities; every assignment is enumerated; non-trivial = the constraint has a model and a bound is returned")
    if THEOREMS or TESTS:
        ctx.prove("ClaripyProofs.Props.C25", THEOREMS, tests=TESTS, driver_exe="driver_vsa")
    rng = ctx.rng
    fails = collections.defaultdict(list)
    stats = collections.Counter()
    for i in range(ctx.pick(6000, 150000)):
        nv = rng.choice([1, 1, 1, 2])
        ws = [rng.choice([1, 2, 3, 3, 4, 4, 5, 6, 8]) for _ in range(nv)]
        if nv == 2 and rng.random() < 0.6:
            ws[1] = ws[0]
        if nv == 2 and ws[0] + ws[1] > 12:
            ws[1] = min(ws[1], 4)
        annos = []
        xs = []
        for j, w in enumerate(ws):
            x = claripy.BVS("b%d_%d" % (j, i), w, explicit_name=True)
            a = None
            if rng.random() < 0.25:
                a = vsa.rand_si(rng, w, p_unaligned=0.0)
                x = x.annotate(StridedIntervalAnnotation(a[1], a[2], a[3]))
            xs.append(x); annos.append(a)
        try:
            c = gen_constraint(rng, xs)
        except Exception as ex:  # noqa  (construction-time errors, e.g. folding a division by zero, belong to C04)
            stats["skipped_build_error:" + type(ex).__name__] += 1
            continue
        ctx.count()
        if not hasattr(c, "op") or c.op == "BoolV":
            stats["folded_to_constant"] += 1
            continue
        r = check_constraint(c, xs, annos)
        if r and r[0] == "skip":
            stats["skipped:" + r[1]] += 1
            continue
        stats["checked"] += 1
        ctx.distinct(str(c))
        if r:
            fails[r[0]].append((len(str(c)), r[1]))
    for sig, lst in sorted(fails.items()):
        ln, what = min(lst)
        ctx.violation(sig, what + "  [%d case(s)]" % len(lst), {"what": what})
    ctx.cov["stats"] = dict(stats)
    ctx.cov["failing_classes_seen"] = {k: len(v) for k, v in sorted(fails.items())}


def replay(ctx, obj):
    print(obj["replay"]["what"])
    print("(re-run ./check C25 with the recorded seed to regenerate the constraint)")
    return 1
