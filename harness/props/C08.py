"""C08 — substitution, canonicalisation and ITE utilities preserve meaning.

prove:       ClaripyProofs.Props.C08 (substitution lemma, renaming, ite_cases first-match, ite_dict = linear table for any
             split, excavate step, identical witness)
correspond:  claripy.replace on a variable vs Lean replaceBv (exact structure incl. folding of newly concrete nodes),
             canonicalize vs Lean canonicalize (exact), ite_dict's split keys vs Lean iteDictPlan (recorded through `If`)
oracle:      replace = substitution (all/sampled assignments), canonicalize = consistent injective renaming, identical True
             only for renaming-equal pairs, excavate_ite/burrow_ite equivalent, ite_cases/ite_dict = first-match table,
             reverse_ite_cases exclusive+exhaustive+implies value, chop/get_bytes/get_byte = slices of the value
"""
import collections

import claripy
from claripy.errors import ClaripyZeroDivisionError

from lib import exprs as E, exprgen as G, exprcheck as X

THEOREMS = ["Claripy.Props.C08.C08_replace_leaf", "Claripy.Props.C08.C08_rename", "Claripy.Props.C08.C08_canonicalize",
            "Claripy.Props.C08.C08_ite_cases", "Claripy.Props.C08.C08_ite_dict", "Claripy.Props.C08.C08_ite_dict_median",
            "Claripy.Props.C08.C08_excavate_step", "Claripy.Props.C08.C08_excavate_sound", "Claripy.Props.C08.C08_excavate_model_sound", "Claripy.Props.C08.C08_excavate_rules_sound",
            "Claripy.Props.C08.C08_burrow_sound", "Claripy.Props.C08.C08_burrow_unguarded_ill_typed", "Claripy.AST.applyOp_ty_congr",
            "Claripy.AST.applyOp_strict", "Claripy.AST.eval_bool_width", "Claripy.Props.C08.C08_identical_vsa_route_unsound", "Claripy.Props.C08.C08_canonicalize_injective", "Claripy.Props.C08.C08_canonicalize_injective_full", "Claripy.AST.leafAsts_complete", "Claripy.AST.canonRho_injective",
            "Claripy.Props.C08.evalCases_filter", "Claripy.Props.C08.medianKey_lt"]


def rebuild_nary(t, memo):
    """build a model tree through the real constructors the way ite_relocation.py does: every node in ONE constructor call
    with all its arguments (E.build chains binary operators)"""
    key = E.sexpr(t)
    if key in memo:
        return memo[key]
    r = E.build_leaf(t)
    if r is None:
        args = [rebuild_nary(x, memo) for x in t[1:]]
        if t[0] == "add" and len(args) > 2 and t[-1][0] == "sub" and all(k[0] == "bvv" for k in t[-1][1:]):
            # the only model node with a literal difference as last operand is the right-hand side of S3.sub_addN, whose root the
            # simplifier creates raw: make_like(op, (..., c1 - c2)) without simplification (cf. RAW_TOP in lib/exprcheck.py)
            r = args[0].make_like("__add__", tuple(args), simplify=False)
        elif t[0] in E.BIN_INFIX and len(args) > 2:
            r = args[0].make_like(E.BIN_INFIX[t[0]], tuple(args), simplify=True)
        else:
            r = E.apply_op(t[0], args)
    memo[key] = r
    return r


def claripy_node(t, args):
    """(claripy operation name, full argument tuple) of a model node"""
    k = t[0]
    if k in E.BIN_INFIX:
        return E.BIN_INFIX[k], tuple(args)
    if k in E.FUN2:
        return E.FUN2[k], tuple(args)
    if k.startswith("extract:"):
        _, hi, lo = k.split(":")
        return "Extract", (int(hi), int(lo), args[0])
    if k.startswith("zext:"):
        return "ZeroExt", (int(k.split(":")[1]), args[0])
    if k.startswith("sext:"):
        return "SignExt", (int(k.split(":")[1]), args[0])
    return {"not": "__invert__", "neg": "__neg__", "concat": "Concat", "reverse": "Reverse", "ite": "If", "And": "And", "Or": "Or",
            "Not": "Not"}[k], tuple(args)


def rebuild_burrow(t, memo, like):
    """build a model tree the way _burrow_ite does: existing sub-trees are the existing objects, a new `If` goes through claripy.If,
    every other new node is created raw (make_like without simplification)"""
    key = E.sexpr(t)
    if key in memo:
        return memo[key]
    r = E.build_leaf(t)
    if r is None:
        args = [rebuild_burrow(x, memo, like) for x in t[1:]]
        if t[0] == "ite":
            r = claripy.If(*args)
        else:
            name, full = claripy_node(t, args)
            # raw node of the right sort (what expr.make_like(expr.op, args) / old_true.__class__(op, args, length=...) create)
            r = claripy.ast.Bool(name, full) if E.is_bool(t) else claripy.ast.BV(name, full, length=E.width(t))
    memo[key] = r
    return r


def ite_shape(rng):
    """trees aimed at excavate_ite / burrow_ite: several If operands sharing a condition, its negation (syntactic or a flipped
    comparison) or another condition; If(c, op(..a..), op(..b..)) with one / two differing operands, equal or different sizes"""
    w = rng.choice([1, 2, 3, 4, 8])
    x, y, z = ("bvs", "x%d" % w, w), ("bvs", "y%d" % w, w), ("bvs", "z%d" % w, w)

    def cond():
        r = rng.random()
        if r < 0.3:
            return ("bools", rng.choice("pq"))
        cmp_ = rng.choice(["ult", "ule", "ugt", "uge", "slt", "sle", "sgt", "sge", "eq", "ne"])
        return (cmp_, rng.choice([x, y]), rng.choice([z, G.const(rng, w)]))

    def neg(c):
        flip = {"ult": "uge", "uge": "ult", "ule": "ugt", "ugt": "ule", "slt": "sge", "sge": "slt", "sle": "sgt", "sgt": "sle", "eq": "ne", "ne": "eq"}
        if c[0] in flip and rng.random() < 0.6:
            return (flip[c[0]],) + c[1:]
        return ("Not", c)

    def val():
        return rng.choice([x, y, z, G.const(rng, w), ("add", x, G.const(rng, w)), ("xor", y, z)])
    c = cond()
    kind = rng.random()
    if kind < 0.5:
        # excavate shapes
        def operand():
            r = rng.random()
            if r < 0.35:
                return ("ite", c, val(), val())
            if r < 0.55:
                return ("ite", neg(c), val(), val())
            if r < 0.65:
                return ("ite", cond(), val(), val())
            if r < 0.75:
                return ("ite", c, ("ite", rng.choice([c, cond()]), val(), val()), val())
            return val()
        op = rng.choice(["add", "sub", "and", "xor", "mul", "concat", "ult", "eq", "ite3"])
        if op == "ite3":
            return "R.excavate", ("ite", ("ult", operand(), operand()), operand(), operand())
        n = rng.choice([2, 2, 3]) if op in ("add", "and", "xor", "mul", "concat") else 2
        t = (op,) + tuple(operand() for _ in range(n))
        if rng.random() < 0.3:
            t = (rng.choice(["not", "neg"]), t) if op not in ("ult", "eq") else ("Not", t)
        return "R.excavate", t
    # burrow shapes
    while c[0] == "bools":
        c = cond()
    op = rng.choice(["add", "sub", "and", "concat", "lshr", "zext", "extract", "add3"])
    a, b, s = val(), val(), val()
    if op == "add3":
        k = rng.randrange(3)
        ta, fa = [s, s, s], [s, s, s]
        ta[k], fa[k] = a, b
        if rng.random() < 0.3:
            k2 = (k + 1) % 3
            ta[k2], fa[k2] = b, a            # two differences: must stay
        return "R.burrow", ("ite", c, ("add",) + tuple(ta), ("add",) + tuple(fa))
    if op == "zext":
        return "R.burrow", ("ite", c, ("zext:%d" % 2, ("add", a, s)), ("zext:%d" % 2, ("add", b, s)))
    if op == "extract":
        big = ("bvs", "u%d" % (w + 8), w + 8)
        lo = rng.randrange(0, w)
        return "R.burrow", ("ite", c, ("extract:%d:%d" % (w - 1, lo), ("add", a, s)), ("extract:%d:%d" % (w - 1, lo), ("add", big, ("bvv", 1, w + 8))))
    if rng.random() < 0.5:
        return "R.burrow", ("ite", c, (op, ("add", a, s), s), (op, ("add", b, s), s))
    return "R.burrow", ("ite", c, (op, s, ("xor", a, s)), (op, s, ("xor", b, s)))


def envs_for(trees, rng, limit=8, n=40):
    vs = {}
    for t in trees:
        for k, w in E.variables(t).items():
            vs.setdefault(k, w)
    return E.all_envs(vs, limit) or E.sample_envs(vs, rng, n)


def equiv(t1, t2, rng):
    for env in envs_for([t1, t2], rng):
        if E.ev(t1, env) != E.ev(t2, env):
            return env
    return None


FP_VALS = [0.0, -0.0, 1.0, -1.0, float("nan"), float("inf"), 5e-324]


def fp_table_check(spec):
    """ite_cases / ite_dict with double-precision case values built from spec; -> None | text of the first selector value at which the
    result is not the value of the first matching case (values compared by bit pattern, NaN as one value)"""
    import struct, claripy
    fbits = lambda v: "nan" if v != v else struct.pack(">d", v)  # noqa: E731
    w = spec["w"]
    i = claripy.BVS("fi%d" % w, w, explicit_name=True)
    vals = [claripy.FPV(FP_VALS[n], claripy.FSORT_DOUBLE) for _, _, n in spec["cases"]]
    dflt = claripy.FPV(FP_VALS[spec["default"]], claripy.FSORT_DOUBLE)
    holds = lambda kind, k, x: x == k if kind == "eq" else x < k  # noqa: E731
    if spec["kind"] == "ite_cases":
        conds = [(i == k) if kind == "eq" else claripy.ULT(i, k) for kind, k, _ in spec["cases"]]
        r = claripy.ite_cases(list(zip(conds, vals)), dflt)
        what = "ite_cases(%s, %s)" % (list(zip(conds, vals)), dflt)
    else:
        r = claripy.ite_dict(i, {k: v for (_, k, _), v in zip(spec["cases"], vals)}, dflt)
        what = "ite_dict(%s, %s, %s)" % (i, {k: v for (_, k, _), v in zip(spec["cases"], vals)}, dflt)
    for x in range(1 << w):
        want = next((v for (kind, k, _), v in zip(spec["cases"], vals) if holds(kind, k, x)), dflt)
        got = claripy.replace(r, i, claripy.BVV(x, w)) if r.symbolic else r
        if got.op != "FPV" or fbits(got.args[0]) != fbits(want.args[0]):
            return "%s = %s: at %s = %d it is %s, the first matching case gives %s" % (what, r, i.args[0], x, got, want)
    return None


class _TagBase:
    pass


def _mk_tag():
    from claripy.annotation import Annotation

    class Tag(Annotation):
        eliminatable = False
        relocatable = False

        def __init__(self, n):
            self.n = n

        def __hash__(self):
            return hash(("c08tag", self.n))

        def __eq__(self, o):
            return isinstance(o, Tag) and o.n == self.n

        def __repr__(self):
            return "Tag(%d)" % self.n
    return Tag


_TAG = []


def _Tag(n):
    if not _TAG:
        _TAG.append(_mk_tag())
    return _TAG[0](n)


def rename_equal(t1, t2, m=None):
    """t2 == t1 up to an injective renaming of variables (m: name->name)"""
    m = {} if m is None else m
    if t1[0] != t2[0] or len(t1) != len(t2):
        return False
    if t1[0] in ("bvs", "bools"):
        if t1[0] == "bvs" and t1[2] != t2[2]:
            return False
        # a claripy variable is its name together with its sort/width
        k1 = (t1[1], t1[2] if t1[0] == "bvs" else None)
        k2 = (t2[1], t2[2] if t2[0] == "bvs" else None)
        if k1 in m:
            return m[k1] == k2
        if k2 in m.values():
            return False
        m[k1] = k2
        return True
    if t1[0] in ("bvv", "boolv"):
        return t1 == t2
    return all(rename_equal(a, b, m) for a, b in zip(t1[1:], t2[1:]))


# ---------------------------------------------------------------- replace_dict with several entries (simultaneous substitution)
def multi_map_spec(rng):
    """an expression with several non-leaf sub-terms of ONE shape over x, y, z, a map with several entries whose image overlaps its
    domain (swap, rotation, shift, ...), and a second expression for a second call with the same dict object"""
    w = rng.choice([2, 3, 3, 4])
    x, y, z = ("bvs", "x%d" % w, w), ("bvs", "y%d" % w, w), ("bvs", "z%d" % w, w)
    vs = [x, y, z]
    c1, c2 = ("bvv", rng.randrange(1, 1 << w), w), ("bvv", rng.randrange(1 << w), w)

    def shape():
        k = rng.randrange(9)
        return [lambda v: ("add", v, c1), lambda v: ("xor", v, c1), lambda v: ("mul", v, c1), lambda v: ("sub", c1, v), lambda v: ("not", v),
                lambda v: ("add", ("xor", v, c1), c2), lambda v: ("mul", ("add", v, c1), v), lambda v: ("ite", ("ult", v, c1), v, c2),
                lambda v: ("concat", ("extract:0:0", v), ("extract:%d:%d" % (w - 1, w - 1), v)) if w == 2 else ("lshr", v, ("bvv", 1, w))][k]

    def expression():
        f = shape()
        terms = [f(v) for v in rng.sample(vs, rng.choice([2, 2, 3]))]
        if rng.random() < 0.3:
            terms.append(rng.choice(vs))
        if rng.random() < 0.25:
            terms.append(G.rand_bv(rng, w, 2))
        rng.shuffle(terms)
        t = terms[0]
        for u in terms[1:]:
            g = rng.choice(["mul", "sub", "add", "xor", "and", "or", "sub", "mul"])
            t = (g, t, u) if rng.random() < 0.8 else (g, u, t)
        r = rng.random()
        if r < 0.15:
            t = ("concat", t, f(rng.choice(vs)))
        elif r < 0.3:
            t = (rng.choice(["ult", "eq", "sle"]), t, f(rng.choice(vs)))
        return t
    kind = rng.choice(["swap", "swap", "rotation", "rotation", "shift", "shift", "chain-into-terms", "swap-with-terms", "single", "to-constants"])
    a, b, c = rng.sample(vs, 3)
    if kind == "swap":
        m = [(a, b), (b, a)]
    elif kind == "rotation":
        m = [(a, b), (b, c), (c, a)]
    elif kind == "shift":
        m = [(a, b), (b, c)]
    elif kind == "chain-into-terms":
        m = [(a, ("add", b, c1)), (b, ("xor", c, a))]
    elif kind == "swap-with-terms":
        m = [(a, ("add", b, c1)), (b, ("add", a, c1))]
    elif kind == "single":
        m = [(a, rng.choice([b, ("add", a, c1), ("mul", b, a)]))]
    else:
        m = [(a, c1), (b, a)]
    if rng.random() < 0.5:
        rng.shuffle(m)
    return {"w": w, "kind": kind, "map": [[k[1], v] for k, v in m], "exprs": [expression() for _ in range(rng.choice([1, 2, 2, 3]))]}


def multi_map_check(spec, rng):
    """replace_dict with ONE dict object over the expressions in turn; each result must be the simultaneous substitution of the map AS
    GIVEN (all / sampled assignments).  -> None | (call index, text)"""
    def tup(t):
        return tuple(tup(x) if isinstance(x, list) else x for x in t)
    w = spec["w"]
    m = [(nm, tup(t)) for nm, t in spec["map"]]
    keys = {nm: claripy.BVS(nm, w, explicit_name=True) for nm, _ in m}
    try:
        images = {nm: E.build(t) for nm, t in m}
    except (ClaripyZeroDivisionError, E.Unsupported):
        return None
    repl = {keys[nm].hash(): images[nm] for nm, _ in m}
    for n_, t in enumerate(spec["exprs"]):
        t = tup(t)
        a, log, e = X.build_case(t)
        if e is not None:
            continue
        at = E.from_ast(a)
        try:
            r = claripy.replace_dict(a, repl)
            rt = E.from_ast(r)
        except (ClaripyZeroDivisionError, E.Unsupported):
            continue
        vs = {"x%d" % w: w, "y%d" % w: w, "z%d" % w: w}
        for k_, ww in list(E.variables(at).items()) + list(E.variables(rt).items()):
            vs.setdefault(k_, ww)
        for env in E.all_envs(vs, 9) or E.sample_envs(vs, rng, 96):
            env2 = dict(env)
            for nm, it in m:
                env2[nm] = E.ev(it, env)[2]
            if E.ev(rt, env) != E.ev(at, env2):
                return n_, "replace_dict(%s, {%s})%s = %s differs at %s: %s, simultaneous substitution gives %s" % (
                    E.sexpr(at), ", ".join("%s: %s" % (nm, E.sexpr(it)) for nm, it in m),
                    " [call #%d with the same dict object; earlier: %s]" % (n_ + 1, "; ".join(E.sexpr(tup(q)) for q in spec["exprs"][:n_])) if n_ else "",
                    E.sexpr(rt), env, E.ev(rt, env), E.ev(at, env2))
    return None


def run(ctx):
    ctx.cov["trusted_base"] += [
        "modelled: replace_dict on a variable key (incl. the make_like rebuild that folds newly concrete nodes), canonicalize, ite_cases, ite_dict; "
        "excavate_ite/burrow_ite are covered by the one-step theorem plus the equivalence oracle, reverse_ite_cases/chop/get_bytes by the oracle only",
        "non-leaf replacement keys are covered by the oracle (structural occurrence check), not by the substitution lemma",
    ]
    ctx.cov["rule"] = ("cases = expressions from the C01 streams (incl. nested If trees) with random substitutions, case lists, switch tables with keys "
                       "inside and outside [0,2^w); non-trivial = the utility changed the expression; distinct = (utility, input)")
    ctx.prove("ClaripyProofs.Props.C08", THEOREMS)
    rng = ctx.rng
    n = ctx.pick(1500, 25000)
    dist = collections.Counter()
    rep_lines, rep_want = [], []
    reloc_lines, reloc_want = [], []
    can_lines, can_want = [], []

    def viol(sig, what, rep):
        ctx.violation(sig, what, rep)

    for it in range(n):
        r0 = rng.random()
        name, tree = ite_shape(rng) if r0 < 0.3 else G.rule_directed(rng) if r0 < 0.65 else G.random_tree(rng)
        a, log, e = X.build_case(tree)
        if e is not None:
            continue
        try:
            at = E.from_ast(a)
        except E.Unsupported:
            continue
        dist[name] += 1
        # ---- excavate / burrow
        for fn in (claripy.excavate_ite, claripy.burrow_ite):
            ctx.count()
            try:
                r = fn(a)
            except ClaripyZeroDivisionError:
                continue
            try:
                rt = E.from_ast(r)
            except E.Unsupported:
                continue
            if r is not a:
                ctx.distinct((fn.__name__, a.hash()))
            # the model negates a condition syntactically (`Not c`, flipped comparison); a Boolean (dis)equality BETWEEN Booleans
            # (`true != q`) negates into something the equality simplifier rewrites (`q`), which the real `If` then recognises as the
            # negation of the outer condition: outside the modelled fragment of this correspondence (the oracle below still judges it)
            bool_eq = any(x.op in ("__eq__", "__ne__") and isinstance(x.args[0], claripy.ast.Bool) for x in [a] + list(a.children_asts()))
            if bool_eq:
                dist["reloc-skipped:boolean-equality-condition"] += 1
            if len(reloc_lines) < ctx.pick(1500, 20000) and not bool_eq and not any(x.annotations for x in [a] + list(a.children_asts())):
                reloc_lines.append("%s %s" % ("excavate" if fn is claripy.excavate_ite else "burrow", E.sexpr(at)))
                reloc_want.append((fn.__name__, a, r))
            env = equiv(at, rt, rng)
            if env is not None:
                viol("C08/%s/not-equivalent" % fn.__name__, "%s(%s) = %s differs at %s" % (fn.__name__, E.sexpr(at), E.sexpr(rt), env),
                     {"fn": fn.__name__, "tree": at, "env": env})
        # ---- replace (variable key)
        leaves = [l for l in a.leaf_asts() if l.op == "BVS"]
        if leaves:
            l = rng.choice(leaves)
            try:
                new = E.build(G.rand_bv(rng, l.length, rng.choice([0, 1, 1])))
            except Exception:
                new = None
            if new is not None:
                ctx.count()
                try:
                    r = claripy.replace(a, l, new)
                    outcome = None
                except ClaripyZeroDivisionError:
                    r, outcome = None, "err:divZero"
                nt = E.from_ast(new)
                if len(rep_lines) < ctx.pick(1500, 15000):
                    rep_lines.append("replace %s %d %s | %s" % (l.args[0], l.length, E.sexpr(nt), E.sexpr(at)))
                    rep_want.append(outcome or E.sexpr(E.from_ast(r)))
                if r is not None:
                    rt = E.from_ast(r)
                    ctx.distinct(("replace", a.hash(), l.hash(), new.hash()))
                    for env in envs_for([at, nt], rng):
                        env2 = dict(env)
                        env2[l.args[0]] = E.ev(nt, env)[2]
                        if E.ev(rt, env) != E.ev(at, env2):
                            viol("C08/replace/not-substitution", "replace(%s, %s, %s) = %s differs at %s" % (
                                E.sexpr(at), l.args[0], E.sexpr(nt), E.sexpr(rt), env), {"tree": at, "old": l.args[0], "new": nt, "env": env})
                            break
        # ---- replace (non-leaf key): every occurrence gone, value = substitution of the sub-expression's value
        subs = [s for s in a.children_asts() if not s.is_leaf() and isinstance(s, claripy.ast.BV) and s.symbolic]
        if subs and rng.random() < 0.5:
            s0 = rng.choice(subs)
            fresh = claripy.BVS("fresh", s0.length, explicit_name=True)
            ctx.count()
            try:
                r = claripy.replace(a, s0, fresh)
                rt = E.from_ast(r)
                st = E.from_ast(s0)
                for env in envs_for([at], rng, n=24):
                    env2 = dict(env)
                    env2["fresh"] = E.ev(st, env)[2]
                    if E.ev(rt, env2) != E.ev(at, env):
                        viol("C08/replace/nonleaf-not-substitution", "replace(%s, %s, fresh) = %s differs at %s" % (E.sexpr(at), E.sexpr(st), E.sexpr(rt), env),
                             {"tree": at, "old": st, "env": env})
                        break
            except (ClaripyZeroDivisionError, E.Unsupported):
                pass
        # ---- replace (constant key): a literal is a sub-expression like any other
        lits = [s for s in a.children_asts() if s.op == "BVV" and isinstance(s, claripy.ast.BV)]
        if lits and a.symbolic and rng.random() < 0.4:
            s0 = rng.choice(lits)
            fresh = claripy.BVS("freshc", s0.length, explicit_name=True)
            ctx.count()
            try:
                r = claripy.replace(a, s0, fresh) if rng.random() < 0.5 else claripy.replace_dict(a, {s0.hash(): fresh})
                rt = E.from_ast(r)
                still = any(x is s0 for x in r.children_asts()) or r is s0
                if still and "freshc" not in r.variables:
                    viol("C08/replace/constant-key-not-replaced", "replace(%s, %s, fresh) = %s: the literal still occurs and the new variable does not" % (
                        E.sexpr(at), E.sexpr(E.from_ast(s0)), E.sexpr(rt)), {"tree": at, "old": E.from_ast(s0)})
                else:
                    for env in envs_for([at], rng, n=16):
                        env2 = dict(env)
                        env2["freshc"] = s0.args[0]
                        if E.ev(rt, env2) != E.ev(at, env):
                            viol("C08/replace/constant-key-not-substitution", "replace(%s, %s, fresh) = %s differs at %s" % (
                                E.sexpr(at), E.sexpr(E.from_ast(s0)), E.sexpr(rt), env), {"tree": at, "old": E.from_ast(s0), "env": env})
                            break
            except (ClaripyZeroDivisionError, E.Unsupported):
                pass
        # ---- canonicalize / identical
        ctx.count()
        try:
            vm, ctr, c = a.canonicalize()
            ct = E.from_ast(c)
            if not rename_equal(at, ct):
                viol("C08/canonicalize/not-a-renaming", "canonicalize(%s) = %s" % (E.sexpr(at), E.sexpr(ct)), {"tree": at})
            if len(can_lines) < ctx.pick(1500, 15000) and not any(x.annotations for x in a.leaf_asts()):
                can_lines.append("canon " + E.sexpr(at)); can_want.append(E.sexpr(ct))
            # an annotated occurrence of a variable next to its other occurrences: still ONE variable (found by a seeded-change
            # agent on the unchanged tree: x and x.annotate(A) got two canonical names)
            bvl = [l for l in a.leaf_asts() if l.op == "BVS"]
            if bvl and rng.random() < 0.25 and isinstance(a, claripy.ast.Base):
                l = rng.choice(bvl)
                tw = l.annotate(_Tag(rng.randrange(3))) if not l.annotations else l.clear_annotations()
                a3 = claripy.Concat(a, tw) if isinstance(a, claripy.ast.BV) and rng.random() < 0.5 else (
                    claripy.Concat(tw, a) if isinstance(a, claripy.ast.BV) else claripy.And(a, tw == claripy.BVS("fresh_tw", l.length, explicit_name=True)))
                a3t = E.from_ast(a3)
                c3 = a3.canonicalize()[2]
                ctx.count()
                if not rename_equal(a3t, E.from_ast(c3)):
                    viol("C08/canonicalize/not-a-renaming/annotated-and-bare-occurrence", "canonicalize(%s) = %s (one occurrence of %s carries an annotation)" % (
                        E.sexpr(a3t), E.sexpr(E.from_ast(c3)), l.args[0]), {"tree": at, "twin": l.args[0]})
                # and through a shared var_map: the second expression sees the variable annotated, the first bare
                vm1, ctr1, _ = (a if not l.annotations else a3).canonicalize()
                both = claripy.Concat(l.clear_annotations(), l.annotate(_Tag(1)))
                cb_ = both.canonicalize(var_map=dict(vm1), counter=ctr1)[2]
                if cb_.args[0].args[0] != cb_.args[1].args[0]:
                    viol("C08/canonicalize/not-a-renaming/annotated-and-bare-occurrence", "with the var_map of a first call, %s and its annotated occurrence become %s and %s" % (
                        l.args[0], cb_.args[0].args[0], cb_.args[1].args[0]), {"tree": at, "twin": l.args[0]})
            # multi-step: canonical forms are re-canonicalized together with fresh variables
            if rng.random() < 0.3 and isinstance(c, claripy.ast.BV):
                nm = rng.choice(["fresh", "canonical_1", "w"])
                if any(l.op in ("BVS", "BoolS") and l.args[0] == nm and (l.op != "BVS" or l.length != c.length) for l in c.leaf_asts()):
                    nm = "fresh"    # the Lean model identifies variables by name; one name at two widths or two sorts is left to the oracle
                fresh = claripy.BVS(nm, c.length, explicit_name=True)
                c2 = rng.choice([fresh ^ c, c - fresh, fresh + c * 3])
                c2t = E.from_ast(c2)
                cc = c2.canonicalize()[2]
                cct = E.from_ast(cc)
                ctx.count()
                if not rename_equal(c2t, cct):
                    viol("C08/canonicalize/not-a-renaming", "canonicalize(%s) = %s" % (E.sexpr(c2t), E.sexpr(cct)), {"tree": c2t})
                elif len(can_lines) < ctx.pick(1500, 15000):
                    can_lines.append("canon " + E.sexpr(c2t)); can_want.append(E.sexpr(cct))
        except ClaripyZeroDivisionError:
            pass
        name2, tree2 = G.rule_directed(rng) if rng.random() < 0.5 else G.random_tree(rng)
        b, _, e2 = X.build_case(tree2)
        if e2 is None and type(b) is type(a):
            try:
                if a.identical(b):
                    bt = E.from_ast(b)
                    if not rename_equal(at, bt):
                        route = "BV.identical/vsa-route" if isinstance(a, claripy.ast.BV) else "identical/%s" % type(a).__name__
                        viol("C08/" + route, "(%s).identical(%s) is True but they are not equal up to renaming" % (E.sexpr(at), E.sexpr(bt)),
                             {"a": at, "b": bt})
            except (ClaripyZeroDivisionError, E.Unsupported):
                pass
            except Exception as ex:   # identical() raising is not a True answer; recorded, not a C08 violation
                dist["identical-raised:" + type(ex).__name__] += 1
    # ---- ite_cases / ite_dict / reverse_ite_cases
    plan_lines, plan_want = [], []
    import claripy.ast.bool as cb
    for it in range(ctx.pick(300, 4000)):
        w = rng.choice([2, 3, 4, 8])
        i = claripy.BVS("i%d" % w, w, explicit_name=True)
        nk = rng.choice([1, 2, 3, 4, 5, 7, 9, 16])
        keyspace = list(range(-(1 << w), 2 << w)) if rng.random() < 0.4 else list(range(1 << w))
        keys = rng.sample(keyspace, min(nk, len(keyspace)))
        vals = [claripy.BVV(rng.randrange(1 << w), w) if rng.random() < 0.7 else claripy.BVS("v%d" % rng.randrange(2), w, explicit_name=True) for _ in keys]
        dflt = claripy.BVV(rng.randrange(1 << w), w)
        d = dict(zip(keys, vals))
        ctx.count()
        # record the If() calls made by ite_dict to compare the split keys with the model's plan
        splits = []
        real_if = cb.If

        def spy(c, t, f):
            if getattr(c, "op", None) == "ULE" and c.args[0] is i and c.args[1].op == "BVV":
                splits.append(c.args[1].args[0])
            return real_if(c, t, f)
        cb.If = spy
        try:
            ex = claripy.ite_dict(i, d, dflt)
        finally:
            cb.If = real_if
        ctx.distinct(("ite_dict", w, tuple(keys)))
        et = E.from_ast(ex)
        for iv in range(1 << w):
            # dict semantics: the entry whose key is congruent to iv (first in dict order after reduction: later duplicates override)
            red = {}
            for k, v in d.items():
                red[k % (1 << w)] = v
            for env in E.sample_envs({"v0": w, "v1": w}, rng, 2):
                env = dict(env); env["i%d" % w] = iv
                want = E.ev(E.from_ast(red[iv]), env) if iv in red else E.ev(E.from_ast(dflt), env)
                if E.ev(et, env) != want:
                    viol("C08/ite_dict/wrong-branch", "ite_dict(i%d, %s, %s) at i=%d gives %s, table says %s" % (
                        w, {k: repr(v) for k, v in d.items()}, dflt, iv, E.ev(et, env), want), {"w": w, "keys": keys, "i": iv})
                    break
        red_keys = list(dict.fromkeys(k % (1 << w) for k in keys))
        plan_lines.append("itedictplan " + " ".join(str(k) for k in red_keys))
        plan_want.append(" ".join(str(s) for s in splits))
        # ite_cases + reverse_ite_cases
        conds = [rng.choice([i == rng.randrange(1 << w), claripy.ULT(i, rng.randrange(1 << w)), claripy.BoolS("p", explicit_name=True)]) for _ in range(rng.choice([1, 2, 3, 4]))]
        cvals = [claripy.BVV(rng.randrange(1 << w), w) for _ in conds]
        ic = claripy.ite_cases(list(zip(conds, cvals)), dflt)
        ict = E.from_ast(ic)
        rev = list(claripy.reverse_ite_cases(ic))
        for env in envs_for([ict] + [E.from_ast(c) for c in conds], rng):
            want = None
            for c, v in zip(conds, cvals):
                if E.ev(E.from_ast(c), env)[1]:
                    want = E.ev(E.from_ast(v), env); break
            if want is None:
                want = E.ev(E.from_ast(dflt), env)
            if E.ev(ict, env) != want:
                viol("C08/ite_cases/not-first-match", "ite_cases(%s, %s) at %s" % (list(zip(conds, cvals)), dflt, env), {"env": env}); break
            holds = [(c, v) for c, v in rev if E.ev(E.from_ast(c), env)[1]]
            if len(holds) != 1 or E.ev(E.from_ast(holds[0][1]), env) != E.ev(ict, env):
                viol("C08/reverse_ite_cases/not-partition", "reverse_ite_cases(%s): %d guards hold at %s" % (ic, len(holds), env), {"env": env}); break
    # ---- ite_cases / ite_dict over FLOATING-POINT values: first match, as VALUES (-0.0 is not +0.0: a case must not be dropped because it
    # compares equal to what follows under IEEE-754's ==; found by a seeded-change agent on the unchanged tree)
    for it in range(ctx.pick(150, 1500)):
        w = rng.choice([2, 3])
        nv = lambda: rng.randrange(len(FP_VALS))  # noqa: E731
        if rng.random() < 0.5:
            spec = {"kind": "ite_cases", "w": w, "cases": [[rng.choice(["eq", "ult"]), rng.randrange(1 << w), nv()] for _ in range(rng.choice([1, 2, 3, 4]))], "default": nv()}
        else:
            spec = {"kind": "ite_dict", "w": w, "cases": [["eq", k, nv()] for k in rng.sample(range(1 << w), rng.choice([1, 2, 3, 4]))], "default": nv()}
        ctx.count()
        bad = fp_table_check(spec)
        if bad:
            viol("C08/%s/not-first-match/floating-point-values" % spec["kind"], bad, {"fp_table": spec})
    # ---- chop / get_bytes / get_byte
    for it in range(ctx.pick(200, 3000)):
        w = rng.choice([8, 16, 24, 32, 12, 20, 64])
        name, tree = "chop", G.rand_bv(rng, w, rng.choice([0, 1, 2]))
        a, log, e = X.build_case(tree)
        if e is not None:
            continue
        at = E.from_ast(a)
        ctx.count()
        env = E.sample_envs(E.variables(at), rng, 1)[0]
        val = E.ev(at, env)[2]
        bits = rng.choice([b for b in (1, 2, 4, 8, w) if w % b == 0])
        parts = a.chop(bits)
        got = 0
        for p in parts:
            got = (got << bits) | E.ev(E.from_ast(p), env)[2]
        if got != val or len(parts) != w // bits:
            viol("C08/chop/not-slices", "chop(%d) of %s at %s" % (bits, E.sexpr(at), env), {"tree": at, "bits": bits, "env": env})
        nbytes = (w + 7) // 8
        idx = rng.randrange(nbytes)
        size = rng.randrange(0, nbytes - idx + 1)
        gb = a.get_bytes(idx, size)
        padded = val  # big-endian byte view of the value, the top byte zero-padded when w % 8 != 0
        want = (padded >> (8 * (nbytes - idx - size))) & ((1 << (8 * size)) - 1) if size else 0
        gv = E.ev(E.from_ast(gb), env)[2] if gb.length else 0
        if gv != want or gb.length != 8 * size:
            viol("C08/get_bytes/wrong-bytes", "get_bytes(%d,%d) of %s at %s = %#x, expected %#x" % (idx, size, E.sexpr(at), env, gv, want),
                 {"tree": at, "index": idx, "size": size, "env": env})
    # ---- replace_dict with several entries = SIMULTANEOUS substitution, also when the image of the map overlaps its domain (swaps,
    # rotations, shifts) and when one dict object serves several calls (a replacement cache)
    import random
    mrng = random.Random("C08-multi-entry-maps:%d" % ctx.seed)     # own stream: the older stages keep theirs
    for it in range(ctx.pick(700, 10000)):
        spec = multi_map_spec(mrng)
        ctx.count()
        dist["M.multi_entry_map:" + spec["kind"]] += 1
        bad = multi_map_check(spec, mrng)
        if bad:
            # shrink: fewer expressions before the failing call, then report
            n_, what = bad
            small = dict(spec, exprs=spec["exprs"][:n_ + 1])
            for drop in range(n_ - 1, -1, -1):
                trial = dict(small, exprs=small["exprs"][:drop] + small["exprs"][drop + 1:])
                b2 = multi_map_check(trial, mrng)
                if b2:
                    small, (n_, what) = trial, b2
            viol("C08/replace_dict/%snot-simultaneous-substitution/%s" % ("reused-map/" if len(small["exprs"]) > 1 else "", spec["kind"]), what, {"multi_map": small})
        elif it % 5 == 0:
            ctx.distinct(("multi-map", repr(spec)))
    agree = 0
    for tag, lines, wants in (("corr:replace", rep_lines, rep_want), ("corr:canonicalize", can_lines, can_want), ("corr:ite_dict-plan", plan_lines, plan_want)):
        if not lines:
            continue
        outs = ctx.driver(lines)
        for l, o, w_ in zip(lines, outs, wants):
            if o != w_:
                ctx.tie_broken(tag, "%s: model %s real %s" % (l[:300], o[:300], w_[:300]))
                break
            agree += 1
    # excavate_ite / burrow_ite: the Lean algorithm (raw constructors) rebuilt through the real constructors must be the very
    # object the real algorithm returned
    reloc_stats = collections.Counter()
    if reloc_lines:
        outs = ctx.driver(reloc_lines)
        for l, o, (fname, a, r) in zip(reloc_lines, outs, reloc_want):
            if o == "bad-op":
                reloc_stats["skipped"] += 1
                continue
            try:
                mt = E.parse_sexpr(o)
                if fname == "excavate_ite":
                    rebuilt = rebuild_nary(mt, {})      # the real algorithm re-creates every node with simplify=True
                else:
                    memo = {}
                    for sub in [a] + list(a.children_asts()):
                        try:
                            memo.setdefault(E.sexpr(E.from_ast(sub)), sub)
                        except E.Unsupported:
                            pass
                    rebuilt = rebuild_burrow(mt, memo, a)
            except ClaripyZeroDivisionError:
                reloc_stats["skipped"] += 1
                continue
            reloc_stats[fname + (":moved" if r is not a else ":unchanged")] += 1
            if rebuilt is not r:
                ctx.tie_broken("corr:" + fname, "%s: model %s (rebuilt: %s) real %s" % (l[:300], o[:300], E.sexpr(E.from_ast(rebuilt))[:300],
                                                                                       E.sexpr(E.from_ast(r))[:300]))
                break
            agree += 1
    ctx.cov["traces_validated_against_impl"] = agree
    ctx.cov["input_distribution"] = {"templates": dict(dist), "replace_compared": len(rep_lines), "canonicalize_compared": len(can_lines),
                                     "ite_dict_plans_compared": len(plan_lines), "ite_relocations_compared": dict(reloc_stats)}
    if rep_lines:
        ctx.sample({"request": rep_lines[0][:300], "answer": rep_want[0][:200]})


def replay(ctx, obj):
    r = obj["replay"]

    def tup(t):
        return tuple(tup(x) if isinstance(x, list) else x for x in t)
    if "multi_map" in r:
        bad = multi_map_check(r["multi_map"], ctx.rng)
        print(bad[1] if bad else "every call is the simultaneous substitution of the map on the current tree")
        if bad:
            print("VIOLATION property=C08 replay=(given)"); return 1
        return 0
    if "fp_table" in r:
        bad = fp_table_check(r["fp_table"])
        print(bad or "the table is the first-match table on the current tree")
        if bad:
            print("VIOLATION property=C08 replay=(given)"); return 1
        return 0
    if "twin" in r:
        import claripy
        a = E.build(tup(r["tree"]))
        l = next(x for x in a.leaf_asts() if x.op == "BVS" and x.args[0] == r["twin"])
        e = claripy.Concat(l.clear_annotations(), l.annotate(_Tag(1)))
        c = e.canonicalize()[2]
        print(e, "->", c)
        if c.args[0].args[0] != c.args[1].args[0]:
            print("VIOLATION property=C08 replay=(given)"); return 1
        return 0
    if "a" in r and "b" in r:
        a, b = E.build(tup(r["a"])), E.build(tup(r["b"]))
        res = a.identical(b)
        print(a, b, "identical:", res, "renaming-equal:", rename_equal(tup(r["a"]), tup(r["b"])))
        if res and not rename_equal(tup(r["a"]), tup(r["b"])):
            print("VIOLATION property=C08 replay=(given)"); return 1
        return 0
    if "keys" in r:
        w = r["w"]; i = claripy.BVS("i%d" % w, w, explicit_name=True)
        d = {k: claripy.BVV(j + 1, w) for j, k in enumerate(r["keys"])}
        ex = claripy.ite_dict(i, d, claripy.BVV(0, w))
        iv = r["i"]
        got = E.ev(E.from_ast(ex), {"i%d" % w: iv})
        red = {}
        for k, v in d.items():
            red[k % (1 << w)] = v
        want = red[iv].args[0] if iv in red else 0
        print(ex, "at i=%d ->" % iv, got, "expected", want)
        if got[2] != want % (1 << w):
            print("VIOLATION property=C08 replay=(given)"); return 1
        return 0
    print(r); print("re-run the check with the recorded seed for this kind of case"); return 1
