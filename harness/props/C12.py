"""C12 — SolverComposite answers like a monolithic solver after any history.
Oracle: every answer of the real SolverComposite judged by brute force against the constraints added (histories
with branch, simplify, split, combine and merge; tracked and untracked; reuse on/off).  Model: the children are
SolverCompositeChild objects, whose stack is the C11 model (trace correspondence run on that class directly);
`_split_constraints` has its own model and correspondence; the independence theorems explain why per-child
answers are the monolithic ones.  The composite bookkeeping itself is covered by the oracle only (partial)."""
import os, subprocess

from lib.common import LEAN, write_if_changed
from lib import solvercheck as SC, solverlib as L
import translate_solver as ts

THEOREMS = ["Claripy.Props.C12.C12_mro_child", "Claripy.Props.C12.C12_mro_composite", "Claripy.Props.C12.C12_independent_sat",
            "Claripy.Props.C12.C12_query_component", "Claripy.Props.C12.C12_optimum_component", "Claripy.Solver.models_glue",
            # the bookkeeping of CompositeFrontend (model: Claripy/Solver/Composite.lean): partition invariant, add, satisfiable()
            "Claripy.Props.C12.C12_children_partition", "Claripy.Props.C12.C12_invariant_init",
            "Claripy.Props.C12.C12_add_keeps_partition", "Claripy.Props.C12.C12_add_dependent_keeps_partition",
            "Claripy.Props.C12.C12_satisfiable_correct", "Claripy.Props.C12.C12_child_footprint",
            "Claripy.Props.C12.C12_composite_partial", "Claripy.Solver.cinv_install", "Claripy.Solver.closure_names",
            "Claripy.Solver.children_joint_model", "Claripy.Solver.childCheckSat_spec", "Claripy.Solver.cCombineSpec", "Claripy.Props.C12.C12_combine_correct", "Claripy.Props.C12.C12_combine_models_valid", "Claripy.Solver.combineSpec", "Claripy.Solver.combine_valid", "Claripy.Solver.PModel.get?_combine", "Claripy.Props.C12.C12_merged_child_vs_all", "Claripy.Props.C12.C12_eval_correct", "Claripy.Props.C12.C12_is_true_correct", "Claripy.Props.C12.C12_is_false_correct", "Claripy.Props.C12.C12_reabsorb_never_raises", "Claripy.Props.C12.C12_query_after_history_partial", "Claripy.Solver.reabsorb_ok", "Claripy.Solver.merged_equi",
            # the other value queries (generic query theorem + footprints of batch_eval / solution), the witness about _reabsorb_solver
            "Claripy.Props.C12.C12_batch_eval_correct", "Claripy.Props.C12.C12_solution_correct",
            "Claripy.Props.C12.C12_child_footprint_batch_solution", "Claripy.Props.C12.C12_value_query_after_history_partial",
            "Claripy.Props.C12.C12_reabsorb_marker_without_model", "Claripy.Solver.compQuery_judge",
            "Claripy.Solver.child_batchEval_foot", "Claripy.Solver.child_solution_foot",
            "Claripy.Props.C12.C12_update_accepts_valid",
            # round 6: the marker clauses of MCInv under the guard of the code; CInv THROUGH the queries; whole histories
            "Claripy.Props.C12.C12_marker_guarded", "Claripy.Props.C12.C12_marker_unguarded", "Claripy.Props.C12.C12_reabsorb_noop",
            "Claripy.Props.C12.C12_call_keeps_invariant", "Claripy.Props.C12.C12_composite_history_partial",
            "Claripy.Props.C12.C12_composite_history_invariant", "Claripy.Props.C12.C12_composite_history_given_reabsorb_partial",
            "Claripy.Props.C12.C12_composite_history_one_owner_partial", "Claripy.Solver.comp_hist3", "Claripy.Solver.ownersOk_of_oneName",
            "Claripy.Solver.compSatisfiable_solvers",
            # _reabsorb_solver re-establishes CInv (split, update branch, replace branch); arbitrary histories
            "Claripy.Props.C12.C12_reabsorb_keeps_invariant", "Claripy.Props.C12.C12_composite_history",
            "Claripy.Props.C12.C12_composite_history_keeps_invariant", "Claripy.Props.C12.C12_call_correct",
            "Claripy.Solver.reabsorbKeeps", "Claripy.Solver.reabsorbKeeps_of_replace", "Claripy.Solver.reabsorbReplaceKeeps",
            "Claripy.Solver.childSplit_spec", "Claripy.Solver.split_go_spec", "Claripy.Solver.child_add_marks",
            "Claripy.Solver.mcInv_of_trivMarks", "Claripy.Solver.part_marker_const", "Claripy.Solver.childUpdate_step",
            "Claripy.Solver.storeAll_get_part", "Claripy.Solver.storeAll_get_other",
            # min / max: footprint of the child's min / max (class one stage down, frame-only _extrema), composite theorems
            "Claripy.Props.C12.C12_max_correct", "Claripy.Props.C12.C12_min_correct", "Claripy.Props.C12.C12_child_footprint_extrema",
            "Claripy.Solver.z3Extrema_l1", "Claripy.Solver.child_extremum_foot", "Claripy.Solver.compExtremum_step",
            "Claripy.Solver.comp_histX",
            # extra constraints: satisfiable(extra) (checkLoop with skip, frame facts of _reabsorb_solver), value queries with extras, histories
            "Claripy.Props.C12.C12_satisfiable_extra_correct", "Claripy.Props.C12.C12_reabsorb_frames", "Claripy.Props.C12.C12_check_loop_skip",
            "Claripy.Props.C12.C12_eval_extra_correct", "Claripy.Props.C12.C12_batch_eval_extra_correct",
            "Claripy.Props.C12.C12_solution_extra_correct", "Claripy.Props.C12.C12_max_extra_correct", "Claripy.Props.C12.C12_min_extra_correct",
            "Claripy.Props.C12.C12_call_correct_extras", "Claripy.Props.C12.C12_composite_history_extras",
            "Claripy.Props.C12.C12_composite_history_extras_keeps_invariant", "Claripy.Props.C12.cCompHistE_ok",
            "Claripy.Solver.checkLoop_skip_spec", "Claripy.Solver.extraTail_spec", "Claripy.Solver.extra_reabsorb_post",
            "Claripy.Solver.compSatisfiable_extra_spec", "Claripy.Solver.compSatisfiable_extra_eq", "Claripy.Solver.reabsorbFrames",
            "Claripy.Solver.reabsorbFrames_of_replace", "Claripy.Solver.reabsorbReplaceFrames", "Claripy.Solver.compSatisfiable_extra",
            "Claripy.Solver.compQuery_judgeX", "Claripy.Solver.compQuery_keepsX", "Claripy.Solver.Equi.extra",
            "Claripy.Solver.compEvalX_step", "Claripy.Solver.compBatchEvalX_step", "Claripy.Solver.compSolutionX_step",
            "Claripy.Solver.compMaxX_step", "Claripy.Solver.compMinX_step", "Claripy.Solver.comp_stepE", "Claripy.Solver.comp_histE",
            "Claripy.Solver.comp_histE_inv", "Claripy.Solver.InScopeCX.toCE",
            # branch() of the composite: copy-on-write children, the frame rule, trees of composites (tree_step / tree_hist take the footprint CompFrames as a hypothesis; it is discharged in round 9)
            # round 9: the footprint of the calls (invariant-free calculus) => CompFrames => whole trees of branched composites
            "Claripy.Props.C12.C12_composite_tree_history", "Claripy.Props.C12.C12_composite_tree_step",
            "Claripy.Props.C12.C12_comp_frames", "Claripy.Props.C12.C12_step_footprint",
            "Claripy.Props.C12.C12_child_queries_keep_constraints", "Claripy.Solver.compFrames", "Claripy.Solver.childKeeps",
            "Claripy.Solver.stepFrame_compStep", "Claripy.Solver.opsKeeps_chStage", "Claripy.Solver.keeps_childCheckSat",
            "Claripy.Solver.keeps_getSolver", "Claripy.Solver.sf_solverForNames", "Claripy.Solver.sf_claim", "Claripy.Solver.sf_compAdd",
            "Claripy.Solver.sf_reabsorb", "Claripy.Solver.sf_compSatisfiable", "Claripy.Solver.sf_compQuery",
            "Claripy.Solver.sf_storeChild", "Claripy.Solver.childCombineWith_frame", "Claripy.Solver.split_go_frame",
            "Claripy.Props.C12.C12_branch_keeps_invariant", "Claripy.Props.C12.C12_claim_copy_on_write",
            "Claripy.Props.C12.C12_invariant_frame", "Claripy.Props.C12.C12_composite_tree_step_partial",
            "Claripy.Props.C12.C12_composite_tree_history_partial", "Claripy.Props.C12.cTreeHist_ok",
            "Claripy.Solver.CInv.transfer", "Claripy.Solver.CInv.frame", "Claripy.Solver.CInv.finalized", "Claripy.Solver.tinvS_finalize",
            "Claripy.Solver.finAll_spec", "Claripy.Solver.compBranch_eq", "Claripy.Solver.compBranch_spec", "Claripy.Solver.claim_spec",
            "Claripy.Solver.tree_step", "Claripy.Solver.tree_hist", "Claripy.Solver.treeInv_init",
            "Claripy.Solver.CInv.of_world", "Claripy.Solver.compQuery_keeps", "Claripy.Solver.compTruth_keeps",
            "Claripy.Solver.solverForNames_one", "Claripy.Solver.child_truth_foot", "Claripy.Solver.MCInv.evalExh",
            "Claripy.Solver.MCInv.opt"]
A = lambda c, s=0: {"s": s, "op": "add", "cs": [c]}  # noqa: E731
E = lambda e, n, s=0: {"s": s, "op": "eval", "e": e, "n": n, "extra": []}  # noqa: E731
RULES = {
    "connect-two-children": [A("ULT(x, 3)"), A("y == 6"), E("x", 20), A("ZeroExt(1, y) == x + 1"), {"s": 0, "op": "satisfiable", "extra": []},
                             E("y", 20)],
    "transitive-closure": [A("ULT(x, 3)"), A("SLT(y, 0)"), A("ULT(z, 2)"), A("z == y"), A("ZeroExt(1, y) == x + 1"), E("x", 20), E("z", 20)],
    "unsat-child-other-query": [A("UGE(x, 8)"), A("Or(x == 1, x == 2)"), {"s": 0, "op": "solution", "e": "y", "v": 6, "extra": ["SGE(y ^ z, 0)"]},
                                {"s": 0, "op": "max", "e": "z", "signed": False, "extra": ["ULT(z, 2)"]}, E("y", 2)],
    "cow-after-branch": [A("ULT(x, 5)"), A("y == 6"), {"s": 0, "op": "branch"}, A("x != 1", 1), A("ULT(z, 2)", 0), E("x", 20, 0), E("x", 20, 1),
                         E("z", 20, 1), {"s": 1, "op": "simplify"}, E("x", 20, 0)],
    "false-literal": [A("ULT(x, 3)"), A("false"), {"s": 0, "op": "satisfiable", "extra": []}, {"s": 0, "op": "branch"}, E("y", 2, 1),
                      {"s": 0, "op": "combine", "others": [1]}, {"s": 2, "op": "satisfiable", "extra": []},
                      {"s": 0, "op": "merge", "others": [1], "conds": ["b", "Not(b)"], "anc": None}, {"s": 3, "op": "satisfiable", "extra": []}],
    "expansion-then-simplify": [{"s": 0, "op": "min", "e": "If(b, y, y + 1)", "signed": False, "extra": []},
                                {"s": 0, "op": "min", "e": "If(b, y, y + 1)", "signed": False, "extra": []}, A("b"),
                                E("x + ZeroExt(1, y)", 1), E("y", 20), {"s": 0, "op": "max", "e": "y ^ z", "signed": True, "extra": []},
                                {"s": 0, "op": "max", "e": "y", "signed": False, "extra": []}, A("x + ZeroExt(1, y) == 9"), E("z", 20)],
    "merge-conditions-over-common-child": [A("Or(x == 1, x == 2)"), {"s": 0, "op": "branch"}, A("z == y", 1),
                                           {"s": 0, "op": "merge", "others": [1, 1], "conds": ["z == y", "true", "x + ZeroExt(1, y) == 9"], "anc": None},
                                           E("x", 20, 2), {"s": 2, "op": "satisfiable", "extra": []}],
    # nothing is asked between the adds; simplify() disconnects the still unchecked child {x, y} into {y} and {x}, and the part
    # on x is unsatisfiable in a way only a solver sees (squares mod 16 are 0, 1, 4, 9)
    "unchecked-child-falls-apart": [A("y == 6"), A("UGT(x, ZeroExt(1, y))"), A("x * x == 3"), A("ULT(z, 2)"), {"s": 0, "op": "simplify"},
                                    {"s": 0, "op": "satisfiable", "extra": []}, E("z", 20)],
    "unchecked-child-falls-apart-implicit": [A("ULT(z, 2)"), A("y == 6"), A("UGT(x, ZeroExt(1, y))"), A("x * x + x == 1"),
                                             {"s": 0, "op": "max", "e": "z", "signed": False, "extra": []}, {"s": 0, "op": "branch"},
                                             {"s": 1, "op": "simplify"}, {"s": 1, "op": "satisfiable", "extra": []},
                                             {"s": 0, "op": "satisfiable", "extra": []}],
    # solution(e, v) with a symbolic v that lives in another child than e
    "solution-symbolic-value": [A("ULT(x, 3)"), A("y == 6"), {"s": 0, "op": "solution", "e": "x", "v": "ZeroExt(1, y)", "extra": []},
                                A("ULT(z, 2)"), {"s": 0, "op": "solution", "e": "y", "v": "z", "extra": []},
                                {"s": 0, "op": "solution", "e": "z", "v": "y ^ z", "extra": []}, {"s": 0, "op": "branch"},
                                {"s": 1, "op": "solution", "e": "x + ZeroExt(1, y)", "v": "If(b, x, ZeroExt(1, y))", "extra": ["b"]},
                                {"s": 1, "op": "solution", "e": "x & 3", "v": "ZeroExt(1, z)", "extra": []}],
    # two children are each enumerated completely, then a weak constraint (over a third, fresh variable too) connects them: it
    # falsifies no model anybody cached and cannot be simplified away; whatever the combined child inherits must still be complete
    "exhausted-children-connected": [A("ULT(x, 3)"), A("SLT(y, 0)"), E("x", 20), E("y", 20), A("x + ZeroExt(1, y) != ZeroExt(1, z)"), E("x", 20),
                                     E("y", 20), {"s": 0, "op": "satisfiable", "extra": ["x == 0"]},
                                     {"s": 0, "op": "max", "e": "y", "signed": False, "extra": []}],
    "exhausted-children-connected-on-branch": [A("ULE(x, 11)"), A("UGE(x, 8)"), A("UGE(z, 1)"), E("z", 20), E("x", 20),
                                               {"s": 0, "op": "min", "e": "x", "signed": False, "extra": []}, {"s": 0, "op": "branch"},
                                               A("x ^ ZeroExt(1, z) != 0", 1), E("z", 20, 1), E("x", 20, 1), E("x", 20, 0)],
    # CompositedCacheMixin keys merged solvers by the names asked for; the solver spans every child connected to them.  A variable
    # that expansion introduced and simplification removed again (b) stays a key of the old child; the merged solver cached under
    # {b} must not survive an add to the y/z child (found at the thorough tier: z == 5 was lost, satisfiable() answered True)
    "stale-merged-solver-under-leftover-name": [A("z == y"), {"s": 0, "op": "max", "e": "If(b, y, y + 1)", "signed": False, "extra": []},
                                                {"s": 0, "op": "max", "e": "x", "signed": False, "extra": []},
                                                {"s": 0, "op": "max", "e": "y", "signed": True,
                                                 "extra": ["Or(And(x == 1, y == 5), And(x == 2, y == 0))"]},
                                                E("b", 2), A("(z) == 5"), {"s": 0, "op": "add", "cs": ["ULT(z, 2)", "Not(b)"]},
                                                {"s": 0, "op": "satisfiable", "extra": []}, E("z", 20)],
    # a question whose names are exactly {x, y} while x and y are still independent (CompositedCacheMixin remembers the combination
    # of the two children under that name set; branch() copies the table): after a branch one side adds a constraint over
    # exactly {x, y} - the other side, asked about x + y again, must not see it
    "combined-child-then-branch-adds": [A("ULT(x, 3)"), A("SLT(y, 0)"), {"s": 0, "op": "satisfiable", "extra": ["x + ZeroExt(1, y) == 9"]},
                                        {"s": 0, "op": "branch"}, A("x + ZeroExt(1, y) == 9", 1), E("x + ZeroExt(1, y)", 40, 0), E("x + ZeroExt(1, y)", 40, 1),
                                        {"s": 0, "op": "branch"}, A("x ^ ZeroExt(1, y) != 0", 0), E("x ^ ZeroExt(1, y)", 40, 2), E("y", 20, 2),
                                        {"s": 2, "op": "max", "e": "x + ZeroExt(1, y)", "signed": False, "extra": []}],
    # x is constrained, y is FREE; a question whose names are exactly {x, y} (answered by what is known about x alone, possibly
    # remembered under {x, y}); then y alone is constrained - a new child, x's child is untouched - and the same is asked again
    "span-free-then-constrain-free": [A("ULT(x, 3)"), {"s": 0, "op": "satisfiable", "extra": []}, E("x + ZeroExt(1, y)", 2), A("y == 5"),
                                      E("x + ZeroExt(1, y)", 40), {"s": 0, "op": "max", "e": "x + ZeroExt(1, y)", "signed": False, "extra": []},
                                      {"s": 0, "op": "solution", "e": "x + ZeroExt(1, y)", "v": 9, "extra": []}],
    "span-free-solution-then-constrain-free": [A("ULT(x, 3)"), {"s": 0, "op": "solution", "e": "x + ZeroExt(1, y)", "v": 9, "extra": []}, A("y == 5"),
                                               {"s": 0, "op": "solution", "e": "x + ZeroExt(1, y)", "v": 9, "extra": []}, E("x + ZeroExt(1, y)", 40)],
    "span-free-extra-then-constrain-free": [A("UGE(z, 1)"), {"s": 0, "op": "satisfiable", "extra": ["y ^ z == 1"]}, A("SLT(y, 0)"),
                                            {"s": 0, "op": "satisfiable", "extra": ["y ^ z == 1"]}, E("y ^ z", 40),
                                            {"s": 0, "op": "min", "e": "y ^ z", "signed": False, "extra": []}],
    "span-free-then-branch-constrains-free": [A("ULT(x, 3)"), E("x + ZeroExt(1, y)", 2), {"s": 0, "op": "branch"}, A("y == 5", 1),
                                              E("x + ZeroExt(1, y)", 40, 1), E("x + ZeroExt(1, y)", 40, 0),
                                              {"s": 1, "op": "min", "e": "x + ZeroExt(1, y)", "signed": False, "extra": []}],
}


def jobs_for(ctx, mult=1):
    jobs = []
    for name, h in RULES.items():
        for cfg in ({"track": False, "reuse": False}, {"track": True, "reuse": False}, {"track": False, "reuse": True}):
            jobs.append({"cls": "SolverComposite", "cfg": cfg, "hist": [dict(d) for d in h]})
    n = ctx.pick(170, 700) * mult
    lens = ctx.pick([10, 20, 30], [30, 60, 120])
    for i in range(n):
        # symv: a third of the solution() calls ask about a symbolic value (mostly over other variables, i.e. another child)
        jobs.append({"cls": "SolverComposite", "cfg": {"track": i % 5 == 0, "reuse": i % 3 == 0}, "len": lens[i % len(lens)],
                     "struct": i % 2 == 0, "gen": {"symv": 0.35}})
    # adds without a question in between, then a simplifying call that makes a still unchecked child fall apart; random tail
    for i in range(ctx.pick(60, 300) * mult):
        jobs.append({"cls": "SolverComposite", "cfg": {"track": i % 5 == 0, "reuse": i % 3 == 0}, "len": ctx.pick(4, 12),
                     "gen": {"shape": "unchecked-simplify", "symv": 0.35, "calpha": L.CONSTRAINTS + [c for v in L.OPAQUE.values() for c in v[:2]]}})
    # independent children each enumerated completely, then connected by a weak constraint (falsifies no cached model); random tail
    weak = [c for v in L.WEAK.values() for c in v] + L.WEAK3
    for i in range(ctx.pick(50, 300) * mult):
        jobs.append({"cls": "SolverComposite", "cfg": {"track": i % 5 == 0, "reuse": i % 3 == 0}, "len": ctx.pick(4, 12),
                     "gen": {"shape": "exhaust-then-connect", "symv": 0.35, "calpha": L.CONSTRAINTS + weak}})
    # two variables with range constraints of their own, ONE question whose names are exactly both (a value / an extremum of an
    # expression over both, solution(), satisfiable() under such an extra constraint), branch (once or twice), one or two of the
    # solvers add a constraint over exactly both, everybody is asked about expressions over both; random tail
    for i in range(ctx.pick(40, 240) * mult):
        jobs.append({"cls": "SolverComposite", "cfg": {"track": i % 5 == 0, "reuse": i % 3 == 0}, "len": ctx.pick(4, 12),
                     "gen": {"shape": "span-then-branch", "symv": 0.35}})
    # one variable constrained, another one FREE, ONE question whose names are exactly both, then the free one is constrained alone
    # (on the solver or on a branch taken after the question), the same asked again; random tail
    for i in range(ctx.pick(40, 240) * mult):
        jobs.append({"cls": "SolverComposite", "cfg": {"track": i % 5 == 0, "reuse": i % 3 == 0}, "len": ctx.pick(4, 12),
                     "gen": {"shape": "span-free", "symv": 0.35}})
    return jobs


def child_jobs(ctx):
    n = ctx.pick(60, 300)
    lens = ctx.pick([10, 20, 30], [30, 60, 120])
    # a child never sees a concrete expression (the composite's ConcreteHandlerMixin answers those)
    ealpha = [e for e in L.EXPRS if not e.startswith("BVV(")]
    return [{"cls": "SolverCompositeChild", "cfg": {"track": i % 5 == 0, "reuse": i % 3 == 0}, "len": lens[i % len(lens)],
             "gen": {"ealpha": ealpha}} for i in range(n)]


def run(ctx):
    ctx._chunk_base = 0
    ctx.cov["trusted_base"] += [
        "the C11 hypotheses for the children (OracleExact, BuildExact, SimplifyEquiv, CheapSound); ConWf: a constraint's meaning depends only on "
        "the variables it lists",
        "the composite bookkeeping (_solvers, _claim, _reabsorb_solver, _merged_solvers) is not modelled: covered by the oracle only",
    ]
    ctx.cov["rule"] = ("SolverComposite: rule-directed histories (connecting children, transitive closure, unsat child + unrelated query, copy-on-write "
                       "after branch, literal false, expansion then simplify, merge conditions over a common child, an unchecked child falling apart on "
                       "simplify, solution() with a symbolic value of another child, completely enumerated children connected by a weak "
                       "constraint) x3 configurations; random histories "
                       "(half with split/combine/merge, relative solver addressing; a third of the solution() calls with a symbolic value) of "
                       "length <= 30 quick / 120 thorough; directed openings (pin, tie, solver-only constraints on the tied variable, no question "
                       "asked; then simplify / min / max / eval(n>1), possibly on a branch; and: range constraints per variable, each variable "
                       "enumerated completely, one weak connecting constraint - a disequality, often over a fresh third variable -, everything "
                       "asked again; and: two independent variables, ONE question spanning exactly both, branch, one or two solvers add a constraint "
                       "over exactly both, everybody asked about expressions over both; and: one variable constrained, one FREE, ONE question spanning "
                       "exactly both, the free one constrained alone - possibly on a branch -, the same asked again) with a random tail; SolverCompositeChild: random "
                       "histories with full trace correspondence; _split_constraints: random constraint lists, model vs real; non-trivial = >= 3 calls")
    tie_ok = True
    try:
        write_if_changed(os.path.join(LEAN, "Claripy", "Gen", "SolverMro.lean"), ts.render(ts.translate()))
    except ts.TranslateError as e:
        tie_ok = False
        ctx.tie_broken("translate:solvers.py/__mro__", str(e))
    if tie_ok:
        ctx.prove("ClaripyProofs.Props.C12", THEOREMS, driver_exe="driver_solver")
    else:
        ctx.cov["obligations"] += len(THEOREMS)
        ctx.lake_build(["driver_solver"])
    workers = ctx.pick(4, 6)
    # children: full correspondence
    m = SC.run_jobs(ctx, child_jobs(ctx), workers, corr=True, chunk_size=ctx.pick(10, 20))
    SC.merge_cov(ctx, m, "child-class-correspondence")
    fails = list(m["fails"])
    if m["driver_error"]:
        ctx.tie_broken("driver", m["driver_error"])
    for mm in m["mismatch"][:3]:
        ctx.tie_broken("corr:%s.%s" % (mm["cls"], mm["op"].get("op", "?")),
                       "%s differs after %s (%s); model=%s real=%s" % ("/".join(mm["differs"]), mm["op"], mm["cfg"], mm["model"][:400], mm["real"][:400]))
    # _split_constraints: model vs real
    try:
        from lib import solverrec as R
        lines, exp = R.split_corr_lines(L.Universe(), ctx.rng, ctx.pick(300, 3000))
        out = ctx.driver(lines, exe="driver_solver")
        ctx.count(len(lines))
        ctx.cov.setdefault("input_distribution", {})["split_constraints"] = {"cases": len(lines)}
        for l, o, e in zip(lines, out, exp):
            if o != e:
                ctx.tie_broken("corr:_split_constraints", "%s model=%s real=%s" % (l, o, e))
                break
    except RuntimeError as e:
        ctx.tie_broken("driver", str(e)[:300])
    # composite: oracle
    m2 = SC.run_jobs(ctx, jobs_for(ctx), workers, corr=False, chunk_size=ctx.pick(10, 25))
    SC.merge_cov(ctx, m2, "composite-oracle")
    fails += m2["fails"]
    if ctx.broken and not fails:
        m3 = SC.run_jobs(ctx, jobs_for(ctx, mult=3), workers, corr=False, chunk_size=30)
        SC.merge_cov(ctx, m3, "failing-input-search")
        fails += m3["fails"]
    # what split/combine/merge RETURN is C15's business; here: the answers
    answers = [f for f in fails if f["hist"][f["fails"][0][0]]["op"] not in ("split", "combine", "merge")]
    ctx.cov["structure_failures_left_to_C15"] = len(fails) - len(answers)
    SC.report_failures(ctx, "C12", answers)
    # floating-point values: feasible, pairwise distinct AS VALUES (+0 / -0 are two, NaN is one), complete
    from lib import solver_fpenum
    solver_fpenum.run(ctx, "C12", ["SolverComposite"])
    # the model of class CompositeFrontend (Claripy/Solver/Composite.lean, what C12_children_partition / C12_add_keeps_partition /
    # C12_satisfiable_correct are about) against the real class: same histories, answer + bookkeeping compared after every call
    from lib import solver_composite_corr as CC
    CC.run(ctx, workers=workers)


def replay(ctx, obj):
    if obj["replay"].get("kind") == "fpenum":
        from lib import solver_fpenum
        return solver_fpenum.replay("C12", obj["replay"])
    return SC.replay_history("C12", obj)
