"""C11 — solver answers after any history (Solver, SolverCacheless, SolverStrings).
translate (MRO) -> prove -> correspondence of the Lean state machine with the real frontends on recorded oracle
traces (state abstraction + answer after every call) -> the property itself by brute force on every answer."""
import os

from lib.common import LEAN, write_if_changed
from lib import solvercheck as SC
import translate_solver as ts

THEOREMS = [
    "Claripy.Props.C11.C11_mro_solver", "Claripy.Props.C11.C11_mro_cacheless", "Claripy.Props.C11.C11_mro_strings",
    "Claripy.Props.C11.C11_satisfiable_exact", "Claripy.Props.C11.C11_batch_eval_correct", "Claripy.Props.C11.C11_extrema_correct",
    "Claripy.Solver.z3Check_cases", "Claripy.Solver.batchEvalLoop_spec", "Claripy.Solver.extremaLoop_spec",
    "Claripy.Solver.key_wrap", "Claripy.Solver.key_range", "Claripy.Solver.key_inj",
    # SolverCacheless: the whole mixin stack, every history (add/satisfiable/eval/min/max/solution/is_true/is_false/
    # simplify/downsize)
    "Claripy.Props.C11.C11_cacheless_refines", "Claripy.Props.C11.C11_cacheless_refines_or_gives_up",
    "Claripy.Props.C11.C11_cacheless_step", "Claripy.Props.C11.C11_is_true_false_sound",
    "Claripy.Props.C11.C11_hypotheses_consistent",
    "Claripy.Solver.getSolver_spec", "Claripy.Solver.clSat_spec", "Claripy.Solver.clEval_spec",
    "Claripy.Solver.clSolution_spec", "Claripy.Solver.clTruth_spec", "Claripy.Solver.clExtremum_spec",
    "Claripy.Solver.clAdd_spec", "Claripy.Solver.clSimplify_spec", "Claripy.Solver.clDownsize_spec",
    "Claripy.Solver.dedupAdd_spec", "Claripy.Solver.filter_spec",
    # the caching class Solver: invariant of ModelCacheMixin, every operation of the mixin, the fast paths, the whole stack,
    # every history over trees of branched solvers
    "Claripy.Props.C11.C11_modelcache_init", "Claripy.Props.C11.C11_modelcache_hook", "Claripy.Props.C11.C11_modelcache_add",
    "Claripy.Props.C11.C11_modelcache_satisfiable", "Claripy.Props.C11.C11_modelcache_batch_eval",
    "Claripy.Props.C11.C11_modelcache_eval", "Claripy.Props.C11.C11_modelcache_extremum",
    "Claripy.Props.C11.C11_modelcache_solution", "Claripy.Props.C11.C11_modelcache_copy_pickle_simplify",
    "Claripy.Props.C11.C11_cache_satisfiable_fast", "Claripy.Props.C11.C11_cache_eval_fast",
    "Claripy.Props.C11.C11_cache_extremum_fast", "Claripy.Props.C11.C11_cache_solution_fast",
    "Claripy.Props.C11.C11_solver_refines", "Claripy.Props.C11.C11_solver_refines_or_gives_up",
    "Claripy.Props.C11.C11_solver_step", "Claripy.Props.C11.C11_solver_hypotheses_consistent",
    "Claripy.Solver.mcHookFe_inv", "Claripy.Solver.mc_add_spec", "Claripy.Solver.mc_batchEval_spec",
    "Claripy.Solver.mc_extremum_spec", "Claripy.Solver.z3BatchEval_hooked", "Claripy.Solver.z3Extrema_hooked",
    "Claripy.Solver.full_satisfiable_spec", "Claripy.Solver.full_batchEval_spec", "Claripy.Solver.full_extremum_spec",
    "Claripy.Solver.full_solution_spec", "Claripy.Solver.fc_add_low", "Claripy.Solver.satCache_add_low",
    "Claripy.Solver.dedup_add_low", "Claripy.Solver.filter_add_spec", "Claripy.Solver.solSimplify_spec",
    "Claripy.Solver.satCacheQuery_spec", "Claripy.Solver.expansion_opt_spec", "Claripy.Solver.sL9_ok3",
    "Claripy.Solver.sol_step", "Claripy.Solver.sol_hist_giveup", "Claripy.Solver.cHyps",
    "Claripy.Solver.sol_batchEval_top", "Claripy.Solver.tuplesOk_merge", "Claripy.Solver.si_pickle",
    "Claripy.Props.C11.C11_strings_refines", "Claripy.Props.C11.C11_strings_refines_or_gives_up",
    "Claripy.Props.C11.C11_strings_step", "Claripy.Solver.stAdd_spec", "Claripy.Solver.stSimplify_spec",
    "Claripy.Props.C11.C11_child_refines", "Claripy.Props.C11.C11_child_refines_or_gives_up",
    "Claripy.Props.C11.C11_child_step", "Claripy.Solver.cL4_add_spec", "Claripy.Solver.chSimplify_spec",
    "Claripy.Solver.cL4_opt_spec", "Claripy.Props.C11.C11_full_partial",
    "Claripy.Solver.getSolverG_spec", "Claripy.Solver.tracked_add_sem",
]
TESTS = []
CLASSES = ["Solver", "SolverCacheless", "SolverStrings"]

# rule-directed stream: one history per cache arm / per repaired defect (they are also the witnesses recorded in
# known_findings.json as "fixed:"), each run on every class
A = lambda c: {"s": 0, "op": "add", "cs": [c]}  # noqa: E731
Q_ALL = [{"s": 0, "op": "satisfiable", "extra": []}, {"s": 0, "op": "eval", "e": "x", "n": 20, "extra": []},
         {"s": 0, "op": "min", "e": "x", "signed": True, "extra": []}, {"s": 0, "op": "max", "e": "x", "signed": False, "extra": []}]
RULES = {
    "batch-after-exhausted-evals": [A("ULT(x, 3)"), A("ULT(z, 2)"), {"s": 0, "op": "eval", "e": "x", "n": 5, "extra": []},
                                    {"s": 0, "op": "eval", "e": "z", "n": 5, "extra": []},
                                    {"s": 0, "op": "batch_eval", "es": ["x", "z"], "n": 20, "extra": []},
                                    {"s": 0, "op": "batch_eval", "es": ["z", "x + ZeroExt(1, y)"], "n": 40, "extra": []}],
    "signed-min-from-eval-cache": [A("Or(x == 1, x == 15)"), {"s": 0, "op": "eval", "e": "x", "n": 5, "extra": []},
                                   {"s": 0, "op": "min", "e": "x", "signed": True, "extra": []},
                                   {"s": 0, "op": "max", "e": "x", "signed": True, "extra": []}],
    "signed-after-unsigned-max": [A("SGE(y ^ z, 0)"), {"s": 0, "op": "max", "e": "z", "signed": False, "extra": []},
                                  {"s": 0, "op": "max", "e": "z", "signed": True, "extra": []},
                                  {"s": 0, "op": "min", "e": "z", "signed": False, "extra": []},
                                  {"s": 0, "op": "min", "e": "z", "signed": True, "extra": []}],
    "min-extra-after-cached-min": [A("ULE(x, 11)"), {"s": 0, "op": "min", "e": "x", "signed": False, "extra": []},
                                   {"s": 0, "op": "min", "e": "x", "signed": False, "extra": ["UGE(x, 8)"]},
                                   {"s": 0, "op": "max", "e": "x", "signed": False, "extra": []},
                                   {"s": 0, "op": "max", "e": "x", "signed": False, "extra": ["ULT(x, 3)"]}],
    "eval-exhausted-extra-other-var": [A("Or(x == 1, x == 2)"), {"s": 0, "op": "eval", "e": "x", "n": 5, "extra": []},
                                       {"s": 0, "op": "min", "e": "x", "signed": False,
                                        "extra": ["Or(And(x == 1, y == 5), And(x == 2, y == 0))"]},
                                       {"s": 0, "op": "eval", "e": "x", "n": 5,
                                        "extra": ["Or(And(x == 1, y == 5), And(x == 2, y == 0))"]}],
    "flag-without-known-variable": [{"s": 0, "op": "max", "e": "z", "signed": False, "extra": []},
                                    {"s": 0, "op": "max", "e": "y ^ z", "signed": True, "extra": []},
                                    {"s": 0, "op": "max", "e": "z", "signed": False, "extra": []},
                                    {"s": 0, "op": "min", "e": "y", "signed": False, "extra": []},
                                    {"s": 0, "op": "eval", "e": "y", "n": 1, "extra": []},
                                    {"s": 0, "op": "min", "e": "y", "signed": False, "extra": []}],
    "cached-model-without-a-variable": [A("Or(b, y == 0)"), {"s": 0, "op": "satisfiable", "extra": []},
                                        {"s": 0, "op": "eval", "e": "If(b, y, y + 1)", "n": 20, "extra": []},
                                        {"s": 0, "op": "min", "e": "If(b, y, y + 1)", "signed": False, "extra": []},
                                        {"s": 0, "op": "max", "e": "If(b, y, y + 1)", "signed": True, "extra": []}],
    "solution-on-unsat": [A("ZeroExt(1, y) == x + 1"), A("x == 7"), {"s": 0, "op": "solution", "e": "x", "v": 3, "extra": []},
                          {"s": 0, "op": "satisfiable", "extra": []}],
    "trivial-model-fast-path": [A("x == 5"), {"s": 0, "op": "eval", "e": "x", "n": 5, "extra": []},
                                {"s": 0, "op": "min", "e": "x", "signed": True, "extra": []}, A("y == 6"),
                                {"s": 0, "op": "max", "e": "x", "signed": False, "extra": []}, A("x != 5"),
                                {"s": 0, "op": "satisfiable", "extra": []}],
    "cheap-contradiction": [A("ULT(x, 3)"), A("UGE(x, 8)"), {"s": 0, "op": "satisfiable", "extra": []},
                            {"s": 0, "op": "eval", "e": "x", "n": 2, "extra": []}],
    "false-and-filter": [A("true"), A("ULT(x, 3)"), {"s": 0, "op": "satisfiable", "extra": ["false"]},
                         {"s": 0, "op": "eval", "e": "x", "n": 5, "extra": ["true"]}, A("false"),
                         {"s": 0, "op": "satisfiable", "extra": []}, {"s": 0, "op": "simplify"}],
    "branch-then-diverge": [A("ULT(x, 5)"), {"s": 0, "op": "satisfiable", "extra": []}, {"s": 0, "op": "branch"},
                            {"s": 1, "op": "add", "cs": ["x == 7"]}, {"s": 1, "op": "satisfiable", "extra": []},
                            {"s": 0, "op": "satisfiable", "extra": []}, {"s": 0, "op": "eval", "e": "x", "n": 20, "extra": []},
                            {"s": 1, "op": "eval", "e": "x", "n": 2, "extra": []}],
    "simplify-downsize": [A("ULT(x, 3)"), A("Or(x == 1, x == 2)"), {"s": 0, "op": "eval", "e": "x", "n": 5, "extra": []},
                          {"s": 0, "op": "simplify"}, {"s": 0, "op": "downsize"}, A("x != 1"),
                          {"s": 0, "op": "max", "e": "x", "signed": False, "extra": []}],
    "dedup-and-batch": [A("ULT(x, 3)"), A("ULT(x, 3)"), {"s": 0, "op": "batch_eval", "es": ["x", "y"], "n": 5, "extra": []},
                        {"s": 0, "op": "batch_eval", "es": ["x", "BVV(3, 4)"], "n": 5, "extra": ["SLT(y, 0)"]},
                        {"s": 0, "op": "solution", "e": "x", "v": 2, "extra": []}, {"s": 0, "op": "solution", "e": "x", "v": 9, "extra": []},
                        {"s": 0, "op": "is_true", "e": "ULT(x, 3)", "extra": []}, {"s": 0, "op": "is_false", "e": "x == 5", "extra": []}],
    # everything about x is known (all values, the extrema); downsize(); ONE small question (a single model comes back); then
    # everything is asked again - whatever was remembered about `all values are known` must still be true of what is cached now
    "exhausted-then-downsize": [A("Or(x == 1, x == 2)"), A("ULE(x, 11)"), {"s": 0, "op": "eval", "e": "x", "n": 20, "extra": []},
                                {"s": 0, "op": "max", "e": "x & 3", "signed": False, "extra": []}, {"s": 0, "op": "downsize"},
                                {"s": 0, "op": "eval", "e": "x", "n": 1, "extra": []}, {"s": 0, "op": "eval", "e": "x", "n": 20, "extra": []},
                                {"s": 0, "op": "min", "e": "x", "signed": False, "extra": []}, {"s": 0, "op": "max", "e": "x", "signed": False, "extra": []},
                                {"s": 0, "op": "max", "e": "x & 3", "signed": False, "extra": []}],
    "extrema-then-downsize": [A("UGE(x, 8)"), A("ULE(x, 11)"), {"s": 0, "op": "min", "e": "x", "signed": False, "extra": []},
                              {"s": 0, "op": "max", "e": "x", "signed": True, "extra": []}, {"s": 0, "op": "downsize"},
                              {"s": 0, "op": "solution", "e": "x", "v": 9, "extra": []}, {"s": 0, "op": "min", "e": "x", "signed": False, "extra": []},
                              {"s": 0, "op": "max", "e": "x", "signed": True, "extra": []}, {"s": 0, "op": "batch_eval", "es": ["x"], "n": 20, "extra": []}],
    # the FIRST and only constraint is a bound that leaves no room - in the signed reading (x <s INT_MIN, x >s INT_MAX) and in the
    # unsigned one (x <u 0, x >u all-ones) -, or one that leaves all of it; satisfiable() / values / extrema are asked at once
    "single-bound-below-int-min": [A("SLT(x, 8)")] + Q_ALL,
    "single-bound-above-int-max": [A("SGT(x, 7)"), Q_ALL[1], Q_ALL[0]] + Q_ALL[2:],
    "single-bound-below-zero": [A("ULT(x, 0)")] + Q_ALL,
    "single-bound-above-all-ones": [A("UGT(y, 7)"), Q_ALL[0], {"s": 0, "op": "eval", "e": "y", "n": 20, "extra": []}],
    "single-bound-whole-range": [A("SGE(x, 8)")] + Q_ALL[:2] + [A("SLE(x, 7)"), Q_ALL[0], A("SLT(x, 8)")] + Q_ALL,
    "single-bound-on-branch": [{"s": 0, "op": "branch"}, {"s": 1, "op": "add", "cs": ["SGT(y, 3)"]}, {"s": 1, "op": "satisfiable", "extra": []},
                               {"s": 1, "op": "eval", "e": "y", "n": 20, "extra": []}, {"s": 0, "op": "satisfiable", "extra": []},
                               A("SLT(BVV(7, 4), x)"), Q_ALL[0], Q_ALL[1]],
}

WEIGHTS = {"add": 22, "satisfiable": 8, "eval": 14, "batch_eval": 6, "min": 11, "max": 11, "solution": 8, "is_true": 2, "is_false": 2,
           "simplify": 4, "downsize": 4, "branch": 5}


def rule_jobs():
    jobs = []
    for cls in CLASSES:
        for name, h in RULES.items():
            for cfg in ({"track": False, "reuse": False}, {"track": True, "reuse": False}, {"track": False, "reuse": True}):
                jobs.append({"cls": cls, "cfg": cfg, "hist": h})
    return jobs


def random_jobs(ctx, mult=1):
    n = {"Solver": ctx.pick(70, 420), "SolverCacheless": ctx.pick(30, 150), "SolverStrings": ctx.pick(24, 120)}
    lens = ctx.pick([8, 20, 30], [30, 60, 120, 200])
    jobs = []
    for cls, k in n.items():
        for i in range(k * mult):
            # half of the downsize() calls come as a burst: [everything about e] downsize(), ONE small question, everything about e
            jobs.append({"cls": cls, "cfg": {"track": i % 5 == 0, "reuse": i % 3 == 0}, "len": lens[i % len(lens)],
                         "gen": {"weights": WEIGHTS, "after_downsize": 0.6}})
    return jobs


def directed_jobs(ctx, mult=1):
    """range constraints on a variable, EVERYTHING asked about expressions over it (all values, extrema), downsize(), one small
    question, everything again; random tail"""
    jobs = []
    for cls, k in {"Solver": ctx.pick(24, 160), "SolverCacheless": ctx.pick(6, 40), "SolverStrings": ctx.pick(8, 60)}.items():
        for i in range(k * mult):
            jobs.append({"cls": cls, "cfg": {"track": i % 5 == 0, "reuse": i % 3 == 0}, "len": ctx.pick(5, 20),
                         "gen": {"shape": "exhaust-downsize", "weights": WEIGHTS, "after_downsize": 0.6}})
    # the first and only constraint is a bound of a bare variable against a boundary constant (any of the eight orderings), asked at
    # once: satisfiable(), all values, extrema; random tail
    for cls, k in {"Solver": ctx.pick(16, 120), "SolverCacheless": ctx.pick(8, 60), "SolverStrings": ctx.pick(8, 60)}.items():
        for i in range(k * mult):
            jobs.append({"cls": cls, "cfg": {"track": i % 5 == 0, "reuse": i % 3 == 0}, "len": ctx.pick(3, 12),
                         "gen": {"shape": "single-bound", "weights": WEIGHTS}})
    return jobs


def lifetime_jobs(ctx, mult=1):
    """solver lifetimes (oracle only): two or three UNRELATED solvers with constraints of their own on one variable; round after
    round a branch of one is made, asked at once and dropped (garbage), then a branch of another one is made and asked at once -
    mostly with the one Z3 solver per thread shared by all frontends (reuse_z3_solver), where `whose constraints does it hold
    now` is the whole question"""
    jobs = []
    for cls in CLASSES:
        for i in range(ctx.pick(8, 60) * mult):
            jobs.append({"cls": cls, "cfg": {"track": i % 7 == 3, "reuse": i % 4 != 3}, "len": ctx.pick(0, 8),
                         "gen": {"shape": "lifetimes", "max_solvers": 40}})
    return jobs


def exhaustive_jobs(ctx):
    from lib import solverlib as L
    jobs = []
    for h in L.all_short_histories(3 if ctx.thorough() else 2):
        jobs.append({"cls": "Solver", "cfg": {"track": False, "reuse": False}, "hist": h})
    return jobs


def single_bound_jobs(ctx):
    """every ordering x EVERY constant as the only constraint (x: 4 bits, y: 3 bits; the boundary constants also written the other
    way round), then satisfiable() / all values / extrema at once - on every class"""
    from lib import solverlib as L
    jobs = []
    for i, (edge, h) in enumerate(L.single_bound_histories()):
        for j, cls in enumerate(CLASSES):
            # quick: the constants 0 / INT_MAX / INT_MIN / all-ones on every class, the others on one class in turn
            if edge or ctx.thorough() or (i + j) % 3 == 0:
                jobs.append({"cls": cls, "cfg": {"track": (i + j) % 7 == 0, "reuse": (i + j) % 3 == 0}, "hist": h})
    return jobs


def run(ctx):
    ctx._chunk_base = 0
    ctx.cov["trusted_base"] += [
        "OracleExact (named hypothesis of the theorems): a Z3 `sat` answer comes with a model satisfying assertions and "
        "assumptions, and every assignment agreeing with it on the constants it mentions does too; `unsat` means no "
        "assignment does — validated by brute force on every recorded check of every run (count in l0_exactness_failures)",
        "BuildExact / SimplifyEquiv / CheapSound: claripy AST construction of the derived constraints, claripy.simplify and "
        "claripy.is_false are correct (properties C01/C09/C10) — validated on every recorded use by truth tables",
        "translator harness/translate_solver.py (dumps __mro__ of the classes of claripy/solvers.py)",
        "recorder harness/lib/solverrec.py: run-time wrapping of z3_solver_sat, _generic_model, simplify, is_false, "
        "_get_batch_solutions, FullFrontend.is_true/is_false for observation",
    ]
    ctx.cov["rule"] = ("histories over 4 variables (x:4 bits, y:3, z:3, b:Bool; 2048 assignments), 24 constraints, 9 expressions; streams: "
                       "rule-directed (one per cache arm / repaired defect, x3 configurations x3 classes), random (length up to 30 quick / 200 "
                       "thorough, up to 4 branches; half of the downsize() calls as a burst `everything about e, downsize(), one small question, "
                       "everything about e`), directed openings (range constraints, everything asked, downsize(), one small question, everything "
                       "again; random tail), solver lifetimes (oracle only: unrelated solvers, branches made, asked at once and dropped, "
                       "reuse_z3_solver mostly on), bounded-exhaustive (all histories of length <=2 quick / <=3 thorough over a 28-call menu); single bounds (the first and only "
                       "constraint is `v OP c`, every ordering x every constant, then satisfiable() / values / extrema at once: exhaustive on "
                       "every class, and as a directed opening with boundary constants and a random tail); "
                       "non-trivial = history with >= 3 calls; distinct = digest of (class, config, history)")
    # 1. translate
    tie_ok = True
    try:
        write_if_changed(os.path.join(LEAN, "Claripy", "Gen", "SolverMro.lean"), ts.render(ts.translate()))
    except ts.TranslateError as e:
        tie_ok = False
        ctx.tie_broken("translate:solvers.py/__mro__", str(e))
    # 2. prove
    if tie_ok:
        ctx.prove("ClaripyProofs.Props.C11", THEOREMS, tests=TESTS, driver_exe="driver_solver")
    else:
        ctx.cov["obligations"] += len(THEOREMS)
        ctx.lake_build(["driver_solver"])
    # 3 + 4. correspondence and oracle
    workers = ctx.pick(4, 6)
    all_fails, mism = [], []
    for stream, jobs in (("rule-directed", rule_jobs()), ("random", random_jobs(ctx)), ("directed-openings", directed_jobs(ctx)),
                         ("bounded-exhaustive", exhaustive_jobs(ctx)), ("single-bound-exhaustive", single_bound_jobs(ctx))):
        m = SC.run_jobs(ctx, jobs, workers, corr=True, chunk_size=ctx.pick(12, 20) if "exhaustive" not in stream else 200)
        SC.merge_cov(ctx, m, stream)
        all_fails += m["fails"]
        mism += m["mismatch"]
        if m["driver_error"]:
            ctx.tie_broken("driver", m["driver_error"])
    for mm in mism[:3]:
        ctx.tie_broken("corr:%s.%s" % (mm["cls"], mm["op"].get("op", "?")),
                       "%s differs after %s on %s %s; model=%s real=%s" % (
                           "/".join(mm["differs"]), mm["op"], mm["cls"], mm["cfg"], mm["model"][:400], mm["real"][:400]))
    if mism:
        ctx.cov["first_disagreeing_history"] = mism[0]["hist"]
    m = SC.run_jobs(ctx, lifetime_jobs(ctx), workers, corr=False, chunk_size=ctx.pick(6, 20))
    SC.merge_cov(ctx, m, "solver-lifetimes(oracle only)")
    all_fails += m["fails"]
    # 5. broken proof/tie: more failing-input search on the real code (oracle only, no recorder)
    if ctx.broken and not all_fails:
        m = SC.run_jobs(ctx, random_jobs(ctx, mult=3), workers, corr=False, chunk_size=30)
        SC.merge_cov(ctx, m, "failing-input-search")
        all_fails += m["fails"]
    SC.report_failures(ctx, "C11", all_fails)
    # floating-point values: feasible, pairwise distinct AS VALUES (+0 / -0 are two, NaN is one), complete
    from lib import solver_fpenum
    solver_fpenum.run(ctx, "C11", ["Solver", "SolverCacheless"])
    ctx.assumptions += ["Z3 answers exactly when it answers (OracleExact)", "no give-up in this property (C17 covers them)",
                        "hash-consing identifies equal ASTs only (C06)"]


def replay(ctx, obj):
    if obj["replay"].get("kind") == "fpenum":
        from lib import solver_fpenum
        return solver_fpenum.replay("C11", obj["replay"])
    return SC.replay_history("C11", obj)
