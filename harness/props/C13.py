"""C13 — SolverReplacement (default settings) and SolverHybrid (exact mode) are exact; approximate modes
over-approximate.  Exact halves: brute-force oracle as for C11.  Approximate half: (a) the hybrid plumbing is run
with an approximate side that is sound by construction (a second exact Solver) — any exclusion there is the
frontend's fault; (b) the real approximate side (SolverReplacement over SolverVSA, and SolverVSA alone) is run on a
range-constraint alphabet and judged for over-approximation; what the VSA backend itself gets wrong is the subject
of C21/C22/C24/C25 and is reported here under one classified signature."""
import os

from lib.common import LEAN, write_if_changed
from lib import solvercheck as SC, solverlib as L
import translate_solver as ts

THEOREMS = ["Claripy.Props.C13.C13_replaced_query_exact", "Claripy.Props.C13.C13_replaced_optimum_exact",
            "Claripy.Props.C13.C13_actual_equiv", "Claripy.Props.C13.C13_dropping_definition_unsound", "Claripy.Props.C13.C13_over_approx"]
A = lambda c, s=0: {"s": s, "op": "add", "cs": [c]}  # noqa: E731
E = lambda e, n, s=0: {"s": s, "op": "eval", "e": e, "n": n, "extra": []}  # noqa: E731
RULES = {
    "definition-after-use": [A("ZeroExt(1, y) == x + 1"), A("x == 5"), E("y", 20), E("x", 20), {"s": 0, "op": "satisfiable", "extra": []}],
    "contradicting-definition": [A("x != 5"), A("x == 5"), {"s": 0, "op": "satisfiable", "extra": []}],
    "two-definitions": [A("x == 5"), A("x == 7"), {"s": 0, "op": "satisfiable", "extra": []}],
    "not-b": [A("Or(b, x == 7)"), A("Not(b)"), E("x", 20), E("b", 2), A("b"), {"s": 0, "op": "satisfiable", "extra": []}],
    "replaced-query": [A("x == 5"), {"s": 0, "op": "max", "e": "x + ZeroExt(1, y)", "signed": False, "extra": []}, A("y == 6"),
                       {"s": 0, "op": "min", "e": "x + ZeroExt(1, y)", "signed": False, "extra": []},
                       {"s": 0, "op": "solution", "e": "x - 1", "v": 4, "extra": []}, {"s": 0, "op": "batch_eval", "es": ["x", "y"], "n": 5, "extra": ["SLT(y, 0)"]}],
    "compound-definition-after-query": [A("y == 6"), E("x + ZeroExt(1, y)", 3), A("x + ZeroExt(1, y) == 9"), E("x", 20),
                                        {"s": 0, "op": "max", "e": "x", "signed": False, "extra": []}, {"s": 0, "op": "solution", "e": "x", "v": 4, "extra": []}],
    # the child of a branch learns a narrower bound; the parent rebuilds what it remembers and is asked (exactly and approximately)
    "child-bound-then-parent-rebuilds": [A("ULE(x, 11)"), A("UGE(x, 3)"), {"s": 0, "op": "branch"}, A("ULT(x, 5)", 1), E("x", 20, 1), {"s": 0, "op": "downsize"},
                                         E("x", 20, 0), {"s": 0, "op": "eval", "e": "x", "n": 64, "extra": [], "approx": True},
                                         {"s": 0, "op": "max", "e": "x", "signed": False, "extra": [], "approx": True},
                                         {"s": 0, "op": "solution", "e": "x", "v": 9, "extra": [], "approx": True}, {"s": 0, "op": "pickle"},
                                         {"s": 0, "op": "satisfiable", "extra": ["x == 9"], "approx": True}, {"s": 0, "op": "branch"},
                                         {"s": 2, "op": "min", "e": "x + 1", "signed": False, "extra": [], "approx": True}],
    "branch-replacements": [A("x == 5"), {"s": 0, "op": "branch"}, A("ZeroExt(1, y) == x + 1", 1), E("y", 20, 1), E("y", 3, 0), A("y == 2", 0), E("x", 2, 0)],
    # witness of the open finding C13-replaced-constant-on-unsat (replayed on every run)
    "constant-on-unsat-solution": [A("x != 5"), A("x == 5"), {"s": 0, "op": "solution", "e": "x", "v": 5, "extra": []}],
    "constant-on-unsat-min": [A("x != 5"), A("x == 5"), {"s": 0, "op": "min", "e": "x", "signed": False, "extra": []}],
    "constant-on-unsat-max": [A("x != 5"), A("x == 5"), {"s": 0, "op": "max", "e": "x", "signed": False, "extra": []}],
    "constant-on-unsat-batch_eval": [A("x != 5"), A("x == 5"), {"s": 0, "op": "batch_eval", "es": ["x", "x"], "n": 2, "extra": []}],
    "constant-on-unsat": [A("x != 5"), A("x == 5"), E("x", 20), {"s": 0, "op": "min", "e": "x", "signed": False, "extra": []},
                          {"s": 0, "op": "max", "e": "x", "signed": False, "extra": []}, {"s": 0, "op": "batch_eval", "es": ["x", "x"], "n": 2, "extra": []}],
}
FA = lambda c, s=0: {"s": s, "op": "add", "cs": [c]}  # noqa: E731
FE = lambda e, n=4, s=0: {"s": s, "op": "eval", "e": e, "n": n, "extra": []}  # noqa: E731
FSOL = lambda e, v, s=0: {"s": s, "op": "solution", "e": e, "v": v, "extra": []}  # noqa: E731
FOPT = lambda op, e, s=0: {"s": s, "op": op, "e": e, "signed": False, "extra": []}  # noqa: E731
FBITS = "fpToIEEEBV(f)"
# floating point: an equality pins a variable only up to IEEE equality (+0.0 == -0.0; NaN equals nothing); the queries tell the
# values apart by their bit patterns
FLOAT_RULES = {
    "eq-plus-zero": [FA("fpEQ(f, FPV(0.0))"), FE(FBITS), FSOL(FBITS, 1 << 63), {"s": 0, "op": "satisfiable", "extra": ["fpToIEEEBV(f) == 0x8000000000000000"]},
                     FOPT("max", FBITS), FOPT("min", FBITS), FE("Bits(fpToIEEEBV(f), 63, 63)")],
    "eq-minus-zero": [FA("f == FPV(-0.0)"), FSOL(FBITS, 0), FE(FBITS), FOPT("min", FBITS), {"s": 0, "op": "is_true", "e": "Bits(fpToIEEEBV(f), 63, 63) == 1", "extra": []}],
    "eq-constant-left": [FA("fpEQ(FPV(-0.0), g)"), FE("fpToIEEEBV(g)"), FE("fpToIEEEBV(fpAbs(g))"), FSOL("Bits(fpToIEEEBV(g), 63, 63)", 0)],
    "eq-zero-then-branch": [FA("fpEQ(f, FPV(0.0))"), {"s": 0, "op": "branch"}, FA("fpToIEEEBV(f) != 0", 1), {"s": 1, "op": "satisfiable", "extra": []}, FE(FBITS, 4, 1),
                            FE(FBITS, 4, 0)],
    "eq-other-constants": [FA("fpEQ(f, FPV(2.5))"), FE(FBITS), FA("g == FPV(1.0)"), FE("fpToIEEEBV(g)"), FSOL("fpToIEEEBV(g)", 0x3ff0000000000000)],
    "self-equality-excludes-nan": [FA("fpEQ(f, f)"), {"s": 0, "op": "satisfiable", "extra": ["fpIsNaN(f)"]}, FSOL("If(fpIsNaN(f), BVV(1, 1), BVV(0, 1))", 1),
                                   FA("fpEQ(f, g)"), FSOL("If(fpEQ(f, g), fpToIEEEBV(f), fpToIEEEBV(g))", 1 << 63)],
    "two-variables-equal": [FA("fpEQ(f, g)"), FA("fpToIEEEBV(f) == 0"), FE("fpToIEEEBV(g)"), FSOL("fpToIEEEBV(g)", 1 << 63), FOPT("max", "fpToIEEEBV(g)")],
}
# witness of the same finding on SolverReplacement(auto_replace=False), where a replacement can only come from add_replacement()
NOAUTO_WITNESS = [[{"s": 0, "op": "add", "cs": ["(x) == 5"], "repl": ["x", 5]}, A("x == 7"), q] for q in (
    E("x & 3", 20), {"s": 0, "op": "min", "e": "x", "signed": False, "extra": []}, {"s": 0, "op": "max", "e": "x + 1", "signed": False, "extra": []},
    {"s": 0, "op": "batch_eval", "es": ["x", "x"], "n": 2, "extra": []}, {"s": 0, "op": "solution", "e": "x", "v": 5, "extra": []})]
SIMPLE_C = ["ULE(x, 11)", "UGE(x, 3)", "x == 5", "x != 5", "ULT(y, 6)", "UGE(y, 2)", "y == 6", "ULE(z, 4)", "UGT(z, 1)", "ULT(x, 3)", "UGE(x, 8)"]
SIMPLE_E = ["x", "y", "z", "x + 1", "y + 2"]
STRUCT_W = {"add": 30, "satisfiable": 14, "eval": 10, "batch_eval": 2, "min": 5, "max": 5, "solution": 4, "branch": 6, "split": 7, "combine": 5,
            "merge": 7, "blank_copy": 5}


def approximate(hist, rng, frac=0.8):
    out = []
    for d in hist:
        d = dict(d)
        if d["op"] in ("satisfiable", "eval", "batch_eval", "min", "max", "solution") and rng.random() < frac:
            d["approx"] = True
            if "n" in d:
                d["n"] = 64
        out.append(d)
    return out


def jobs_exact(ctx, mult=1):
    jobs = []
    for cls in ("SolverReplacement", "SolverReplacement:noauto", "SolverHybrid"):
        for name, h in RULES.items():
            if name.startswith("constant-on-unsat") and cls != "SolverReplacement":
                continue
            jobs.append({"cls": cls, "cfg": {"track": False, "reuse": False}, "hist": h})
        if cls == "SolverReplacement:noauto":
            jobs += [{"cls": cls, "cfg": {"track": False, "reuse": False}, "hist": [dict(d) for d in h]} for h in NOAUTO_WITNESS]
        n = ctx.pick(44, 320) * mult
        lens = ctx.pick([10, 20, 30], [30, 60, 120])
        for i in range(n):
            # every other history: a third of the solution() calls ask about a symbolic value (both sides go through the replacements),
            # a fifth of the adds contradict syntactically what is held, often inside a multi-constraint add()
            jobs.append({"cls": cls, "cfg": {"track": False, "reuse": i % 3 == 0}, "len": lens[i % len(lens)],
                         "gen": {"symv": 0.35, "contra": 0.2} if i % 2 else {}})
        # trees: one side of a branch learns more about a variable (constraints; SolverReplacement also user-level replacements of
        # a variable nothing mentions: read as `v == c`; with invalidate_cache=False that solver is no longer judged), the other
        # sides rebuild what they remember (downsize / pickle / simplify / unrelated add) and are asked everything about it
        rp = {"repl": 0.5} if cls.startswith("SolverReplacement") else {}
        for i in range(ctx.pick(16, 120) * mult):
            jobs.append({"cls": cls, "cfg": {"track": False, "reuse": i % 3 == 0}, "len": ctx.pick(4, 16),
                         "gen": {"shape": "branch-rebuild", "prefix_args": rp, "symv": 0.35}})
    return jobs


APPROX_W = {"add": 30, "satisfiable": 8, "eval": 16, "batch_eval": 4, "min": 10, "max": 10, "solution": 8, "branch": 5, "downsize": 4, "pickle": 2}


def jobs_float(ctx, mult=1):
    jobs = []
    for cls in ("SolverReplacement", "SolverReplacement:noauto", "SolverHybrid"):
        for name, h in FLOAT_RULES.items():
            jobs.append({"cls": cls, "cfg": {"track": False, "reuse": False}, "float": True, "hist": [dict(d) for d in h]})
        for i in range(ctx.pick(24, 200) * mult):
            jobs.append({"cls": cls, "cfg": {"track": False, "reuse": i % 3 == 0}, "float": True, "len": ctx.pick([5, 8], [8, 14])[i % 2]})
    return jobs


def run(ctx):
    ctx._chunk_base = 0
    ctx.cov["trusted_base"] += [
        "exact halves: the C11 hypotheses for the actual / exact frontend (a claripy.Solver)",
        "approximate half: soundness of the VSA backend and of constraint_to_si is the subject of C21/C22/C24/C25; here only the frontends' use of them",
    ]
    ctx.cov["rule"] = ("exact: SolverReplacement (default), SolverReplacement(auto_replace=False), SolverHybrid — rule-directed (definition after use, contradicting / "
                       "double definition, Not(b), replaced queries, branch) and random histories of length <= 30 quick / 120 thorough; approximate: "
                       "SolverHybrid with a sound stub as approximate side, SolverHybrid(exact=False) and SolverVSA over a range-constraint alphabet, "
                       "n = 64 >= 2^bits so that a short answer claims completeness; the same three with split / merge / combine / blank_copy in the history "
                       "(half of them opening with a syntactic contradiction next to independent constraints, one question, then the structural "
                       "call; the solvers handed out are asked); histories with add_replacement(variable, constant) on SolverReplacement "
                       "run twice side by side, with and without their downsize() calls, answers compared; exact and approximate: trees in which ONE "
                       "side of a branch learns more about a variable (constraints, user-level replacements - with invalidate_cache=False that solver "
                       "is not judged) and the OTHER sides rebuild what they remember (downsize, pickle, simplify, unrelated add) and are asked; "
                       "floating point (exact classes): histories over two double variables - IEEE equalities with +-0.0, orderings, NaN / inf "
                       "classes, pins of the bit pattern; queries about bit patterns -, judged by brute force over candidate values with Python "
                       "floats (lower bounds) and against a plain Solver run side by side; non-trivial = >= 3 calls")
    ctx.prove("ClaripyProofs.Props.C13", THEOREMS, driver_exe="driver_solver")
    workers = ctx.pick(4, 6)
    m = SC.run_jobs(ctx, jobs_exact(ctx), workers, corr=False, chunk_size=ctx.pick(12, 25))
    SC.merge_cov(ctx, m, "exact")
    fails = list(m["fails"])
    # approximate plumbing with a sound approximate side
    n = ctx.pick(50, 400)
    jobs = [{"cls": "SolverHybrid:stub", "cfg": {"track": False, "reuse": False}, "hist": approximate(L.gen_history(ctx.rng, ctx.pick(20, 40)), ctx.rng)}
            for _ in range(n)]
    m2 = SC.run_jobs(ctx, jobs, workers, corr=False, chunk_size=ctx.pick(12, 25))
    SC.merge_cov(ctx, m2, "approximate-plumbing(sound stub)")
    fails += m2["fails"]
    # the real approximate side
    jobs = []
    for cls in ("SolverHybrid", "SolverVSA"):
        for _ in range(ctx.pick(40, 300)):
            h = L.gen_history(ctx.rng, ctx.pick(12, 30), calpha=SIMPLE_C, ealpha=SIMPLE_E, balpha=SIMPLE_C, weights=APPROX_W)
            jobs.append({"cls": cls, "cfg": {"track": False, "reuse": False}, "hist": approximate(h, ctx.rng, 1.0 if cls == "SolverVSA" else 0.8)})
    # trees of approximate solvers: range constraints on v, branch (nested), ONE side narrows v further, the OTHER sides rebuild what
    # they remember (downsize, pickle round trip, simplify, an unrelated add) and are asked everything about v approximately: the
    # bounds an approximate frontend learnt on one side must not narrow the answers of another
    for cls in ("SolverHybrid", "SolverVSA", "SolverHybrid:stub"):
        for _ in range(ctx.pick(30, 200)):
            pre = L.prefix_branch_rebuild(ctx.rng, calpha=SIMPLE_C, ealpha=SIMPLE_E)
            h = L.gen_history(ctx.rng, ctx.pick(4, 12), calpha=SIMPLE_C, ealpha=SIMPLE_E, balpha=SIMPLE_C, weights=APPROX_W, prefix=pre)
            jobs.append({"cls": cls, "cfg": {"track": False, "reuse": False}, "hist": approximate(h, ctx.rng, 1.0 if cls == "SolverVSA" else 0.85)})
    m3 = SC.run_jobs(ctx, jobs, workers, corr=False, chunk_size=ctx.pick(12, 25))
    SC.merge_cov(ctx, m3, "approximate(real VSA side)")
    # approximate answers of solvers that split / merge (no common ancestor) / combine / blank_copy HAND OUT, in particular
    # after their operand was found unsatisfiable (a syntactic contradiction next to independent constraints, asked once):
    # whatever an approximate frontend remembers about its own constraints must not travel to a solver holding others
    jobs = []
    for cls in ("SolverHybrid", "SolverVSA", "SolverHybrid:stub"):
        for i in range(ctx.pick(30, 200)):
            pre = L.prefix_unsat_then_structure(ctx.rng, SIMPLE_C, SIMPLE_E) if i % 2 == 0 else None
            h = L.gen_struct_history(ctx.rng, ctx.pick(8, 24), calpha=SIMPLE_C + ["false", "b", "Not(b)"], ealpha=SIMPLE_E, balpha=SIMPLE_C,
                                     weights=STRUCT_W, span=4, prefix=pre, keep_s=0.5, contra=0.3)
            jobs.append({"cls": cls, "cfg": {"track": False, "reuse": False}, "hist": approximate(h, ctx.rng, 1.0 if cls == "SolverVSA" else 0.8)})
    m5 = SC.run_jobs(ctx, jobs, workers, corr=False, chunk_size=ctx.pick(12, 25))
    SC.merge_cov(ctx, m5, "approximate(after split/merge/combine/blank_copy)")
    # what split / combine / merge return is C15's business; here: the answers of the solvers they hand out
    m5_answers = [f for f in m5["fails"] if f["hist"][f["fails"][0][0]]["op"] not in ("split", "combine", "merge")]
    ctx.cov["structure_failures_left_to_C15"] = len(m5["fails"]) - len(m5_answers)
    # Whose answer is a wrong approximate answer of the real approximate side?  run_history asks a FRESH solver of the same class,
    # given the same constraints in one go, the same question: if it answers alike (kind ...:stateless) the VSA backend says so
    # about these constraints - one classified signature per call kind, C21/C22/C24/C25 own it; if not, the frontend's history
    # made the difference and the failure is reported like any other
    vsa_fails = []
    for f in m3["fails"] + m5_answers:
        k, kind, why = f["fails"][0]
        if f["cls"] != "SolverHybrid:stub" and kind.endswith(":stateless"):
            f["fails"][0] = [k, kind[:-len(":stateless")] + ":vsa-backend-answer", why]
            vsa_fails.append(f)
        else:
            fails.append(f)
    ctx.cov["vsa_side_exclusions"] = len(vsa_fails)
    # floats: the exact classes on histories over two double variables (candidate brute force with Python floats; a plain Solver
    # run side by side for exactness)
    m6 = SC.run_jobs(ctx, jobs_float(ctx), workers, corr=False, chunk_size=ctx.pick(6, 12))
    SC.merge_cov(ctx, m6, "exact(floating point)")
    float_fails = list(m6["fails"])
    if ctx.broken and not fails and not float_fails:
        m4 = SC.run_jobs(ctx, jobs_exact(ctx, mult=3) + jobs_float(ctx, mult=2), workers, corr=False, chunk_size=30)
        SC.merge_cov(ctx, m4, "failing-input-search")
        fails += [f for f in m4["fails"] if not f.get("float")]
        float_fails += [f for f in m4["fails"] if f.get("float")]
    seen_f, pick_f = set(), []
    for f in float_fails:
        kd = (f["cls"], f["hist"][f["fails"][0][0]]["op"], f["fails"][0][1])
        if kd not in seen_f:
            seen_f.add(kd)
            pick_f.append(f)
    SC.report_float_failures(ctx, "C13", pick_f)
    # user-level replacements (add_replacement of a variable no constraint mentions): no brute-force reading, but
    # downsize() must not change any answer — two runs side by side, with and without the downsize calls
    uni = L.Universe()
    tw_ran = 0
    for cls in ("SolverReplacement", "SolverReplacement:noauto", "SolverHybrid"):
        found, ran = L.twin_search(uni, ctx.rng, cls, "no-downsize", ctx.pick(12, 200), ctx.pick(14, 30), approx=0.5 if cls == "SolverHybrid" else 0.0)
        tw_ran += ran
        ctx.count(ran)
        for f in found[:2]:
            k, kind, why = f["fails"][0]
            ctx.violation("C13/%s/%s/%s" % (cls, f["hist"][k]["op"], kind), "%s %s: %s" % (cls, f["hist"][k], why),
                          {"cls": cls, "cfg": f["cfg"], "history": f["hist"], "twin": "no-downsize", "cut": 0})
    ctx.cov.setdefault("input_distribution", {})["downsize-neutral(user replacements)"] = {"calls": tw_ran}
    seen, pick = set(), []
    for f in fails:
        kd = (f["cls"], f["hist"][f["fails"][0][0]]["op"], f["fails"][0][1])
        if kd not in seen:
            seen.add(kd)
            pick.append(f)
    SC.report_failures(ctx, "C13", pick, max_report=14)
    seen = set()
    for f in vsa_fails:
        k, kind, why = f["fails"][0]
        op = f["hist"][k]["op"]
        sig = "C13/%s/%s/%s" % (f["cls"], op, kind)
        if sig in seen:
            continue
        seen.add(sig)
        ctx.violation(sig, "%s %s: %s" % (f["cls"], f["hist"][k], why), {"cls": f["cls"], "cfg": f["cfg"], "history": f["hist"][:k + 1]})
    # floating-point values through the exact half of the hybrid and the replacement solver: feasible, distinct AS VALUES, complete
    from lib import solver_fpenum
    solver_fpenum.run(ctx, "C13", ["SolverHybrid", "SolverReplacement"])


def replay(ctx, obj):
    if obj["replay"].get("kind") == "fpenum":
        from lib import solver_fpenum
        return solver_fpenum.replay("C13", obj["replay"])
    return SC.replay_history("C13", obj)
