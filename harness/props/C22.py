"""C22 — joins, meets, widening and queries of strided intervals agree with their members.
prove (Lean) -> correspondence (model vs real code) -> oracle on the real code."""
import itertools, logging

from lib import vsa
from lib import vsa_check as vc

PROP = "C22"


def gen_cases(ctx):
    rng = ctx.rng
    cases = []
    pair_ops = ["union", "lub", "widen", "intersection"]
    wx = ctx.pick(2, 3)

    def queries(a, stream, exhaustive):
        w = a[0]
        n = vsa.card(a)
        cases.append(("cardinality", [a], stream))
        for k in sorted({0, 1, 2, n, n + 1} if n < 300 else {0, 1, 2, 7}):
            for sg in (0, 1):
                cases.append(("eval", [a, k, sg], stream))
        for sg in (0, 1):
            cases.append(("max", [a, sg], stream))
            cases.append(("min", [a, sg], stream))
        if exhaustive:
            vals = range(1 << w)
        else:
            g = vsa.sample_members(a, rng, 6)
            vals = set(g) | {(x + 1) & vsa.M(w) for x in g} | {(x - 1) & vsa.M(w) for x in g} | {rng.randrange(1 << w) for _ in range(4)}
        for v in vals:
            cases.append(("solution", [a, v], stream))

    for w in range(1, ctx.pick(3, 4) + 1):
        for a in vsa.all_sis(w):
            queries(a, "exh", True)
    for w in range(1, wx + 1):
        sis = vsa.all_sis(w)
        bot = "bottom:%d" % w
        for a in sis:
            for b in sis:
                for op in pair_ops:
                    cases.append((op, [a, b], "exh"))
            for op in pair_ops:
                cases.append((op, [a, bot], "exh"))
                cases.append((op, [bot, a], "exh"))
    # triples for least_upper_bound: exhaustive at width <= 2, sampled above
    for w in range(1, 3):
        for t in itertools.product(vsa.all_sis(w), repeat=3):
            if w < 2 or ctx.thorough() or rng.random() < 0.08:
                cases.append(("lub3", list(t), "exh"))
    for w in (3, 4):
        pool = vsa.all_sis(w)
        for _ in range(ctx.pick(5000, 40000)):
            cases.append(("lub3", [rng.choice(pool) for _ in range(3)], "small"))
        for _ in range(ctx.pick(5000, 40000)):
            a, b = rng.choice(pool), rng.choice(pool)
            for op in pair_ops:
                cases.append((op, [a, b], "small"))
    for _ in range(ctx.pick(1500, 8000)):
        w = rng.choice(vsa.WIDE_WIDTHS)
        a, b, c = vsa.rand_si(rng, w), vsa.rand_si(rng, w), vsa.rand_si(rng, w)
        if rng.random() < 0.4:      # overlapping operands exercise the meet
            g = vsa.sample_members(a, rng, 5)
            s2 = rng.choice([a[1] or 1, (a[1] or 1) * rng.choice([1, 2, 3]), rng.choice([1, 2, 3, 6])])
            lb = rng.choice(g)
            n = rng.randrange(1, 9)
            b = vsa.norm(w, s2, lb - rng.randrange(0, 3) * s2, lb + n * s2)
        queries(a, "wide", False)
        for op in pair_ops:
            cases.append((op, [a, b], "wide"))
        cases.append(("lub3", [a, b, c], "wide"))
    return cases


def extra_oracle(op, args, r):
    return vsa.query_oracle(op, args, r)


def run(ctx):
    logging.disable(logging.CRITICAL)
    vc.run_family(ctx, PROP, gen_cases(ctx), vc.THEOREMS_C22, vc.TESTS_C22, extra_oracle=extra_oracle)


def replay(ctx, obj):
    logging.disable(logging.CRITICAL)
    return vc.replay_case(ctx, PROP, obj, extra_oracle=extra_oracle)
