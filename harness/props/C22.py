"""C22 — joins, meets, widening and queries of strided intervals agree with their members.
prove (Lean) -> correspondence (model vs real code) -> oracle on the real code."""
import itertools, logging

from lib import vsa
from lib import vsa_check as vc

PROP = "C22"


def gen_cases(ctx):
    rng = ctx.rng
    cases = []
    pair_ops = ["union", "lub", "widen", "intersection"]
    wx = ctx.pick(2, 3)

    def queries(a, stream, exhaustive):
        w = a[0]
        n = vsa.card(a)
        cases.append(("cardinality", [a], stream))
        for k in sorted({0, 1, 2, n, n + 1} if n < 300 else {0, 1, 2, 7}):
            for sg in (0, 1):
                cases.append(("eval", [a, k, sg], stream))
        for sg in (0, 1):
            cases.append(("max", [a, sg], stream))
            cases.append(("min", [a, sg], stream))
        if exhaustive:
            vals = range(1 << w)
        else:
            g = vsa.sample_members(a, rng, 6)
            vals = set(g) | {(x + 1) & vsa.M(w) for x in g} | {(x - 1) & vsa.M(w) for x in g} | {rng.randrange(1 << w) for _ in range(4)}
        for v in vals:
            cases.append(("solution", [a, v], stream))

    for w in range(1, ctx.pick(3, 4) + 1):
        for a in vsa.all_sis(w):
            queries(a, "exh", True)
    for w in range(1, wx + 1):
        sis = vsa.all_sis(w)
        bot = "bottom:%d" % w
        for a in sis:
            for b in sis:
                for op in pair_ops:
                    cases.append((op, [a, b], "exh"))
            for op in pair_ops:
                cases.append((op, [a, bot], "exh"))
                cases.append((op, [bot, a], "exh"))
    # triples for least_upper_bound: exhaustive at width <= 2, sampled above
    for w in range(1, 3):
        for t in itertools.product(vsa.all_sis(w), repeat=3):
            if w < 2 or ctx.thorough() or rng.random() < 0.08:
                cases.append(("lub3", list(t), "exh"))
    for w in (3, 4):
        pool = vsa.all_sis(w)
        for _ in range(ctx.pick(5000, 40000)):
            cases.append(("lub3", [rng.choice(pool) for _ in range(3)], "small"))
        for _ in range(ctx.pick(5000, 40000)):
            a, b = rng.choice(pool), rng.choice(pool)
            for op in pair_ops:
                cases.append((op, [a, b], "small"))
    for _ in range(ctx.pick(1500, 8000)):
        w = rng.choice(vsa.WIDE_WIDTHS)
        a, b, c = vsa.rand_si(rng, w), vsa.rand_si(rng, w), vsa.rand_si(rng, w)
        if rng.random() < 0.4:      # overlapping operands exercise the meet
            g = vsa.sample_members(a, rng, 5)
            s2 = rng.choice([a[1] or 1, (a[1] or 1) * rng.choice([1, 2, 3]), rng.choice([1, 2, 3, 6])])
            lb = rng.choice(g)
            n = rng.randrange(1, 9)
            b = vsa.norm(w, s2, lb - rng.randrange(0, 3) * s2, lb + n * s2)
        queries(a, "wide", False)
        for op in pair_ops:
            cases.append((op, [a, b], "wide"))
        cases.append(("lub3", [a, b, c], "wide"))
    return cases


def extra_oracle(op, args, r):
    return vsa.query_oracle(op, args, r)


def run(ctx):
    logging.disable(logging.CRITICAL)
    vc.run_family(ctx, PROP, gen_cases(ctx), vc.THEOREMS_C22, vc.TESTS_C22, extra_oracle=extra_oracle)
    run_sequences(ctx)


def replay(ctx, obj):
    logging.disable(logging.CRITICAL)
    if obj["replay"].get("seq_case"):
        return replay_seq(ctx, obj)
    return vc.replay_case(ctx, PROP, obj, extra_oracle=extra_oracle)


# ============================================================================================== sequences over a heap of objects
# Every case above is ONE operation or query on FRESHLY built, auto-named intervals.  Two dimensions are invisible there:
#  * state: an interval OBJECT may carry more than its fields (memoised bounds, a last answer, a clone of another object's
#    dictionary); it shows only when an object that has already answered queries is derived from / copied / joined and the
#    new object (and the old one) is queried again;
#  * names / identity: operands that carry the same explicit name but are different sets, operands that are the same object.
# A *program* runs on a heap of objects.  Objects 0..nb-1 are the bases (tuple, name | None, route), every `d` / `j`
# instruction appends its result:
#   ("q", i, query)       query = ("cardinality",) | ("eval", n, signed) | ("max", signed) | ("min", signed) | ("solution", v)
#                                  | ("members",)     n = int | ("card", delta);  v = int | ("mem", j, delta)
#   ("d", i, step)        step = ("zext", k) ("sext", k) ("agn", k) ("extract", hi, lo) ("copy",) ("nameless_copy",) ("lub1",)
#                                  ("neg",) ("not",)
#   ("j", op, i, j[, k])  op = union | lub | widen | intersection | lub3
# Oracle, instruction by instruction, exactly the one of the plain streams: the interval an object IS is the tuple read from
# its fields when it was created (`desc`); a query must be exact for the member set of desc (vsa.query_oracle), a join / meet /
# widening must contain the members (common members) of the descs of its operands (vsa.oracle), a derivation the image of the
# members; no instruction may change the fields of an operand.  Nothing is exempted.  A failure is re-run on fresh nameless
# intervals built from the descs (= the plain stream's case: its signature, so the listed findings are recognised), then on
# fresh intervals carrying the same names / identity: this only chooses the signature (`name-dependent:…` / `state-dependent:…`).
import collections, random as _random

from lib.vsa import M

SEQ_JOINS = ("union", "lub", "widen", "intersection")
STEP_OP = {"zext": "zext", "sext": "sext", "extract": "extract", "neg": "neg", "not": "not"}


def mk_base(t, name, route):
    if route == "ast" and name is not None:      # the same object through the AST layer: an explicitly named SI converted by the VSA backend
        import claripy
        return claripy.backends.vsa.convert(claripy.SI(name=name, explicit_name=True, bits=t[0], stride=t[1], lower_bound=t[2], upper_bound=t[3]))
    return vsa.mk(t, name=name)


def step_width(w, s):
    if s[0] in ("zext", "sext", "agn"):
        return w + s[1]
    if s[0] == "extract":
        return s[1] - s[2] + 1
    return w


def step_real(o, s):
    k = s[0]
    if k == "zext":
        return o.zero_extend(o.bits + s[1])
    if k == "sext":
        return o.sign_extend(o.bits + s[1])
    if k == "agn":
        return o.agnostic_extend(o.bits + s[1])
    if k == "extract":
        return o.extract(s[1], s[2])
    if k == "copy":
        return o.copy()
    if k == "nameless_copy":
        return o.nameless_copy()
    if k == "lub1":
        return vsa.SI().least_upper_bound(o)
    if k == "neg":
        return o.neg()
    if k == "not":
        return o.bitwise_not()
    raise ValueError(k)


def step_case(s, t):
    """the plain-stream case (operation, args) a derivation of an object described by t amounts to; None = no image to check"""
    k = s[0]
    if k in ("zext", "sext"):
        return (k, [t, t[0] + s[1]])
    if k == "extract":
        return ("extract", [t, s[1], s[2]])
    if k in ("neg", "not"):
        return (k, [t])
    if k in ("copy", "nameless_copy", "lub1"):
        return ("lub", [t])          # contains every member of the operand
    return None


def step_show(s, inner):
    k = s[0]
    if k in ("zext", "sext", "agn"):
        return "%s(%d, %s)" % (k, s[1], inner)
    if k == "extract":
        return "%s[%d:%d]" % (inner, s[1], s[2])
    return "%s(%s)" % (k, inner)


def resolve(q, t):
    """the concrete query: symbolic parameters are read off the description of the queried object"""
    if q[0] == "eval" and isinstance(q[1], tuple):
        n = vsa.card(t)
        return ("eval", max(0, (n if n <= 300 else 7) + q[1][1]), q[2])
    if q[0] == "solution" and isinstance(q[1], tuple):
        w, s, lb, ub = t
        return ("solution", (lb + (q[1][1] % vsa.card(t)) * s + q[1][2]) & M(w))
    return q


def query_real(o, q):
    if q[0] == "members":
        try:
            return [v for v in range(1 << o.bits) if o.solution(v)]
        except Exception as e:  # noqa
            return "err:" + type(e).__name__
    return vsa.call(vsa.QUERIES[q[0]], o, *q[1:])


def query_judge(q, t, r):
    if q[0] == "members":
        if isinstance(r, str):
            return (r, r)
        want = sorted(vsa.gamma(t))
        if r != want:
            odd = sorted(set(r) ^ set(want))
            return ("wrong", "solution(%d) disagrees with the member set" % odd[0])
        return None
    return vsa.query_oracle(q[0], [t] + list(q[1:]), r)


def param_show(p):
    if isinstance(p, tuple):
        return ("cardinality%+d" % p[1]) if p[0] == "card" else ("member#%d%+d" % (p[1], p[2]))
    return str(p)


def query_show(q, who):
    if q[0] == "cardinality":
        return "%s.cardinality" % who
    if q[0] == "members":
        return "%s.solution(v) for every v" % who
    if q[0] == "eval":
        return "%s.eval(%s, signed=%s)" % (who, param_show(q[1]), bool(q[2]))
    if q[0] == "solution":
        return "%s.solution(%s)" % (who, param_show(q[1]))
    return "%s.%s(signed=%s)" % (who, q[0], bool(q[1]))


def ins_operands(ins):
    return list(ins[2:]) if ins[0] == "j" else [ins[1]]


def ins_name(ins):
    return ins[1] if ins[0] == "j" else ins[2][0]


def ins_exec(ins, ops):
    """the instruction on the operand objects `ops` -> (result object | None, canonical result)"""
    try:
        if ins[0] == "d":
            o = step_real(ops[0], ins[2])
        else:
            o = vsa.OPS[ins[1]]["real"](*ops)
    except RecursionError:
        return None, "err:RecursionError"
    except Exception as e:  # noqa
        return None, "err:" + type(e).__name__
    return o, vsa.tup(o)


def ins_judge(ins, ts, r, seed):
    """-> None | (kind, detail, plain case).  ts: descriptions of the operands; r: canonical result"""
    if ins[0] == "q":
        q = ins[2]
        bad = query_judge(q, ts[0], r)
        return bad and (bad[0], bad[1], (q[0], [ts[0]] + list(q[1:])))
    if ins[0] == "j":
        case = (ins[1], list(ts))
    else:
        case = step_case(ins[2], ts[0])
        if case is None:        # agnostic_extend: a well-formed interval of the new width
            wn = step_width(ts[0][0], ins[2])
            if isinstance(r, str) and r.startswith("err:"):
                return (r, r, ("agn", [ts[0]]))
            if not isinstance(r, tuple) or not vsa.wf(r) or r[0] != wn:
                return ("malformed", "the result %s is not a well-formed interval of %d bits" % (r, wn), ("agn", [ts[0]]))
            return None
    bad = vsa.oracle(case[0], case[1], r, _random.Random(seed), limit=48)
    return bad and (bad[0], bad[1], case)


def rebuildable(t):
    return isinstance(t, str) or (vsa.wf(t) and vsa.norm(*t) == t)


def seq_signature(ins, idx, objs, desc, how, bad, seed):
    """finding signature of a failing instruction (see the header of this section)"""
    kind, _, case = bad
    ts = [desc[i] for i in idx]
    name = ins_name(ins)
    if not all(rebuildable(t) for t in ts):
        return "C22/%s/%s/operand-not-in-constructor-form:%s" % (name, kind, "+".join(how[i] for i in idx))

    def again(ops):
        if ins[0] == "q":
            r = query_real(ops[0], ins[2])
        else:
            r = ins_exec(ins, ops)[1]
        b = ins_judge(ins, ts, r, seed)
        return b is not None and b[0] == kind

    if again([vsa.mk(t) for t in ts]):                     # the plain stream's case
        if any(isinstance(t, str) for t in ts):
            return "C22/%s/%s/bottom-operand" % (name, kind)
        return vsa.classify(case[0], kind, case[1])
    named = {}
    for i in idx:
        if i not in named:
            named[i] = vsa.mk(desc[i], name=getattr(objs[i], "name", None)) if not isinstance(desc[i], str) else vsa.mk(desc[i])
    if again([named[i] for i in idx]):
        names = [getattr(objs[i], "name", None) for i in idx]
        rel = "same-object" if len(idx) > 1 and len(set(idx)) == 1 else "same-name" if len(idx) > 1 and len(set(names)) == 1 else \
            "some-operands-share-a-name" if len(set(names)) < len(names) else "distinct-names"
        return "C22/%s/%s/name-dependent:%s" % (name, kind, rel)
    return "C22/%s/%s/state-dependent:%s" % (name, kind, "+".join(how[i] for i in idx))


def run_prog(bases, prog, only_last=False):
    """execute a program on the real objects -> (failures, stats); a failure is dict(k, ins, kind, detail, observed, sig, desc)"""
    objs, desc, how, width = [], [], [], []
    fails = []
    stats = collections.Counter()
    for b, (t, name, route) in enumerate(bases):
        try:
            o = mk_base(t, name, route)
            d = vsa.tup(o)
        except Exception as e:  # noqa
            o, d = None, "err:" + type(e).__name__
        if d != t:
            fails.append(dict(k=-1 - b, ins=("base", b), kind="constructor", detail="built from %s, the object is %s" % (vsa.show(t), d), observed=d,
                              sig="C22/constructor/%s/%s" % (route, vsa.opclass(t)), desc=t))
            o = None
        objs.append(o); desc.append(t); how.append("operand")
        width.append(int(t.split(":")[1]) if isinstance(t, str) else t[0])
    for k, ins in enumerate(prog):
        judged = not only_last or k == len(prog) - 1
        idx = ins_operands(ins)
        dead = any(objs[i] is None for i in idx)
        if ins[0] == "q":
            if dead or isinstance(desc[idx[0]], str):
                continue
            q = resolve(ins[2], desc[idx[0]])
            ins = ("q", ins[1], q)
            r = query_real(objs[idx[0]], q)
            o = None
            stats["queries"] += 1
        else:
            width.append(step_width(width[idx[0]], ins[2]) if ins[0] == "d" else width[idx[0]])
            how.append(ins_name(ins))
            if dead or (ins[0] == "d" and isinstance(desc[idx[0]], str)):
                objs.append(None); desc.append(None)
                continue
            o, r = ins_exec(ins, [objs[i] for i in idx])
            stats["derivations" if ins[0] == "d" else "joins"] += 1
        ts = [desc[i] for i in idx]
        bad = ins_judge(ins, ts, r, k) if judged else None
        if bad:
            fails.append(dict(k=k, ins=ins, kind=bad[0], detail=bad[1], observed=r, desc=ts,
                              sig=seq_signature(ins, idx, objs, desc, how, bad, k)))
        if ins[0] != "q":
            keep = isinstance(r, tuple) and vsa.wf(r) or (isinstance(r, str) and r.startswith("bottom"))
            objs.append(o if keep else None); desc.append(r if keep else None)
        if judged:
            for i in sorted(set(idx)):      # an operation / a query returns something new: its operands stay what they are
                now = vsa.tup(objs[i])
                if now != desc[i]:
                    fails.append(dict(k=k, ins=ins, kind="operand-changed", detail="operand %d was %s and is %s afterwards" % (
                        idx.index(i), vsa.show(desc[i]), now), observed=r, desc=ts,
                        sig="C22/%s/operand-changed/%s" % (ins_name(ins), "+".join(how[j] for j in idx))))
    return fails, stats


# ---------------------------------------------------------------------------------------------- generation
def battery(i, w, rng, light=False):
    """the queries put to object i (w bits): cardinality, eval / min / max in both signednesses, membership"""
    qs = [("cardinality",)]
    for sg in (0, 1):
        qs += [("max", sg), ("min", sg), ("eval", rng.choice([1, 2, 3, 7, ("card", 0), ("card", 1), ("card", -1)]), sg)]
    qs += [("solution", ("mem", rng.randrange(64), 0)), ("solution", ("mem", rng.randrange(64), rng.choice([-1, 1]))),
           ("solution", rng.randrange(1 << w))]
    if w <= 6:
        qs.append(("members",))
    if light:
        qs = rng.sample(qs, 3)
    rng.shuffle(qs)
    return [("q", i, q) for q in qs]


def steps_for(w, rng):
    out = [("copy",), ("nameless_copy",), ("lub1",), ("neg",), ("not",)]
    for k in sorted({1, w, rng.choice([2, 3, 8, 16, 32])}):
        out += [("zext", k), ("sext", k), ("agn", k)]
    ex = {(w - 1, 0), (0, 0), (w - 1, w - 1)}
    if w >= 2:
        ex |= {(w - 1, 1), (w - 2, 0)}
        lo = rng.randrange(w); ex.add((rng.randrange(lo, w), lo))
    out += [("extract", hi, lo) for hi, lo in sorted(ex)]
    return out


NAME_MODES = ("distinct", "same-name", "first-and-last")


def named(ts, mode, rng=None):
    """bases for the intervals ts under a name mode: auto-numbered names / one explicit name for all / x and z share a name"""
    route = "ast" if rng is not None and rng.random() < 0.25 else "si"
    if mode == "distinct":
        return [(t, None, "si") for t in ts]
    if mode == "same-name":
        return [(t, None, "si") if isinstance(t, str) else (t, "v", route) for t in ts]
    return [(t, None, "si") if isinstance(t, str) else (t, "v" if j in (0, len(ts) - 1) else "w", route) for j, t in enumerate(ts)]


def prog_fan(x, rng, nsteps=None):
    """query x; every derivation of x, each queried at once; x again"""
    w = x[0]
    prog = battery(0, w, rng)
    steps = steps_for(w, rng)
    if nsteps is not None and len(steps) > nsteps:
        steps = rng.sample(steps, nsteps)
    for n, s in enumerate(steps):
        prog.append(("d", 0, s))
        prog += battery(n + 1, step_width(w, s), rng, light=rng.random() < 0.5)
    return prog + battery(0, w, rng)


def prog_joins(nb, w, rng, light=True, ops=None):
    """bases 0..nb-1 (same width), some of them queried first; every join / meet / widening of: two bases in both orders, a base
    with itself, a base with a copy of itself, a copy with the other base; the results queried, joined back with a base"""
    prog = []
    for b in range(nb):
        if rng.random() < 0.7:
            prog += battery(b, w, rng, light=rng.random() < 0.5)
    n = nb
    prog.append(("d", 0, rng.choice([("copy",), ("nameless_copy",), ("lub1",), ("extract", w - 1, 0)])))
    c0 = n; n += 1
    pairs = [(0, 1), (1, 0), (0, 0), (0, c0), (c0, 1), (1, c0)] if nb > 1 else [(0, 0), (0, c0), (c0, 0)]
    if nb > 2:
        pairs += [(0, 2), (2, 1)]
    results = []
    for op in (ops or SEQ_JOINS):
        for i, j in pairs:
            prog.append(("j", op, i, j))
            prog += battery(n, w, rng, light=light)
            results.append(n); n += 1
    trip = [(0, 1, 0), (0, 0, 1), (1, 0, c0)] if nb == 2 else [(0, 1, 2), (2, 0, 1), (0, 2, 0)] if nb > 2 else [(0, 0, c0)]
    for t in trip:
        prog.append(("j", "lub3") + t)
        prog += battery(n, w, rng, light=light)
        results.append(n); n += 1
    for r in rng.sample(results, min(3, len(results))):     # a result as an operand, with the base it came from
        prog.append(("j", rng.choice(SEQ_JOINS), r, rng.randrange(nb)))
        prog += battery(n, w, rng, light=True)
        n += 1
    for b in range(nb):
        prog += battery(b, w, rng, light=True)
    return prog


def prog_random(nb, w, rng, length):
    """a random walk over the vocabulary; operands of a join are drawn among the objects of equal width"""
    widths = [w] * nb
    prog = []
    for _ in range(length):
        k = rng.random()
        i = rng.randrange(len(widths)) if rng.random() < 0.6 else len(widths) - 1 - rng.randrange(min(3, len(widths)))
        if k < 0.45:
            prog += battery(i, widths[i], rng, light=True)[:rng.randrange(1, 4)]
        elif k < 0.7 and widths[i] <= 64:
            s = rng.choice(steps_for(widths[i], rng))
            prog.append(("d", i, s)); widths.append(step_width(widths[i], s))
        else:
            same = [j for j, x in enumerate(widths) if x == widths[i]]
            if rng.random() < 0.2:
                prog.append(("j", "lub3", i, rng.choice(same), rng.choice(same)))
            else:
                a, b = i, rng.choice(same)
                if rng.random() < 0.5:
                    a, b = b, a
                prog.append(("j", rng.choice(SEQ_JOINS), a, b))
            widths.append(widths[i])
    return prog + battery(len(widths) - 1, widths[-1], rng, light=True)


def few_members(rng, w):
    """an interval with few members around a pole (every member's image is checked, queries after extension cross the pole)"""
    s = rng.choice([1, 2, 3, 4, 16]); n = rng.randrange(1, 9)
    lb = (rng.choice([0, 1 << (w - 1), 1 << (w - 1), M(w)]) - rng.randrange(0, n + 1) * s) & M(w)
    return vsa.norm(w, s, lb, lb + n * s)


def gen_programs(ctx):
    """-> list of (bases, prog, stream)"""
    rng = ctx.rng
    out = []
    # (1) one object: query, derive, query
    for w in (1, 2):
        for x in vsa.all_sis(w):
            out.append(([(x, None, "si")], prog_fan(x, rng), "seq-exh"))
    for w, n in ((3, ctx.pick(30, 300)), (4, ctx.pick(30, 300))):
        pool = vsa.all_sis(w)
        for _ in range(n):
            x = rng.choice(pool)
            out.append(([(x, rng.choice([None, "v"]), "si")], prog_fan(x, rng, nsteps=ctx.pick(8, 99)), "seq-small"))
    for _ in range(ctx.pick(120, 1200)):
        w = rng.choice(vsa.WIDE_WIDTHS)
        x = few_members(rng, w) if rng.random() < 0.5 else vsa.rand_si(rng, w)
        name = rng.choice([None, "v"])
        out.append(([(x, name, rng.choice(["si", "ast"]) if name else "si")], prog_fan(x, rng, nsteps=ctx.pick(6, 99)), "seq-wide"))
    # (2) two / three objects under every name mode: joins, meets, widening
    for w in (1, 2):
        sis = vsa.all_sis(w)
        for a in sis:
            for b in sis + ["bottom:%d" % w]:
                if w == 2 and not ctx.thorough() and rng.random() < 0.5:
                    continue
                for mode in NAME_MODES[:2]:
                    out.append((named([a, b], mode), prog_joins(2, w, rng), "join-exh"))
    for w, n in ((2, ctx.pick(60, 600)), (3, ctx.pick(250, 3000)), (4, ctx.pick(250, 3000))):
        pool = vsa.all_sis(w)
        for _ in range(n):
            nb = rng.choice([2, 2, 3]) if w > 2 else 3
            ts = [rng.choice(pool) for _ in range(nb)]
            out.append((named(ts, rng.choice(NAME_MODES), rng), prog_joins(nb, w, rng), "join-small"))
    for _ in range(ctx.pick(250, 2500)):
        w = rng.choice(vsa.WIDE_WIDTHS)
        nb = rng.choice([1, 2, 2, 3])
        ts = [vsa.rand_si(rng, w) if rng.random() < 0.6 else few_members(rng, w) for _ in range(nb)]
        if nb > 1 and rng.random() < 0.4:      # overlapping operands exercise the meet
            a = ts[0]
            s2 = rng.choice([a[1] or 1, (a[1] or 1) * rng.choice([1, 2, 3]), rng.choice([1, 2, 3, 6])])
            lb = rng.choice(vsa.sample_members(a, rng, 5))
            ts[1] = vsa.norm(w, s2, lb - rng.randrange(0, 3) * s2, lb + rng.randrange(1, 9) * s2)
        out.append((named(ts, rng.choice(NAME_MODES), rng), prog_joins(nb, w, rng), "join-wide"))
    # (3) random walks
    for _ in range(ctx.pick(400, 5000)):
        w = rng.choice([1, 2, 2, 3, 3, 4, 4, 5, 8, 8, 16, 32, 64])
        nb = rng.choice([1, 2, 2, 3])
        pool = vsa.all_sis(w) if w <= 4 else None
        ts = [rng.choice(pool) if pool else (few_members(rng, w) if rng.random() < 0.4 else vsa.rand_si(rng, w)) for _ in range(nb)]
        out.append((named(ts, rng.choice(NAME_MODES), rng), prog_random(nb, w, rng, rng.randrange(4, 25)), "walk"))
    return out


# ---------------------------------------------------------------------------------------------- shrinking, reporting
def reindex(nb, prog, drop=(), drop_bases=()):
    """the program without the instructions `drop` and the bases `drop_bases`; whatever uses a dropped object drops out too.
    -> (kept bases, program) | None if the last instruction does not survive"""
    new = {}
    kept = [b for b in range(nb) if b not in drop_bases]
    for n, b in enumerate(kept):
        new[b] = n
    nxt, obj = len(kept), nb
    out = []
    for k, ins in enumerate(prog):
        idx = ins_operands(ins)
        ok = k not in drop and all(i in new for i in idx)
        if ins[0] != "q":
            if ok:
                new[obj] = nxt; nxt += 1
            obj += 1
        if ok:
            out.append(("q", new[ins[1]], ins[2]) if ins[0] == "q" else ("d", new[ins[1]], ins[2]) if ins[0] == "d" else
                       ("j", ins[1]) + tuple(new[i] for i in idx))
        elif k == len(prog) - 1:
            return None
    return kept, out


def shrink(bases, prog, k, sig):
    prog = prog[:k + 1]

    def still(bs, p):
        fl, _ = run_prog(bs, p, only_last=True)
        return any(f["k"] == len(p) - 1 and f["sig"] == sig for f in fl)

    def attempt(drop=(), drop_bases=()):
        nonlocal bases, prog
        c = reindex(len(bases), prog, drop, drop_bases)
        if c is None or len(c[1]) + len(c[0]) >= len(prog) + len(bases):
            return False
        bs = [bases[b] for b in c[0]]
        if not still(bs, c[1]):
            return False
        bases, prog = bs, c[1]
        return True

    if not still(bases, prog):
        return bases, prog
    # first every instruction that does not build an ancestor of the failing instruction's operands
    nb = len(bases)
    made, obj = {}, nb
    for j, ins in enumerate(prog):
        if ins[0] != "q":
            made[obj] = j; obj += 1
    need, todo = set(), list(ins_operands(prog[-1]))
    while todo:
        i = todo.pop()
        if i >= nb and made[i] not in need:
            need.add(made[i]); todo += ins_operands(prog[made[i]])
    attempt(drop={j for j in range(len(prog) - 1) if j not in need and (prog[j][0] != "q")})
    qs = [j for j in range(len(prog) - 1) if prog[j][0] == "q"]
    if not attempt(drop=set(qs)):           # no earlier query at all, else a single one
        for j in qs:
            if attempt(drop=set(qs) - {j}):
                break
    budget = 300
    changed = True
    while changed and budget > 0:
        changed = False
        for j in range(len(prog) - 2, -1, -1):
            budget -= 1
            if attempt(drop={j}):
                changed = True
                break
            if budget <= 0:
                break
    for b in range(len(bases) - 1, -1, -1):
        attempt(drop_bases={b})
    return bases, prog


def program_show(bases, prog):
    names = []
    head = []
    for b, (t, name, route) in enumerate(bases):
        names.append("xyzuvw"[b] if b < 6 else "b%d" % b)
        head.append("%s = %s%s" % (names[-1], vsa.show(t), "" if name is None else " named '%s'%s" % (name, " (claripy.SI)" if route == "ast" else "")))
    lines = []
    for ins in prog:
        if ins[0] == "q":
            lines.append(query_show(ins[2], names[ins[1]]))
            continue
        if ins[0] == "d":
            names.append(step_show(ins[2], names[ins[1]]))
        else:
            names.append("%s(%s)" % (ins[1], ", ".join(names[i] for i in ins[2:])))
        lines.append("o%d = %s" % (len(names) - 1, names[-1]))
        names[-1] = "o%d" % (len(names) - 1)
    return "; ".join(head) + ": " + "; then ".join(lines)


def prog_size(bases, f):
    return (sum(0 if isinstance(t, str) else t[0] * 1000 + min(vsa.card(t), 999) for t, _, _ in bases), f["k"], str(bases))


def run_sequences(ctx):
    """the stateful / named stage (oracle only: the Lean model is a function of the fields - it has neither names nor hidden state)"""
    progs = gen_programs(ctx)
    found = collections.defaultdict(list)
    stats = collections.Counter()
    streams = collections.Counter()
    modes = collections.Counter()
    for bases, prog, stream in progs:
        fails, st = run_prog(bases, prog)
        stats.update(st)
        streams[stream] += 1
        nm = [n for _, n, _ in bases]
        modes["explicit names, shared" if len([n for n in nm if n]) > len({n for n in nm if n}) else "explicit names" if any(nm) else "auto names"] += 1
        ctx.count(st["queries"] + st["derivations"] + st["joins"])
        ctx.distinct(("seq", str(bases), len(prog), str(prog[-1])))
        for f in fails:
            found[f["sig"]].append((bases, prog, f))
    for sig, lst in sorted(found.items()):
        bases, prog, f = min(lst, key=lambda c: prog_size(c[0], c[2]))
        if f["k"] >= 0:
            sb, sp = shrink(bases, prog, f["k"], sig)
            fl, _ = run_prog(sb, sp)
            g = next((h for h in fl if h["k"] == len(sp) - 1 and h["sig"] == sig), None)
            if g is None:
                sb, sp, g = bases, prog[:f["k"] + 1], f
        else:
            sb, sp, g = bases, [], f
        obs = g["observed"]
        what = "%s: the last answer is %s - %s  [%d case(s) of this class in this run]" % (
            program_show(sb, sp), vsa.show(obs) if isinstance(obs, tuple) else obs, g["detail"], len(lst))
        ctx.violation(sig, what, {"seq_case": True, "bases": [[list(t) if isinstance(t, tuple) else t, n, r] for t, n, r in sb],
                                  "prog": sp, "kind": g["kind"], "detail": g["detail"], "observed": obs})
    ctx.cov["sequence_stage"] = {
        "programs": len(progs), "streams": dict(streams), "instructions": dict(stats), "name_modes": dict(modes),
        "rule": "program over a heap of interval objects: query (cardinality, eval/min/max signed and unsigned, membership) -> derive (zero/sign/"
                "agnostic extension, extract, copy, nameless_copy, least_upper_bound of one, neg, not) -> join/meet/widen (two bases in both orders, "
                "a base with itself / with its copy, three operands, a result with its base) -> query again; bases auto-named, all under one "
                "explicit name, or first and last sharing a name (StridedInterval(name=) or claripy.SI(explicit_name=True) through the backend); "
                "every instruction judged against the member sets of the tuples read from the objects' fields at creation"}
    fc = ctx.cov.setdefault("failing_classes_seen", {})
    for k, v in found.items():
        fc[k] = fc.get(k, 0) + len(v)
    return found


def _tuplify(x):
    return tuple(_tuplify(y) for y in x) if isinstance(x, list) else x


def replay_seq(ctx, obj):
    r = obj["replay"]
    bases = [(tuple(t) if isinstance(t, list) else t, n, route) for t, n, route in r["bases"]]
    prog = [_tuplify(i) for i in r["prog"]]
    print("case:", program_show(bases, prog))
    fails, _ = run_prog(bases, prog)
    for f in fails:
        print("VIOLATION property=%s replay=(given)" % PROP)
        print("failure: instruction %d %s answers %s: %s - %s  signature: %s" % (f["k"], f["ins"], f["observed"], f["kind"], f["detail"], f["sig"]))
    if not fails:
        print("no failure on the current tree")
    return 1 if fails else 0
