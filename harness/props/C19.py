"""C19 — GC guard.  translate -> prove (any number of threads) -> correspondence on real functions
under a deterministic line scheduler -> oracle / failing-schedule search on the real code."""
import inspect, os, sys, threading

from lib.common import LEAN, write_if_changed
import translate_gcguard as tg

THEOREMS = ["Claripy.Props.C19.C19_gen_matches_model", "Claripy.Props.C19.C19_inv",
            "Claripy.Props.C19.C19_gc_guard", "Claripy.Props.C19.C19_no_underflow",
            "Claripy.GcGuard.step_inv", "Claripy.GcGuard.inv_safe", "Claripy.GcGuard.inv_init"]


class FakeGc:
    def __init__(self, enabled):
        self.enabled = enabled

    def isenabled(self):
        return self.enabled

    def enable(self):
        self.enabled = True

    def disable(self):
        self.enabled = False

    def __getattr__(self, n):  # anything else claripy might call
        import gc
        return getattr(gc, n)


class RealSched:
    """Runs the real `_enter_z3`/`_exit_z3` in worker threads, one traced line per scheduler step."""

    def __init__(self, n, gc_init):
        import claripy.backends.backend_z3 as bz
        self.bz = bz
        self.n = n
        self.codes = {bz._enter_z3.__code__: 1, bz._exit_z3.__code__: 2}
        self.saved = (bz.gc, bz._gc_lock, bz._active_z3_calls, bz._gc_was_enabled, bz.log.error)
        self.gc = FakeGc(gc_init)
        self.gc0 = gc_init
        bz.gc = self.gc
        bz._gc_lock = self
        bz._active_z3_calls = 0
        bz._gc_was_enabled = False
        bz.log.error = lambda *a, **k: None
        self.holder = None
        self.cv = threading.Condition()
        self.turn = None            # thread index allowed to run, None = scheduler
        self.status = ["idle"] * n  # idle | stopped | blocked | dead
        self.fn = [0] * n
        self.depth = [0] * n
        self.cmd = [None] * n
        self.err = None
        self.dying = False
        self.threads = [threading.Thread(target=self._worker, args=(i,), daemon=True) for i in range(n)]
        for t in self.threads:
            t.start()

    # --- fake lock protocol (used by the code under test through `with _gc_lock:`)
    def __enter__(self):
        i = self._me()
        while self.holder is not None:
            self._yield(i, "blocked")
        self.holder = i
        return self

    def __exit__(self, *a):
        self.holder = None
        return False

    def acquire(self, *a, **k):
        self.__enter__(); return True

    def release(self):
        self.holder = None

    def _me(self):
        return threading.current_thread()._verif_idx

    def _yield(self, i, status):
        with self.cv:
            self.status[i] = status
            self.turn = None
            self.cv.notify_all()
            while self.turn != i:
                self.cv.wait()

    def _tracer(self, frame, ev, arg):
        if ev == "call" and frame.f_code in self.codes:
            return self._local
        return None

    def _local(self, frame, ev, arg):
        if ev in ("line", "return"):
            self._yield(self._me(), "stopped")
        return self._local

    def _worker(self, i):
        threading.current_thread()._verif_idx = i
        sys.settrace(self._tracer)
        try:
            while True:
                with self.cv:
                    while self.turn != i and not self.dying:
                        self.cv.wait()
                if self.dying:
                    break
                cmd = self.cmd[i]
                try:
                    (self.bz._enter_z3 if cmd == "E" else self.bz._exit_z3)()
                except BaseException as e:  # noqa
                    self.err = "%s: %r" % (type(e).__name__, e)
                if cmd == "E":
                    self.depth[i] += 1
                self.fn[i] = 0
                with self.cv:
                    self.status[i] = "idle"
                    self.turn = None
                    self.cv.notify_all()
        finally:
            sys.settrace(None)
            with self.cv:
                self.status[i] = "dead"
                self.turn = None
                self.cv.notify_all()

    def _give(self, i):
        with self.cv:
            self.turn = i
            self.cv.notify_all()
            while self.turn is not None:
                if not self.cv.wait(timeout=120):
                    raise RuntimeError("scheduler: thread %d did not yield (deadlock in code under test?)" % i)

    def quiescent(self):
        return all(s == "idle" for s in self.status) and all(d == 0 for d in self.depth)

    def step(self, i, a):
        """returns observed state string or 'blocked' (step not enabled)"""
        if a == "F":
            if not self.quiescent():
                return "blocked"
            self.gc.enabled = not self.gc.enabled
            self.gc0 = not self.gc0
            return self.obs()
        if i >= self.n:
            return "blocked"
        st = self.status[i]
        if a == "E":
            if st != "idle":
                return "blocked"
            self.cmd[i] = "E"; self.fn[i] = 1
            self._give(i)
            return self.obs()
        if a == "X":
            if st != "idle" or self.depth[i] == 0:
                return "blocked"
            self.cmd[i] = "X"; self.fn[i] = 2
            self.depth[i] -= 1
            self._give(i)
            return self.obs()
        if a == "R":
            if st == "idle":
                return "blocked"
            self._give(i)
            if self.status[i] == "blocked":
                return "blocked"
            return self.obs()
        raise ValueError(a)

    def obs(self):
        bz = self.bz
        lk = "-" if self.holder is None else str(self.holder)
        return "%d,%d,%d,%s" % (bz._active_z3_calls, 1 if bz._gc_was_enabled else 0, 1 if self.gc.enabled else 0, lk)

    def oracle(self):
        """the property itself, on the real state (independent of the model)"""
        bz = self.bz
        inprog = sum(self.depth)
        if inprog > 0 and self.gc.enabled:
            return "gc enabled while %d call(s) in progress" % inprog
        if self.quiescent() and self.gc.enabled != self.gc0:
            return "all calls returned but gc.isenabled()=%s, was %s before the first call" % (self.gc.enabled, self.gc0)
        if bz._active_z3_calls < 0:
            return "in-progress counter negative (%d)" % bz._active_z3_calls
        if self.err:
            return "exception in guard function: " + self.err
        return None

    def close(self):
        # drain: let every thread finish its current function, then die
        for _ in range(200):
            busy = [i for i in range(self.n) if self.status[i] in ("stopped", "blocked")]
            if not busy:
                break
            for i in busy:
                try:
                    self._give(i)
                except RuntimeError:
                    break
        with self.cv:
            self.dying = True
            self.cv.notify_all()
        for t in self.threads:
            t.join(timeout=2)
        bz = self.bz
        bz.gc, bz._gc_lock, bz._active_z3_calls, bz._gc_was_enabled, bz.log.error = self.saved


def run_real(n, g, sched):
    """-> (list of observations, oracle failure or None, index of failure)"""
    rs = RealSched(n, bool(g))
    obs, bad = [], None
    try:
        for k, tok in enumerate(sched):
            i, a = tok.split(":")
            o = rs.step(int(i), a)
            obs.append(o)
            if o == "blocked":
                break
            bad = rs.oracle()
            if bad:
                bad = (k, bad)
                break
    finally:
        rs.close()
    return obs, bad


def random_sched(rng, n, maxdepth, length):
    """generate a schedule by simulating enabledness abstractly (idle/in-function is all we need;
    the number of lines per function is unknown here, so we let run-steps be proposed freely and
    the executor stops at the first disabled step)"""
    sched = []
    # we drive generation against the real scheduler lazily in `explore_real`; here: a plan of intents
    for _ in range(length):
        sched.append((rng.randrange(n), rng.random()))
    return sched


def explore_real(rng, n, g, maxdepth, length):
    """random walk on the real code choosing only enabled steps; returns (schedule, observations, bad)"""
    rs = RealSched(n, bool(g))
    sched, obs, bad = [], [], None
    try:
        for _ in range(length):
            i = rng.randrange(n)
            st = rs.status[i]
            if st == "idle":
                r = rng.random()
                if rs.quiescent() and r < 0.08:
                    a = "F"
                elif rs.depth[i] > 0 and (r < 0.5 or rs.depth[i] >= maxdepth):
                    a = "X"
                elif rs.depth[i] < maxdepth:
                    a = "E"
                else:
                    continue
            else:
                a = "R"
            tok = "%d:%s" % (i, a)
            o = rs.step(i, a)
            sched.append(tok); obs.append(o)
            if o == "blocked":
                # legal (lock contention): model must say blocked too; drop it from the walk and go on
                continue
            b = rs.oracle()
            if b:
                bad = (len(sched) - 1, b)
                break
    finally:
        rs.close()
    return sched, obs, bad


def model_obs(ctx, n, g, scheds):
    """run the Lean model (generated programs) on schedules; returns list of list of observations"""
    lines = ["gc %d %d %s" % (n, g, " ".join(s)) for s in scheds]
    return [o.split(";") if o else [] for o in ctx.driver(lines)]


def shrink(n, g, sched):
    """delta-debug a failing schedule on the real code"""
    def fails(s):
        _, bad = run_real(n, g, s)
        return bad is not None
    cur = list(sched)
    changed = True
    while changed and len(cur) > 1:
        changed = False
        for k in range(len(cur)):
            cand = cur[:k] + cur[k + 1:]
            if fails(cand):
                cur = cand; changed = True
                break
    obs, bad = run_real(n, g, cur)
    if bad:
        cur = cur[:bad[0] + 1]
    return cur


class Bracket:
    """The wrapper itself: real `condom`-wrapped probe calls on the MAIN thread (index 0, the only one that gets the SIGINT
    handler) and on worker threads, advanced one whole enter / exit at a time by a token schedule [(thread, E|X|R)]:
    E = start one more (nested) wrapped call, X = return from the innermost, R = leave the innermost with a Z3Exception."""

    def __init__(self, n, gc0, sched):
        import gc, z3
        import claripy.backends.backend_z3 as bz
        self.bz, self.gc, self.z3 = bz, gc, z3
        self.n, self.gc0, self.sched = n, gc0, list(sched)
        self.cv = threading.Condition()
        self.pos = 0
        self.depth = [0] * n
        self.fail = None          # (step index, text)
        self.mismatch = None      # counter != calls in progress (the tie, not the property)
        self.obs = []
        self.wrapped = bz.condom(self._probe)

    def _arrive(self):
        with self.cv:
            inprog = sum(self.depth)
            en = self.gc.isenabled()
            self.obs.append("%d,%d,%d" % (self.bz._active_z3_calls, inprog, 1 if en else 0))
            if self.fail is None:
                if inprog > 0 and en:
                    self.fail = (self.pos, "gc enabled while %d wrapped call(s) in progress" % inprog)
                elif inprog == 0 and en != self.gc0:
                    self.fail = (self.pos, "all wrapped calls returned but gc.isenabled()=%s, was %s before the first call" % (en, self.gc0))
                elif self.bz._active_z3_calls < 0:
                    self.fail = (self.pos, "in-progress counter negative (%d)" % self.bz._active_z3_calls)
            if self.mismatch is None and self.bz._active_z3_calls != inprog:
                self.mismatch = (self.pos, "_active_z3_calls=%d but %d wrapped call(s) in progress" % (self.bz._active_z3_calls, inprog))
            self.pos += 1
            self.cv.notify_all()

    def _turn(self, tid):
        with self.cv:
            while self.pos < len(self.sched) and self.sched[self.pos][0] != tid:
                if not self.cv.wait(timeout=120):
                    self.fail = self.fail or (self.pos, "scheduler stuck")
                    self.pos = len(self.sched)
                    self.cv.notify_all()
            if self.pos >= len(self.sched):
                return "X" if self.depth[tid] > 0 else None
            return self.sched[self.pos][1]

    def _call(self, tid):
        try:
            self.wrapped(tid)
        except self.bz.ClaripyZ3Error:
            pass
        self._arrive()

    def _probe(self, tid):
        self.depth[tid] += 1
        self._arrive()
        while True:
            a = self._turn(tid)
            if a == "E":
                self._call(tid)
            elif a == "R":
                self.depth[tid] -= 1
                raise self.z3.Z3Exception("probe")
            else:
                self.depth[tid] -= 1
                return

    def _thread(self, tid):
        while True:
            a = self._turn(tid)
            if a is None:
                return
            if a == "E":
                self._call(tid)
            else:       # X / R outside any call: not a step
                with self.cv:
                    self.pos += 1
                    self.cv.notify_all()

    def run(self):
        was = self.gc.isenabled()
        (self.gc.enable if self.gc0 else self.gc.disable)()
        ws = [threading.Thread(target=self._thread, args=(i,), daemon=True) for i in range(1, self.n)]
        try:
            for w in ws:
                w.start()
            self._thread(0)
            for w in ws:
                w.join(timeout=180)
        finally:
            (self.gc.enable if was else self.gc.disable)()
        return self.obs, self.fail, self.mismatch


def bracket_complete(sched, n):
    """append the exits that are still open (innermost first, thread by thread)"""
    d = [0] * n
    out = []
    for t, a in sched:
        if a == "E":
            if d[t] >= 3:
                continue
            d[t] += 1
        else:
            if d[t] == 0:
                continue
            d[t] -= 1
        out.append((t, a))
    for t in range(n):
        out += [(t, "X")] * d[t]
    return out


def bracket_schedules(rng, quick):
    import itertools
    seen, res = set(), []
    steps2 = [(t, a) for t in (0, 1) for a in "EXR"]
    for ln in range(1, 5 if quick else 6):
        for combo in itertools.product(steps2, repeat=ln):
            s = tuple(bracket_complete(combo, 2))
            if s and s not in seen:
                seen.add(s); res.append((2, list(s)))
    for _ in range(150 if quick else 3000):
        n = rng.choice([2, 3, 3, 4])
        raw = [(rng.randrange(n), rng.choice("EEXXR")) for _ in range(rng.choice([6, 10, 16]))]
        s = tuple(bracket_complete(raw, n))
        if s and (n, s) not in seen:
            seen.add((n, s)); res.append((n, list(s)))
    return res


def run_bracket(ctx):
    import signal
    nrun = 0
    old = signal.getsignal(signal.SIGINT)
    try:
        for hname, handler in (("python-default", signal.default_int_handler), ("user-handler", lambda *a: None)):
            signal.signal(signal.SIGINT, handler)
            for (n, s) in bracket_schedules(ctx.rng, ctx.tier == "quick"):
                for g in (True, False):
                    obs, fail, mism = Bracket(n, g, s).run()
                    ctx.count(); nrun += 1
                    if len(set(t for t, _ in s)) > 1:
                        ctx.distinct(("bracket", n, g, hname, tuple(s)))
                    txt = " ".join("%d:%s" % x for x in s)
                    if fail:
                        ctx.violation("C19/condom", "%s at step %d of wrapped-call schedule %s (threads=%d, thread 0 is the main thread, gc initially %s, SIGINT handler %s)" % (
                            fail[1], fail[0], txt, n, "on" if g else "off", hname),
                            {"bracket": {"threads": n, "gc0": g, "schedule": [list(x) for x in s], "handler": hname}, "observed(counter,calls,gc)": obs, "failure": fail[1]})
                        return nrun
                    if mism:
                        ctx.tie_broken("corr:condom-bracket", "%s at step %d of wrapped-call schedule %s (handler %s)" % (mism[1], mism[0], txt, hname))
    finally:
        signal.signal(signal.SIGINT, old)
    return nrun


def run(ctx):
    ctx.cov["trusted_base"] += [
        "translator harness/translate_gcguard.py (Python ast -> 12-instruction program); it refuses anything outside its grammar",
        "line-granular atomicity: one traced source line = one atomic step (the GIL can switch inside a line; `x += 1` on a global under the lock is what the code relies on)",
        "not exhibited by the model: asynchronous exceptions inside the critical section; other code toggling gc while calls are in progress",
    ]
    ctx.cov["rule"] = ("schedules = sequences of (thread, callEnter|callExit|run-one-line|envFlip); generated (a) by Lean BFS over the "
                       "generated programs: one schedule per reachable transition, (b) random walks on the real functions; "
                       "non-trivial = at least two threads inside the guard functions or a nested call at some point; distinct = distinct schedule string")
    # 1. translate
    tie_ok = True
    try:
        tr = tg.translate()
        write_if_changed(os.path.join(LEAN, "Claripy", "Gen", "GcGuard.lean"), tg.render(tr))
        ctx.cov["translated"] = {"enter": [i[0] for i in tr["enter"]], "exit": [i[0] for i in tr["exit"]]}
    except tg.TranslateError as e:
        tie_ok = False
        ctx.tie_broken("translate:_enter_z3/_exit_z3", "source is outside the translator's grammar: %s" % e)
    # 2. prove
    proved = False
    if tie_ok:
        proved = ctx.prove("ClaripyProofs.Props.C19", THEOREMS)
    else:
        ctx.cov["obligations"] += len(THEOREMS)
        ctx.cov["checker_cmd"] = "cd lean && lake build ClaripyProofs.Props.C19"
    # 3. correspondence: model (generated programs) vs real functions on the same schedules
    found = None
    model_usable = tie_ok
    if model_usable:
        try:
            ok, log = ctx.lake_build(["driver"])
            if not ok:
                raise RuntimeError(log[-500:])
            confs = ctx.pick([(2, 1, 1), (2, 0, 1), (1, 1, 2)], [(2, 1, 2), (2, 0, 2), (3, 1, 1), (3, 0, 1), (1, 1, 3)])
            for (n, g, d) in confs:
                out = ctx.driver(["gcbfs %d %d %d 3000000" % (n, g, d)])[0]
                fields = dict(f.split("=", 1) for f in out.split(";"))
                ctx.cov["states"] = ctx.cov.get("states", 0) + int(fields["states"])
                ctx.cov["transitions"] = ctx.cov.get("transitions", 0) + int(fields["transitions"])
                scheds = [s.split(" ") for s in fields["scheds"].split("|") if s]
                bad = [s.split(" ") for s in fields["bad"].split("|") if s]
                if bad:
                    # the regenerated model reaches an unsafe state: replay on the real code
                    for s in bad[:20]:
                        obs, b = run_real(n, g, s)
                        ctx.count()
                        if b:
                            found = (n, g, s, b); break
                    if found:
                        break
                mo = model_obs(ctx, n, g, scheds)
                for s, m in zip(scheds, mo):
                    obs, b = run_real(n, g, s)
                    ctx.count()
                    ctx.cov["traces_validated_against_impl"] += 1
                    if any(t.split(":")[0] != s[0].split(":")[0] for t in s) or "E" in [t.split(":")[1] for t in s[1:]]:
                        ctx.distinct(" ".join(s))
                    if b:
                        found = (n, g, s, b); break
                    if obs != m[:len(obs)] or len(obs) != len(m):
                        k = next((j for j in range(min(len(obs), len(m))) if obs[j] != m[j]), min(len(obs), len(m)))
                        ctx.tie_broken("corr:gcguard", "schedule %s (n=%d gc0=%d): step %d model=%s real=%s" % (
                            " ".join(s), n, g, k, m[k] if k < len(m) else "<end>", obs[k] if k < len(obs) else "<end>"))
                        break
                if found or ctx.broken:
                    break
                ctx.sample({"threads": n, "gc0": g, "schedule": " ".join(scheds[len(scheds) // 2]), "states": mo[len(scheds) // 2]})
        except RuntimeError as e:
            ctx.tie_broken("driver", str(e)[:300])
    # 4. random walks on the real code (oracle = the property itself); compared with the model when it is usable
    nwalks = ctx.pick(150, 1500) * (4 if ctx.broken else 1)
    walks = []
    for k in range(nwalks):
        if found:
            break
        n = ctx.rng.choice([1, 2, 2, 3, 3, 4])
        g = ctx.rng.choice([0, 1])
        s, obs, b = explore_real(ctx.rng, n, g, ctx.rng.choice([1, 2, 3]), ctx.rng.choice([30, 60, 120]))
        ctx.count()
        if len(set(t.split(":")[0] for t in s)) > 1:
            ctx.distinct(" ".join(s))
        if b:
            found = (n, g, s, b); break
        walks.append((n, g, s, obs))
    if not found and model_usable and not ctx.broken and walks:
        for (n, g, s, obs) in walks:
            m = model_obs(ctx, n, g, [s])[0]
            # the model stops at the first blocked step; the real walk continues after a blocked acquire
            # (a blocked step changes nothing), so compare by re-running the model on the unblocked steps
            s2 = [t for t, o in zip(s, obs) if o != "blocked"]
            o2 = [o for o in obs if o != "blocked"]
            m2 = model_obs(ctx, n, g, [s2])[0]
            ctx.cov["traces_validated_against_impl"] += 1
            if m2 != o2:
                k = next((j for j in range(min(len(o2), len(m2))) if o2[j] != m2[j]), min(len(o2), len(m2)))
                ctx.tie_broken("corr:gcguard", "random walk (n=%d gc0=%d) %s: step %d model=%s real=%s" % (
                    n, g, " ".join(s2[:k + 1]), k, m2[k] if k < len(m2) else "<end>", o2[k] if k < len(o2) else "<end>"))
                break
            # every blocked real step must be blocked in the model too
            for j, (t, o) in enumerate(zip(s, obs)):
                if o == "blocked":
                    pre = [t2 for t2, o3 in zip(s[:j], obs[:j]) if o3 != "blocked"] + [t]
                    mm = model_obs(ctx, n, g, [pre])[0]
                    if not mm or mm[-1] != "blocked":
                        ctx.tie_broken("corr:gcguard", "step %s blocked on the real lock but enabled in the model" % t)
                    break
        if walks:
            n, g, s, obs = walks[0]
            ctx.sample({"threads": n, "gc0": g, "random_walk": " ".join(s[:40]), "observed(active,saved,gc,lock)": obs[:40]})
    # 5. the wrapper: every wrapped call is one enter and one exit, on every thread and on every way out
    try:
        nb = run_bracket(ctx)
        ctx.cov.setdefault("input_distribution", {})["wrapped_call_schedules"] = nb
    except Exception as e:  # noqa
        ctx.tie_broken("corr:condom-bracket", "wrapped-call driver failed: %r" % (e,))
    if found:
        n, g, s, b = found
        s = shrink(n, g, s)
        obs, b2 = run_real(n, g, s)
        ctx.violation("C19/schedule", "%s after schedule %s (threads=%d, gc initially %s)" % (
            (b2 or b)[1], " ".join(s), n, "on" if g else "off"),
            {"threads": n, "gc0": g, "schedule": s, "observed": obs, "failure": (b2 or b)[1]})
    ctx.assumptions += ["one traced source line is one atomic step", "gc and the lock are substituted by instrumented objects in the module namespace at run time (no source hook)"]


def replay(ctx, obj):
    r = obj["replay"]
    if "bracket" in r:
        import signal
        b = r["bracket"]
        old = signal.getsignal(signal.SIGINT)
        signal.signal(signal.SIGINT, signal.default_int_handler if b["handler"] == "python-default" else (lambda *a: None))
        try:
            obs, fail, mism = Bracket(b["threads"], b["gc0"], [tuple(x) for x in b["schedule"]]).run()
        finally:
            signal.signal(signal.SIGINT, old)
        print("wrapped-call schedule:", b["schedule"]); print("observed (counter, calls in progress, gc):", obs)
        if fail:
            print("VIOLATION property=C19 replay=(given)"); print("failure:", fail[1]); return 1
        print("no failure on the current tree"); return 0
    obs, bad = run_real(r["threads"], r["gc0"], r["schedule"])
    print("schedule:", " ".join(r["schedule"]))
    print("observed (active,saved,gc,lock):", obs)
    if bad:
        print("VIOLATION property=C19 replay=%s" % "(given)"); print("failure:", bad[1])
        return 1
    print("no failure on the current tree")
    return 0
