"""C18, replacements of expressions whose hash differs from process to process for a reason that does not show at the root:
a plain annotation (eliminatable, not relocatable - nothing any `annotations` / `_relocatable_annotations` summary of the root
mentions) on a DEEP sub-term, whose __hash__ is Python's string hash (per process, PYTHONHASHSEED).  Next to them: the same
annotation on the root, a floating-point comparison inside, an un-annotated control.

The class lives at module level here so that it unpickles in the fresh interpreter.  Run as a script this file is that fresh
interpreter:  PYTHONHASHSEED=<n> python deepann.py < {"blob", "suffix"}  ->  {"outs": [...], "deep": [...]}"""
import json, os, pickle, subprocess, sys

import claripy


class Tag(claripy.Annotation):
    """what an analysis hangs on a value to remember something about it (taint, origin): plain, identified by a string"""

    def __init__(self, tag):
        self.tag = tag

    def __hash__(self):
        return hash(("Tag", self.tag))      # string hashing: another number in every process

    def __eq__(self, other):
        return isinstance(other, Tag) and other.tag == self.tag

    def __repr__(self):
        return "<Tag %s>" % self.tag


# stand-ins for a variable (same width), written in the expression language of the replays; T(e, k) = e.annotate(Tag("t<k>"))
DEEP = {
    "x": ["(x * (ZeroExt(1, T(y, 1)) + 1))", "(ZeroExt(1, T(y, 2) ^ z) + x)", "(x ^ ZeroExt(1, (T(z, 1) + 1) & y))",
          "If(ULT(T(x, 3) + 1, 3), x, x + 1)", "((x + ZeroExt(1, T(T(y, 1) + z, 2))) - 1)"],
    "y": ["((T(y, 2) ^ z) + 1)", "(y + (z & (T(z, 1) + 1)))", "If(SLT(T(y, 1) ^ z, 0), y, y + 1)", "(Extract(2, 0, x * ZeroExt(1, T(y, 4))) ^ z)"],
    "z": ["((T(z, 1) + y) ^ z)", "(z - (y & (T(y, 3) + 1)))", "Extract(2, 0, x + ZeroExt(1, T(z, 2) + 1))"],
}
ROOT = {"x": ["T(x + 1, 1)", "T(x, 2)"], "y": ["T(y ^ z, 1)"], "z": ["T(z + 1, 3)"]}
FLOAT = {"x": ["If(fa > FPV(1.5, FSORT_DOUBLE), x, x + 1)"], "y": ["If(fa > FPV(1.5, FSORT_DOUBLE), y, y ^ z)"], "z": ["If(fa == FPV(1.5, FSORT_DOUBLE), z, z + 1)"]}
PLAIN = {"x": ["(x * (ZeroExt(1, y) + 1))"], "y": ["((y ^ z) + 1)"], "z": ["((z + y) ^ z)"]}


def install(uni):
    from lib import solverlib as L
    if not L._UNI:
        L._UNI.append(L.Universe())        # the universe solverlib normalises answers with: it has to know T as well
    for u in (uni, L._UNI[0]):
        u.ns["T"] = lambda e, k: e.annotate(Tag("t%d" % k))
    return uni


def shape(a):
    """(annotation on the root, annotation somewhere below it)"""
    return bool(a.annotations), any(bool(c.annotations) for c in a.children_asts())


def run_here(cls, hist, cut):
    from lib import solverlib as L
    uni = install(L.Universe())
    solvers = [L.SOLVER_CLASSES[cls]()]
    for d in hist[:cut]:
        if d["s"] < len(solvers):
            L.apply_op(uni, solvers, d)
    blob = pickle.dumps(solvers, -1).hex()
    mine = []
    for d in hist[cut:]:
        mine.append(["skip"] if d["s"] >= len(solvers) else L._norm_out(d, L.apply_op(uni, solvers, d)))
    return blob, json.loads(json.dumps(mine))


def differs(cls, hist, cut, hashseed):
    """original here, restored tuple in a fresh interpreter with the given hash seed -> None | (index of the call, why)"""
    blob, mine = run_here(cls, hist, cut)
    env = dict(os.environ, PYTHONHASHSEED=str(hashseed))
    p = subprocess.run([sys.executable, os.path.abspath(__file__)], input=json.dumps({"blob": blob, "suffix": hist[cut:]}),
                       capture_output=True, text=True, env=env, timeout=300)
    if p.returncode != 0:
        raise RuntimeError("fresh process failed: " + p.stderr[-600:])
    outs = json.loads(p.stdout)["outs"]
    for k, (a, b) in enumerate(zip(mine, outs)):
        if a != b:
            return cut + k, "original: %s, restored in a fresh process (PYTHONHASHSEED=%s): %s" % (str(a)[:160], hashseed, str(b)[:160])
    return None


def shrink(cls, hist, cut, k, hashseed, budget=14):
    """the calls up to the differing one; then drop calls one at a time (each try costs a fresh interpreter: bounded)"""
    cur, cc = hist[:k + 1], cut
    i = len(cur) - 2
    while i >= 0 and budget > 0:
        if cur[i].get("repl") or cur[i]["op"] == "branch":
            i -= 1
            continue
        t, tc = cur[:i] + cur[i + 1:], cc - (1 if i < cc else 0)
        budget -= 1
        try:
            r = differs(cls, t, tc, hashseed) if tc >= 1 else None
        except Exception:  # noqa: BLE001
            r = None
        if r and r[0] == len(t) - 1:
            cur, cc = t, tc
        i -= 1
    return cur, cc


def main():
    job = json.load(sys.stdin)
    from lib import solverlib as L
    uni = install(L.Universe())
    solvers = pickle.loads(bytes.fromhex(job["blob"]))
    outs = []
    for d in job["suffix"]:
        if d["s"] >= len(solvers):
            outs.append(["skip"])
            continue
        outs.append(L._norm_out(d, L.apply_op(uni, solvers, d)))
    json.dump({"outs": outs}, sys.stdout)


if __name__ == "__main__":
    sys.path.insert(0, os.path.dirname(os.path.dirname(os.path.abspath(__file__))))
    from lib import deepann as _me      # the classes must be lib.deepann's, not __main__'s
    _me.main()
