"""Common run loop of the strided-interval checks (C21, C22): prove, correspond, oracle, classify."""
import collections, json, time

from lib import vsa

THEOREMS_C21 = []
TESTS_C21 = []
THEOREMS_C22 = []
TESTS_C22 = []
try:  # the theorem lists live next to the Lean sources they name
    from lib.vsa_theorems import THEOREMS_C21, TESTS_C21, THEOREMS_C22, TESTS_C22  # noqa: F811
except ImportError:
    pass


def fmt_arg(x):
    if isinstance(x, tuple):
        return "%d %d %d %d" % x
    if isinstance(x, str):
        return "bottom %s" % x.split(":")[1]
    return str(x)


def set_order(op, a, b):
    """iteration order of the Python set of partial results inside udiv/sdiv, as indices into the list of distinct
    elements in insertion order (the Lean model takes the order as an input; theorems quantify over it)"""
    try:
        S = vsa.SI()
        A, B = vsa.mk(a), vsa.mk(b)
        if op == "udiv":
            ds, vs, f = A._ssplit(), B._ssplit(), S._wrapped_unsigned_div
        else:
            ds, vs, f = A._psplit(), B._psplit(), S._wrapped_signed_div
        ins, st = [], set()
        for d in ds:
            for v in vs:
                t = f(d, v)
                ins.append(t); st.add(t)
        key = lambda t: (t.bits, t.lower_bound, t.upper_bound, t.stride, t.is_empty)  # noqa: E731
        dist = []
        for t in ins:
            if key(t) not in dist:
                dist.append(key(t))
        return [dist.index(key(t)) for t in st]
    except Exception:  # noqa  (the operation itself raises the same way; the model fails before using the order)
        return [0]


def fmt_line(op, args):
    line = "si %s %s" % (op, " | ".join(fmt_arg(x) for x in args))
    if op in ("udiv", "sdiv"):
        line += " | " + " | ".join(str(i) for i in set_order(op, args[0], args[1]))
    return line


def canon(r):
    """canonical string of a result of the real code (same alphabet as the driver's answers)"""
    if isinstance(r, tuple):
        return "%d %d %d %d" % r
    if isinstance(r, str) and r.startswith("bottom:"):
        return "bottom " + r.split(":")[1]
    if isinstance(r, list):
        return "list " + ",".join(canon(x) if not isinstance(x, int) else str(x) for x in r)
    if r is True:
        return "true"
    if r is False:
        return "false"
    if isinstance(r, int):
        return "int %d" % r
    return str(r)


def size_key(case):
    op, args = case
    k = 0
    for x in args:
        if isinstance(x, tuple):
            k += x[0] * 1000 + min(vsa.card(x), 999)
    return (k, str(args))


def run_family(ctx, prop, cases, theorems, tests, extra_oracle=None):
    """cases: list of (op, args, stream).  extra_oracle(op, args, r) handles the non-interval shaped operations
    (queries of C22) and returns None | (kind, detail)."""
    ctx.cov["trusted_base"] += [
        "member set of an interval = { lb + k*stride mod 2^w : k*stride <= (ub - lb) mod 2^w } (harness/lib/vsa.py, Lean: Claripy.VSA.SI.mem); "
        "claripy's own eval is checked against it by C22",
        "concrete semantics of the operations: Python integer arithmetic in harness/lib/vsa.py (SMT-LIB bit-vector meaning; sdiv truncates, shifts by >= width give 0 / sign fill)",
    ]
    ctx.cov["rule"] = ("case = operation + operand intervals (+ integer parameters); streams: exh = every interval (pair) up to the exhaustive width, "
                       "small = sampled pairs at the next widths, wide = random intervals at 5..64 bits (boundary values, pole-adjacent members); "
                       "non-trivial = at least one operand is not a singleton; distinct = distinct (operation, operands)")
    proved = ctx.prove("ClaripyProofs.Props.%s" % prop, theorems, tests=tests, driver_exe="driver_vsa")
    t0 = time.time()
    # ---- real code
    real = [vsa.run_real(op, args) if op in vsa.OPS else vsa.run_query(op, args) for op, args, _ in cases]
    t_real = time.time() - t0
    # ---- model
    lines = [fmt_line(op, args) for op, args, _ in cases]
    try:
        model = ctx.driver(lines, exe="driver_vsa")
    except RuntimeError as e:
        ctx.tie_broken("driver_vsa", str(e)[:400])
        model = ["unmodelled"] * len(cases)
    per_op = collections.defaultdict(lambda: {"modelled": 0, "unmodelled": 0, "cases": 0})
    streams = collections.Counter()
    widths = collections.Counter()
    disagree = {}
    for (op, args, stream), r, m in zip(cases, real, model):
        st = per_op[op]
        st["cases"] += 1
        streams[stream] += 1
        for x in args:
            if isinstance(x, tuple):
                widths[x[0]] += 1
                break
        if m == "unmodelled":
            st["unmodelled"] += 1
        else:
            st["modelled"] += 1
            ctx.cov["traces_validated_against_impl"] += 1
            if m != canon(r) and op not in disagree:
                disagree[op] = "%s model=%s real=%s" % (fmt_line(op, args), m, canon(r))
    for op, d in sorted(disagree.items()):
        ctx.tie_broken("corr:%s" % op, d)
    # ---- oracle on the real code's results
    fails = collections.defaultdict(list)
    for (op, args, stream), r in zip(cases, real):
        ctx.count()
        if any(isinstance(x, tuple) and x[1] != 0 for x in args):
            ctx.distinct((op, str(args)))
        if op in vsa.OPS:
            o = vsa.oracle(op, args, r, ctx.rng, limit=ctx.pick(48, 64))
        else:
            o = extra_oracle(op, args, r)
        if o:
            fails[vsa.classify(op, o[0], args)].append((op, args, r, o))
    # extra search budget on operations whose tie is broken
    if disagree:
        extra = focus_search(ctx, prop, sorted(disagree), extra_oracle)
        for k, v in extra.items():
            fails[k].extend(v)
    for sig, lst in sorted(fails.items()):
        op, args, r, o = min(lst, key=lambda c: size_key((c[0], c[1])))
        what = "%s(%s) = %s: %s  [%d case(s) of this class in this run]" % (
            op, ", ".join(vsa.show(x) if isinstance(x, tuple) else str(x) for x in args), canon(r), o[1], len(lst))
        ctx.violation(sig, what, {"op": op, "args": [list(x) if isinstance(x, tuple) else x for x in args],
                                  "observed": canon(r), "kind": o[0], "detail": o[1]})
    ctx.cov["per_operation"] = {k: dict(v) for k, v in sorted(per_op.items())}
    ctx.cov["input_distribution"] = {"streams": dict(streams), "first_operand_width": {str(k): v for k, v in sorted(widths.items())}}
    ctx.cov["failing_classes_seen"] = {k: len(v) for k, v in sorted(fails.items())}
    ctx.cov["seconds_real_code"] = round(t_real, 1)
    for i in (0, len(cases) // 3, 2 * len(cases) // 3, len(cases) - 1):
        op, args, _ = cases[i]
        ctx.sample({"case": fmt_line(op, args), "real": canon(real[i]), "model": model[i]})
    return proved


def focus_search(ctx, prop, ops, extra_oracle):
    """failing-input search concentrated on operations whose model/implementation tie is broken"""
    out = collections.defaultdict(list)
    rng = ctx.rng
    for op in ops:
        if op not in vsa.OPS or vsa.OPS[op]["shape"] not in ("bin", "un", "join", "meet"):
            continue
        n = ctx.pick(4000, 40000)
        for _ in range(n):
            w = rng.choice([1, 2, 3, 3, 4, 4, 5, 6, 8])
            if w <= 4:
                pool = vsa.all_sis(w)
                args = [rng.choice(pool) for _ in range(1 if vsa.OPS[op]["shape"] == "un" else 2)]
            else:
                args = [vsa.rand_si(rng, w) for _ in range(1 if vsa.OPS[op]["shape"] == "un" else 2)]
            r = vsa.run_real(op, args)
            ctx.count()
            o = vsa.oracle(op, args, r, rng)
            if o:
                out[vsa.classify(op, o[0], args)].append((op, args, r, o))
    return out


def replay_case(ctx, prop, obj, extra_oracle=None):
    r = obj["replay"]
    op = r["op"]
    args = [tuple(x) if isinstance(x, list) else x for x in r["args"]]
    res = vsa.run_real(op, args) if op in vsa.OPS else vsa.run_query(op, args)
    print("case:", fmt_line(op, args))
    print("real code returns:", canon(res), " (recorded: %s)" % r.get("observed"))
    if op in vsa.OPS:
        o = vsa.oracle(op, args, res, ctx.rng, limit=4096)
    else:
        o = extra_oracle(op, args, res)
    if o:
        print("VIOLATION property=%s replay=(given)" % prop)
        print("failure:", o[0], "-", o[1], " signature:", vsa.classify(op, o[0], args))
        return 1
    print("no failure on the current tree")
    return 0
