"""C20, two directed stages (the oracle of both is the property's: every answer equals the answer of the same history run alone).

fresh-truth   rounds of T threads asking is_true / is_false about formulas that claripy's own simplifier does not fold but
              z3.simplify decides, built over variables and constants that are NEW in the round, so that no cache of an earlier
              round knows them.  The verdicts are memoised process-wide by AST hash (Backend._true_cache/_false_cache), so a
              solo replay in the SAME process after the concurrent run would only read back what the threads stored: the solo
              reference of this stage runs in a FRESH interpreter (this file run as a script, `--solo`), every history on the
              child's main thread.
gated         "gated out-parameters": the functions of the z3 binding that hand a value back through an out-parameter
              (Z3_get_numeral_uint64, Z3_fpa_get_numeral_sign, ...) are wrapped - in the z3 module, claripy is not touched -
              so that after the original call has returned the calling thread waits for the other thread to have finished
              the same call too (two-party rendezvous with a short timeout: a lone caller passes).  That is the legal schedule
              "both have written before either reads"; two threads with their own solvers evaluate values that differ
              (other numerals, opposite signs).  The solo reference runs afterwards, un-gated.
"""
import json, math, os, random, struct, subprocess, sys, threading, time

HARNESS = os.path.dirname(os.path.dirname(os.path.abspath(__file__)))


def _classes():
    import claripy
    return {"Solver": claripy.Solver, "SolverComposite": claripy.SolverComposite, "SolverCacheless": claripy.SolverCacheless}


def canon_float(v):
    """a float answer as something that compares exactly: the 64-bit pattern, every NaN the same"""
    if isinstance(v, float):
        return "nan" if math.isnan(v) else "f:%016x" % struct.unpack(">Q", struct.pack(">d", v))[0]
    if isinstance(v, (tuple, list)):
        return [canon_float(a) for a in v]
    return v


def canon_values(vals):
    """an eval answer: the SET of values, each compared exactly"""
    return sorted((canon_float(v) for v in vals), key=repr)


def run_items(cls, items):
    """one history over already built expressions -> list of JSON-able answers"""
    import claripy
    s = cls()
    out = []
    for it in items:
        kind = it[0]
        try:
            if kind == "add":
                s.add(it[1]); out.append("ok")
            elif kind == "truth":
                out.append([bool(s.is_true(it[1])), bool(s.is_false(it[1]))])
            elif kind == "sat":
                out.append(bool(s.satisfiable()))
            elif kind == "eval":
                out.append(canon_values(s.eval(it[1], it[2])))
            elif kind == "batch":
                out.append(canon_values([tuple(r) for r in s.batch_eval(it[1], it[2])]))
            elif kind == "min":
                out.append(s.min(it[1]) % (1 << it[1].length))
            elif kind == "max":
                out.append(s.max(it[1]) % (1 << it[1].length))
            elif kind == "simplify":
                s.simplify(); out.append("ok")
            elif kind == "branch":
                s = s.branch(); out.append("ok")
        except claripy.errors.UnsatError:
            out.append("UnsatError")
        except claripy.errors.ClaripyError as ex:
            out.append("ClaripyError:" + type(ex).__name__)
    return json.loads(json.dumps(out))


def describe(it):
    return [it[0]] + [repr(a) if hasattr(a, "op") else ([repr(b) for b in a] if isinstance(a, list) else a) for a in it[1:]]


def run_threads(jobs, switch=None, timeout=900):
    """jobs = [callable]; all started behind one barrier -> (results, errors)"""
    n = len(jobs)
    results, errors = [None] * n, [None] * n
    barrier = threading.Barrier(n)

    def work(i):
        try:
            try:
                barrier.wait(timeout=180)
            except threading.BrokenBarrierError:
                pass            # a late start is a legal schedule as well
            results[i] = jobs[i]()
        except BaseException as ex:  # noqa
            errors[i] = repr(ex)
    old = sys.getswitchinterval()
    if switch is not None:
        sys.setswitchinterval(switch)
    try:
        ts = [threading.Thread(target=work, args=(i,)) for i in range(n)]
        for t in ts:
            t.start()
        for t in ts:
            t.join(timeout=timeout)
    finally:
        sys.setswitchinterval(old)
    return results, errors


# ------------------------------------------------------------------------------------------------ fresh-truth
def _templates():
    import claripy
    # (name, builder(x, y, m, w)); "decided" ones are not folded when the AST is built and z3.simplify reduces them to true/false
    return [
        ("comm", lambda x, y, m, w: (x + m) == (m + x)),
        ("comm2", lambda x, y, m, w: (x + y + m) == (y + m + x)),
        ("excluded-middle", lambda x, y, m, w: claripy.Or(x == m, x != m)),
        ("ult-zero", lambda x, y, m, w: claripy.ULT((x & ~x) + m, m)),
        ("all-ones", lambda x, y, m, w: ((x | ~x) ^ m) == (((1 << w) - 1) ^ m)),
        ("double", lambda x, y, m, w: (x + x + m) == (x * 2 + m)),
        ("xor-comm-ne", lambda x, y, m, w: (x ^ m) != (m ^ x)),
        ("comm-y", lambda x, y, m, w: (y * 3 + m) == (m + y * 3)),
        ("and-le (open)", lambda x, y, m, w: claripy.ULE(x & m, m)),
        ("ugt (open)", lambda x, y, m, w: claripy.UGT(x + m, y)),
        ("ite (open)", lambda x, y, m, w: claripy.If(x == m, x, claripy.BVV(m, w)) == m),
    ]


def build_truth_round(spec):
    """spec = {tag, seed, threads, classes} -> per thread: list of items.  Deterministic: parent and child build the same ASTs."""
    import claripy
    rng = random.Random(spec["seed"])
    w = rng.choice([4, 5, 6])
    tag = spec["tag"]
    x = claripy.BVS("%s_x" % tag, w, explicit_name=True)
    y = claripy.BVS("%s_y" % tag, w, explicit_name=True)
    tpl = _templates()

    def formula():
        name, fn = rng.choice(tpl)
        return fn(x, y, rng.randrange(1, (1 << w) - 1), w)
    shared = [formula() for _ in range(4)]
    hists = []
    for k in range(spec["threads"]):
        items = [("add", claripy.ULT(x, rng.randrange(2, 1 << w))), ("add", y != rng.randrange(1 << w))]
        body = [("truth", formula()) for _ in range(rng.choice([4, 6, 8]))]
        body += [("truth", f) for f in rng.sample(shared, rng.randrange(1, len(shared) + 1))]
        body += [("sat",), ("eval", x + y, 64), ("min", x + rng.randrange(1 << w)), ("max", y), ("add", formula()), ("branch",)]
        rng.shuffle(body)
        hists.append(items + body)
    return hists


def solo_child(specs, timeout=600):
    """the solo reference of the fresh-truth stage, from a fresh interpreter (same claripy: PYTHONPATH is inherited)"""
    p = subprocess.Popen([sys.executable, os.path.abspath(__file__), "--solo"], stdin=subprocess.PIPE, stdout=subprocess.PIPE, text=True)
    p.stdin.write(json.dumps(specs)); p.stdin.close()
    p.stdin = None

    def collect():
        try:
            out, _ = p.communicate(timeout=timeout)
            rc = p.returncode
        except subprocess.TimeoutExpired:
            p.kill(); raise RuntimeError("C20 fresh-truth: the solo child did not finish")
        if rc != 0:
            raise RuntimeError("C20 fresh-truth: the solo child failed (exit %s)" % rc)
        return json.loads(out)
    return collect


def truth_round(spec):
    """-> list of (thread, class name, step, item, concurrent answer or error) for the comparison; concurrent side only"""
    cl = _classes()
    hists = build_truth_round(spec)
    jobs = [(lambda k=k: run_items(cl[spec["classes"][k]], hists[k])) for k in range(spec["threads"])]
    results, errors = run_threads(jobs, switch=spec.get("switch"))
    return hists, results, errors


def compare_truth(ctx, spec, hists, results, errors, solo):
    bad = 0
    for k in range(spec["threads"]):
        cname = spec["classes"][k]
        rep = {"kind": "fresh-truth", "spec": spec, "thread": k}
        if errors[k] is not None or results[k] is None:
            ctx.violation("C20/thread-crashed/%s" % cname, "fresh-truth round %s: thread %d crashed: %s" % (spec["tag"], k, errors[k]), dict(rep, error=errors[k]))
            bad += 1
            continue
        if results[k] != solo[k]:
            j = next(i for i in range(len(solo[k])) if results[k][i] != solo[k][i])
            it = hists[k][j]
            cls_ = it[0]
            if it[0] == "truth":
                cls_ = "truth/" + ("z3-decided-formula" if (solo[k][j][0] or solo[k][j][1]) else "open-formula")
            ctx.violation("C20/answer-differs/%s/%s" % (cname, cls_),
                          "with %d threads (formulas new in this round), thread %d (%s) step %d %r answered %r; alone, in a fresh interpreter, it answers %r"
                          % (spec["threads"], k, cname, j, describe(it), results[k][j], solo[k][j]),
                          dict(rep, step=j, item=describe(it), concurrent=repr(results[k][j]), solo=repr(solo[k][j])))
            bad += 1
    return bad


def truth_stage(ctx, rounds):
    rng = ctx.rng
    specs = []
    for r in range(rounds):
        T = rng.choice([2, 2, 3, 4, 8]) if not ctx.thorough() else rng.choice([2, 3, 4, 8, 12])
        specs.append({"tag": "tr%d_%d" % (ctx.seed, r), "seed": rng.randrange(1 << 30), "threads": T,
                      "classes": [rng.choice(["Solver", "Solver", "SolverComposite", "SolverCacheless"]) for _ in range(T)],
                      "switch": rng.choice([1e-6, 1e-5, 1e-4, 5e-3])})
    collect = solo_child(specs)          # runs while the threads run here
    conc = [truth_round(spec) for spec in specs]
    solo = collect()
    asked = decided = 0
    for spec, (hists, results, errors), so in zip(specs, conc, solo):
        compare_truth(ctx, spec, hists, results, errors, so)
        for k in range(spec["threads"]):
            ctx.count(); ctx.distinct(("truth", spec["tag"], k))
            for it, a in zip(hists[k], so[k]):
                if it[0] == "truth":
                    asked += 1
                    decided += bool(a[0] or a[1])
    return {"rounds": rounds, "thread_runs": sum(s["threads"] for s in specs), "formulas_asked": asked, "decided_by_z3_alone": decided}


def replay_truth(rep):
    import claripy
    spec = rep["spec"]
    # as in the check, the round is not the first use of the process: another thread has asked (and ended) before
    u = claripy.BVS("replay_warm", 6, explicit_name=True)
    run_threads([lambda: run_items(claripy.Solver, [("truth", (u + 7) == (7 + u)), ("truth", claripy.ULT((u & ~u) + 7, 7))])])
    collect = solo_child([spec])
    hists, results, errors = truth_round(spec)
    solo = collect()[0]
    bad = 0
    for k in range(spec["threads"]):
        if errors[k] is not None or results[k] != solo[k]:
            bad += 1
            if errors[k] is not None:
                print("thread %d crashed: %s" % (k, errors[k])); continue
            for j, (a, b) in enumerate(zip(results[k], solo[k])):
                if a != b:
                    print("thread %d (%s) step %d %r: concurrently %r, alone (fresh interpreter) %r" % (k, spec["classes"][k], j, describe(hists[k][j]), a, b))
    print("fresh-truth round %s, %d threads: %d thread(s) answered differently from their solo run" % (spec["tag"], spec["threads"], bad))
    return 1 if bad else 0


# ------------------------------------------------------------------------------------------------ gated out-parameters
def out_parameter_functions():
    """names of the z3 binding functions that return a value through a pointer to a scalar (found from the ctypes signatures)"""
    import ctypes, inspect
    from z3 import z3core
    scal = (ctypes.c_int, ctypes.c_uint, ctypes.c_int64, ctypes.c_uint64, ctypes.c_double, ctypes.c_long, ctypes.c_ulong, ctypes.c_longlong, ctypes.c_ulonglong)
    ptrs = tuple(ctypes.POINTER(t) for t in scal)
    names = []
    for n in dir(z3core):
        f = getattr(z3core, n)
        if not (n.startswith("Z3_") and "_get_" in n and inspect.isfunction(f)):
            continue
        d = f.__defaults__
        if d and isinstance(d[-1], z3core.Elementaries) and any(a in ptrs for a in (d[-1].f.argtypes or [])):
            names.append(n)
    return names


class Rendezvous:
    """per function name a two-party meeting point; a caller that stays alone for `timeout` seconds passes (never an error)"""

    def __init__(self, timeout=0.25):
        self.cv = threading.Condition()
        self.timeout = timeout
        self.members = set()     # thread idents taking part; everybody else passes straight through
        self.waiting = {}        # name -> generation number of the thread waiting there
        self.gen = 0
        self.met = 0
        self.lone = 0

    def join(self):
        with self.cv:
            self.members.add(threading.get_ident())

    def leave(self):
        with self.cv:
            self.members.discard(threading.get_ident())
            self.cv.notify_all()

    def arrive(self, name):
        me = threading.get_ident()
        with self.cv:
            if me not in self.members or len(self.members) < 2:
                return
            if name in self.waiting:             # the other thread has finished the same call: both go on
                del self.waiting[name]
                self.met += 1
                self.cv.notify_all()
                return
            self.gen += 1
            g = self.waiting[name] = self.gen
            end = time.monotonic() + self.timeout
            while self.waiting.get(name) == g and len(self.members) >= 2:
                rem = end - time.monotonic()
                if rem <= 0:
                    break
                self.cv.wait(rem)
            if self.waiting.get(name) == g:
                del self.waiting[name]
                self.lone += 1


class gated_out_parameters:
    """context manager: wraps the out-parameter functions in the z3 modules, restores the originals on exit"""

    def __init__(self, timeout=0.25):
        self.rv = Rendezvous(timeout)
        self.saved = []

    def __enter__(self):
        import z3
        import z3.z3 as zz
        from z3 import z3core
        for name in out_parameter_functions():
            real = getattr(z3core, name)

            def gated(*a, _real=real, _name=name, **kw):
                r = _real(*a, **kw)
                self.rv.arrive(_name)
                return r
            for mod in (z3, zz, z3core):
                if getattr(mod, name, None) is real:
                    self.saved.append((mod, name, real))
                    setattr(mod, name, gated)
        return self.rv

    def __exit__(self, *exc):
        for mod, name, real in self.saved:
            setattr(mod, name, real)
        self.saved = []
        return False


FP_MAGS = [1.5, 2.75, 6.0, 0.1, 1e-40, 3.0e38, 12345.678, 2.0 ** -130, 7.0, 1.0 / 3.0]


def build_gated_pair(spec):
    """two histories of the same shape over SHARED variables, pinning them to different numerals / floating-point values of opposite sign"""
    import claripy
    rng = random.Random(spec["seed"])
    w = rng.choice([8, 16, 32, 64, 64])
    sort = rng.choice([claripy.FSORT_FLOAT, claripy.FSORT_DOUBLE])
    tag = spec["tag"]
    x = claripy.BVS("%s_x" % tag, w, explicit_name=True)
    y = claripy.BVS("%s_y" % tag, w, explicit_name=True)
    f = claripy.FPS("%s_f" % tag, sort, explicit_name=True)
    g = claripy.FPS("%s_g" % tag, sort, explicit_name=True)
    sgn = rng.choice([1.0, -1.0])
    shape = [rng.choice(["evx", "evxy", "evf", "evnegf", "evfg", "evbits", "batch", "minx", "maxy", "sat", "simplify", "evg", "evfbv"])
             for _ in range(rng.choice([6, 10, 14]))]
    hists = []
    for k in range(2):
        cx, cy = rng.randrange(1 << w), rng.randrange(1 << w)
        cf = (sgn if k == 0 else -sgn) * rng.choice(FP_MAGS)
        cg = (-sgn if k == 0 else sgn) * rng.choice(FP_MAGS)
        items = [("add", x == cx), ("add", y == cy), ("add", f == claripy.FPV(cf, sort)), ("add", g == claripy.FPV(cg, sort))]
        for sh in shape:
            items.append({"evx": ("eval", x, 2), "evxy": ("eval", x + y, 2), "evf": ("eval", f, 3), "evnegf": ("eval", -f, 3),
                          "evfg": ("eval", f * g, 3), "evbits": ("eval", x ^ (y >> 1), 2), "batch": ("batch", [x, f, y, g], 3),
                          "minx": ("min", x), "maxy": ("max", y), "sat": ("sat",), "simplify": ("simplify",), "evg": ("eval", claripy.fpAbs(g) + f, 3),
                          "evfbv": ("eval", claripy.fpToIEEEBV(f), 2)}[sh])
        hists.append(items)
    return hists


def gated_pair(spec):
    cl = _classes()
    hists = build_gated_pair(spec)
    with gated_out_parameters(spec.get("timeout", 0.25)) as rv:
        def job(k):
            rv.join()
            try:
                return run_items(cl[spec["classes"][k]], hists[k])
            finally:
                rv.leave()
        results, errors = run_threads([lambda: job(0), lambda: job(1)])
    solo = [run_items(cl[spec["classes"][k]], hists[k]) for k in range(2)]      # un-gated, alone
    return hists, results, errors, solo, rv


def gated_stage(ctx, pairs):
    rng = ctx.rng
    met = lone = 0
    for r in range(pairs):
        c0 = rng.choice(["Solver", "Solver", "SolverComposite", "SolverCacheless"])
        spec = {"tag": "g%d_%d" % (ctx.seed, r), "seed": rng.randrange(1 << 30),
                "classes": [c0, c0 if rng.random() < 0.75 else rng.choice(["Solver", "SolverComposite", "SolverCacheless"])]}
        hists, results, errors, solo, rv = gated_pair(spec)
        met += rv.met; lone += rv.lone
        for k in range(2):
            ctx.count(); ctx.distinct(("gated", spec["tag"], k))
            cname = spec["classes"][k]
            rep = {"kind": "gated", "spec": spec, "thread": k}
            if errors[k] is not None or results[k] is None:
                ctx.violation("C20/thread-crashed/%s" % cname, "gated out-parameters, pair %s: thread %d crashed: %s" % (spec["tag"], k, errors[k]), dict(rep, error=errors[k]))
                continue
            if results[k] != solo[k]:
                solo2 = run_items(_classes()[cname], hists[k])
                if solo2 != solo[k]:
                    ctx.notes.append("gated pair %s: the solo replay itself is not deterministic" % spec["tag"])
                    continue
                j = next(i for i in range(len(solo[k])) if results[k][i] != solo[k][i])
                ctx.violation("C20/answer-differs/%s/%s/gated-out-parameters" % (cname, hists[k][j][0]),
                              "two threads with their own solvers, each held after every z3 out-parameter call until the other has made the same call: "
                              "thread %d (%s) step %d %r answered %r; alone it answers %r" % (k, cname, j, describe(hists[k][j]), results[k][j], solo[k][j]),
                              dict(rep, step=j, item=describe(hists[k][j]), concurrent=repr(results[k][j]), solo=repr(solo[k][j])))
    return {"pairs": pairs, "rendezvous": met, "lone_passes": lone, "functions_gated": out_parameter_functions()}


def replay_gated(rep):
    spec = rep["spec"]
    hists, results, errors, solo, rv = gated_pair(spec)
    bad = 0
    for k in range(2):
        if errors[k] is not None:
            print("thread %d crashed: %s" % (k, errors[k])); bad += 1; continue
        for j, (a, b) in enumerate(zip(results[k], solo[k])):
            if a != b:
                bad += 1
                print("thread %d (%s) step %d %r: gated with the other thread %r, alone %r" % (k, spec["classes"][k], j, describe(hists[k][j]), a, b))
    print("gated out-parameters, pair %s: %d rendezvous, %d lone passes, %d answer(s) differ from the solo run" % (spec["tag"], rv.met, rv.lone, bad))
    return 1 if bad else 0


# ------------------------------------------------------------------------------------------------ child
def _child():
    specs = json.load(sys.stdin)
    cl = _classes()
    out = []
    for spec in specs:
        hists = build_truth_round(spec)
        out.append([run_items(cl[spec["classes"][k]], hists[k]) for k in range(spec["threads"])])
    json.dump(out, sys.stdout)


if __name__ == "__main__":
    if sys.argv[1:] == ["--solo"]:
        _child()
