"""names of the Lean theorems (obligations) and bounded Lean tests of the VSA family"""
P21 = "Claripy.Props.C21."
P22 = "Claripy.Props.C22."
V = "Claripy.VSA."
THEOREMS_C21 = [P21 + n for n in ("C21_add_sound", "C21_add_closed", "C21_sub_sound", "C21_sub_closed", "C21_neg_sound",
                                  "C21_not_sound", "C21_zext_sound", "C21_ucmp_sound", "C21_scmp_sound", "C21_cast_low_sound", "C21_extract_sound", "C21_sext_sound", "C21_udiv_sound", "C21_lshr_sound", "C21_shl_sound", "C21_or_sound", "C21_warren_bounds", "C21_and_sound", "C21_xor_sound", "C21_concat_sound", "C21_ashr_sound", "C21_eq_sound", "eq_unaligned_unsound", "C21_mul_aligned", "C21_mul_closed", "C21_mod_sound_partial", "C21_mod_sound", "C21_mod_full_holds",
                                  "sdiv_unsound", "mul_unaligned_unsound",
                                  "C21_add_aligned", "C21_sub_aligned", "C21_neg_not_aligned", "C21_or_aligned", "C21_and_xor_aligned", "C21_mul_result_aligned", "C21_udiv_aligned", "C21_mod_aligned", "C21_shift_aligned", "C21_cast_low_aligned", "C21_extract_aligned", "C21_ext_aligned", "C21_concat_aligned")] + \
               [V + n for n in ("ssplit_spec", "ssplit_wrap", "not_sound", "zext_sound", "ucmp_sound", "cmpWith_sound",
                                "unsignedBounds_spec", "not_piece_mem", "widen_bits_mem",
                                "udiv_sound", "wudiv_piece", "overRange_sup", "rshiftLogicalK_sound", "rshift_piece_mem", "lshr_sound",
                                "lshiftK_sound", "shl_sound", "getShiftRange_covers",
                                "nsplit_straddle", "signedBounds_spec", "scmp_sound", "toSigned_nat", "new_renorm",
                                "castLow_sound", "extract_sound", "ntz_dvd",
                                "sext_sound", "sext_piece", "nsplit_cover", "msb_all", "sextKeeps_sound", "sext_val")] + \
               [V + n for n in ("add_sound", "add_WF", "sub_sound", "sub_WF", "neg_sound", "neg_WF", "mem_new", "mem_top", "new_WF",
                                "overflow_false", "cd_add", "cd_sub", "lastMember_facts", "wrappedCard_nat",
                                "minOr_le", "le_maxOr", "minOrLoop_le", "maxOrLoop_ge", "or_core", "orPiece_spec", "or_sound", "and_sound", "xor_sound", "andTry_spec", "psplit_spec", "psplit_eq", "ssplit_halves",
                                "concat_sound", "zeroExtend_bounds", "pj_low", "lshiftK_multiples",
                                "ashr_sound", "rshiftArithK_sound", "ashrPiece_spec", "ashr_roundTo", "rshiftArithK_succ", "unionLoop_sup",
                                "mul_sound", "mulPair_sound", "umul_piece", "smul_piece", "prod_interval", "finInterval", "psplit_aligned", "mul_eq", "mulOuter_mem",
                                "mod_sound", "modPair_sound", "udivPiece_spec", "mod_eq",
                                "aligned_of_mem_ub", "mem_ub_of_aligned", "new_aligned_of_mem", "add_aligned", "sub_aligned", "neg_aligned", "not_aligned", "zext_aligned", "shl_aligned", "lshr_aligned", "lshiftK_aligned", "rshiftLogicalK_aligned", "overRange_aligned", "castLow_aligned", "extract_aligned", "udiv_aligned", "mul_aligned", "mod_aligned", "orPiece_aligned", "or_aligned", "and_aligned", "xor_aligned", "ashr_aligned", "ashrPiece_aligned", "rshiftArithK_aligned", "sext_aligned", "concat_aligned", "lshiftK_aligned_of", "mod_sound_full", "modPair_full", "mul_single_sound", "mulPair_single", "multiMeet_self", "multiMeet_WF", "umul_single_WF", "umul_single_eq", "umul_single_mem", "smul_single_WF", "smul_single_eq", "psplit_nostraddle", "udivPiece_lb", "isSurrounded_self")]
TESTS_C21 = [P21 + "test_add_example"]
THEOREMS_C22 = [P22 + n for n in ("C22_top_mem", "C22_new_mem", "C22_pseudo_join_sup", "C22_lub_sup", "C22_union_sup",
                                  "C22_members_exact", "C22_cardinality_exact", "C22_solution_exact", "C22_eval_exact", "C22_min_max_bound", "C22_min_exact", "C22_max_exact_aligned", "C22_signed_min_max_bound",
                                  "widen_unsound", "widen_wrap_unsound", "widen_offset_unsound",
                                  "meet_unaligned_unsound", "max_unaligned_wrong", "C22_meet_aligned", "C22_meet_closed", "meet_nonnormal_unsound",
                                  "C22_join_aligned", "C22_meet_result_aligned", "widen_breaks_alignment", "C22_eval_signed_exact", "C22_meet_two_pieces", "C22_meet_nonwrapping")] + \
               [V + n for n in ("pseudoJoin_sup", "pseudoJoin_WF", "lub_sup", "union_sup", "contain_abs", "overlap_abs", "disjoint_abs",
                                "isSurrounded_true", "isSurrounded_false", "reduceJoin_sup", "renorm_mem",
                                "mem_members", "members_nodup", "cardinality_exact", "solution_exact", "multiMeet_int",
                                "eval_exact", "evalLoop_spec", "min_le", "le_max", "smin_le", "le_smax", "min_attained", "max_attained", "mem_ub", "signedBounds_spec", "unsignedBounds_spec",
                                "meet_sound", "multiMeet_sound", "multiMeet_proper_sound", "mci_order", "minimalCommonInteger_spec", "mci_spec", "diop_spec", "diopCore_spec", "extendedEuclid_spec",
                                "geo_C1", "geo_C2", "geo_C3a", "geo_C3b", "geo_C3c", "geo_C4", "geo_C5", "geo_C6", "geo_C7", "geo_none", "aligned_two", "meetFrom_mem",
                                "pseudoJoin_aligned", "pseudoJoin_ub", "lub_aligned", "union_aligned", "multiMeet_aligned", "meet_aligned", "meetFin_aligned", "eval_signed_exact", "evalLoop_specI", "ti_arc_nostraddle", "ti_arc_A", "ti_arc_B", "meet_sound_tp", "multiMeet_sound_tp", "multiMeet_proper_sound_tp", "meet_single_tp", "meet_sound_nowrap")]
TESTS_C22 = [P22 + "test_join_example"]
