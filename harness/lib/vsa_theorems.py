"""names of the Lean theorems (obligations) and bounded Lean tests of the VSA family"""
THEOREMS_C21 = []
TESTS_C21 = ["Claripy.Props.C21.test_add_example"]
THEOREMS_C22 = []
TESTS_C22 = []
