"""C23: correspondence of the set-level model functions of lean/Claripy/VSA/SetOps.lean with the real
DiscreteStridedIntervalSet / ValueSet methods.

Every function a theorem of lean/ClaripyProofs/Props/C23.lean is stated about is run by the driver (`so ...` / `vs ...`
request lines, lean/DriverVSA/SetOpsCmd.lean) on the operands the real method runs on, and the two results are compared exactly
(canonical strings: members of a set sorted, regions of a value set sorted by name, BoolResult class, the list of `eval`).

The model takes every Python-set iteration order as an input (the theorems hold for every order).  The orders are recorded on
the real objects: the members of the operands are sent in the iteration order of the real `_si_set`; the order of a result set
/ of the set of partial results inside an operation is read off a replica of the loop that builds it (same insertions in the
same sequence on the same hashes => same table, same order — the convention of `ds_line` in props/C23.py and of
`vsa_check.set_order`).  Where the method keeps working on an object it built itself (`_union_with_dsis`), the replica is the
method's own loop, step by step, on the real objects.
"""
import collections
import itertools
import random

from lib import vsa, vsa_sets as vs
from lib import vsa_check as vc

CMPS = ("eq", "ne", "ULT", "ULE", "UGT", "UGE", "SLT", "SLE", "SGT", "SGE")
# model function (SetOps.lean / DSIS.lean) and the Python method it transcribes, per request name
TRANSCRIBES = {
    **{c: "DSIS.cmp  <-  DiscreteStridedIntervalSet.%s" % ("__%s__" % c if c in ("eq", "ne") else c) for c in CMPS},
    "widen": "DSIS.widen  <-  DiscreteStridedIntervalSet.widen",
    "sdiv": "DSIS.sdiv  <-  DiscreteStridedIntervalSet.sdiv",
    "udiv": "DSIS.udivSet  <-  DiscreteStridedIntervalSet.__floordiv__",
    "rsub": "DSIS.rsub  <-  DiscreteStridedIntervalSet.__rsub__",
    "rudiv": "DSIS.rudiv  <-  DiscreteStridedIntervalSet.__rfloordiv__",
    "rmod": "DSIS.rmod  <-  DiscreteStridedIntervalSet.__rmod__",
    "evalc": "DSIS.evalCandidates  <-  si.eval(n) of every member in iteration order (what the loop of eval draws from)",
    "eval": "DSIS.eval  <-  DiscreteStridedIntervalSet.eval",
    "unionSI": "DSIS.unionSI  <-  DiscreteStridedIntervalSet.union (interval) / _union_with_si",
    "unionDS": "DSIS.unionDS  <-  DiscreteStridedIntervalSet.union (set) / _union_with_dsis",
    "meetSI": "DSIS.meetSI  <-  DiscreteStridedIntervalSet.intersection (interval) / _intersection_with_si",
    "meetDS": "DSIS.meetDS  <-  DiscreteStridedIntervalSet.intersection (set) / _intersection_with_dsis",
    "vs.add": "VS.mapRegions (s.add b)  <-  ValueSet.__add__ (interval)",
    "vs.sub": "VS.mapRegions (s.sub b)  <-  ValueSet.__sub__ (interval)",
    "vs.mod": "VS.mapRegions (s.mod b)  <-  ValueSet.__mod__ (interval)",
    "vs.unionSI": "VS.unionSI  <-  ValueSet.union (interval)",
    "vs.widenSI": "VS.widenSI  <-  ValueSet.widen (interval)",
    "vs.meetSI": "VS.meetSI  <-  ValueSet.intersection (interval)",
    "vs.unionVS": "VS.unionVS  <-  ValueSet.union (value set)",
    "vs.widenVS": "VS.widenVS  <-  ValueSet.widen (value set)",
    "vs.meetVS": "VS.meetVS  <-  ValueSet.intersection (value set)",
}


def key(t):
    return (t.bits, t.lower_bound, t.upper_bound, t.stride, t.is_empty)


def distinct_keys(ins):
    dist = []
    for t in ins:
        k = key(t)
        if k not in dist:
            dist.append(k)
    return dist


def order_of(ins, st):
    """iteration order of the Python set `st` as indices into the distinct elements of `ins` (insertion order)"""
    dist = distinct_keys(ins)
    return [dist.index(key(t)) for t in st]


def fmt_si(s):
    return vc.fmt_arg(vsa.tup(s))


def fmt_sis(l):
    return " , ".join(fmt_si(s) for s in l)


def fmt_orders(orders):
    return " / ".join(" ".join(str(i) for i in o) for o in orders)


def canon_str(c):
    """the alphabet of the driver's answers (same as canon_str of props/C23.py, plus lists and value sets)"""
    if c[0] == "si":
        return "si " + vc.canon(c[1])
    if c[0] == "dsis":
        return "dsis %d : %s" % (c[1], " , ".join("%d %d %d %d" % t for t in c[2]))
    if c[0] == "bool":
        return "bool:" + c[1]
    if c[0] == "list":
        return "list " + ",".join(str(x) for x in c[1])
    if c[0] == "vs":
        return "vs %d : %s | %s" % (c[1], " , ".join("%s %s" % (r, vc.canon(t)) for r, t in c[2]), vc.canon(c[3]))
    if c[0] == "err":
        return "err:" + c[1]
    if c[0] == "val":
        return "int %s" % c[1] if isinstance(c[1], int) and not isinstance(c[1], bool) else str(c[1])
    return str(c)


def quiet(fn, default):
    try:
        return fn()
    except RecursionError:
        return default
    except Exception:  # noqa  (the real operation raises the same way; the model fails before it uses the order)
        return default


def collapsed_tuple(x):
    return vsa.tup(x.collapse() if isinstance(x, vs.DS()) else x)


# ---------------------------------------------------------------------------------------------- sets
def ds_request(fn, A, B, extra):
    """-> (request line, canonical string of the real result) or None when an iteration order is not expressible.
    A: ('d', w, [tuples]); B: None | ('d', w, [tuples]) | ('s', tuple)."""
    DS = vs.DS()
    w = A[1]
    a = vs.mk_dsis(w, A[2])
    a_list = list(a._si_set)
    b, b_list = None, None
    if B is not None:
        if B[0] == "d":
            b = vs.mk_dsis(B[1], B[2]); b_list = list(b._si_set)
        else:
            b = vsa.mk(B[1]); b_list = [b]
    orders = [[0]]
    if fn in CMPS:
        real = vs.call(vs.DS_CMP[fn][0], a, b)
    elif fn == "widen":
        real = vs.call(lambda p, q: p.widen(q), a, b)
    elif fn == "sdiv":
        orders = [quiet(lambda: vc.set_order("sdiv", collapsed_tuple(a), collapsed_tuple(b)), [0])]
        real = vs.call(lambda p, q: p.sdiv(q), a, b)
    elif fn == "rudiv":
        orders = [quiet(lambda: vc.set_order("udiv", vsa.tup(b), collapsed_tuple(a)), [0])]
        real = vs.call(lambda p, q: q // p, a, b)
    elif fn == "rmod":
        real = vs.call(lambda p, q: q % p, a, b)
    elif fn == "rsub":
        def rec():
            ins, st = [], set()
            for x in a_list:
                t = -x; ins.append(t); st.add(t)
            o1 = order_of(ins, st)
            n = DS(bits=w, si_set=st).normalize()
            o2 = [0]
            if isinstance(n, DS):
                ins2, st2 = [], set()
                for x in n._si_set:
                    t = x + b; ins2.append(t); st2.add(t)
                o2 = order_of(ins2, st2)
            return [o1, o2]
        orders = quiet(rec, [[0], [0]])
        real = vs.call(lambda p, q: q - p, a, b)
    elif fn == "evalc":
        n = extra[0]
        real = vs.call(lambda p: [v for si in a_list for v in si.eval(n)], a)
    elif fn == "eval":
        n = extra[0]

        def rec():
            ins, ret = [], set()
            for si in a_list:
                l = si.eval(n)
                ins.extend(l); ret |= set(l)
                if len(ret) >= n:
                    break
            dist = list(dict.fromkeys(ins))
            return [[dist.index(v) for v in ret]]
        orders = quiet(rec, [[0]])
        real = vs.call(lambda p: p.eval(n), a)
    elif fn == "unionSI":
        # the method only ever iterates its own copy of the set: the members are sent in the copy's order
        a_list = list(a._si_set.copy())

        def rec():
            c = a._si_set.copy()
            if [key(t) for t in c] != [key(t) for t in a_list]:
                return None
            s = b
            if s in c:
                c.discard(s); s = s.nameless_copy()
            c.add(s)
            return [order_of(a_list + [b], c)]
        orders = quiet(rec, [[0]])
        real = vs.call(lambda p, q: p.union(q), a, b)
    elif fn == "unionDS":
        from claripy.backends.backend_vsa.bool_result import BoolResult

        a_list = list(a._si_set.copy())

        def rec():
            out = []
            copied = a.copy()
            if [key(t) for t in copied._si_set] != [key(t) for t in a_list]:
                return None
            for x in b_list:
                o = [0]
                if isinstance(copied, DS):
                    before = list(copied._si_set)
                    found = x.is_empty or any(BoolResult.is_true(m == x) for m in before)
                    if not found:
                        c = copied._si_set.copy()
                        s = x
                        if s in c:
                            c.discard(s); s = s.nameless_copy()
                        c.add(s)
                        o = order_of(before + [x], c)
                    nxt = copied.union(x)
                    if found and [key(t) for t in nxt._si_set] != [key(t) for t in before]:
                        return None          # the copy iterates in another order than its source: not expressible in the model
                    copied = nxt
                else:
                    copied = copied.union(x)
                out.append(o)
            return out
        orders = quiet(rec, [[0]] * len(b_list))
        real = vs.call(lambda p, q: p.union(q), a, b)
    elif fn == "meetSI":
        def rec():
            ins, st = [], set()
            for x in a_list:
                t = x.intersection(b); ins.append(t); st.add(t)
            return [order_of(ins, st)]
        orders = quiet(rec, [[0]])
        real = vs.call(lambda p, q: p.intersection(q), a, b)
    elif fn == "meetDS":
        def rec():
            out, ins_all, new = [], [], set()
            for s in b_list:
                ins, st = [], set()
                for x in a_list:
                    t = x.intersection(s); ins.append(t); st.add(t)
                out.append(order_of(ins, st))
                r = DS(bits=w, si_set=st)
                r = r.collapse() if r.should_collapse() else r
                if isinstance(r, DS):
                    ins_all.extend(r._si_set); new |= r._si_set
                elif not r.is_empty:
                    ins_all.append(r); new.add(r)
            out.append(order_of(ins_all, new))
            return out
        orders = quiet(rec, [[0]] * (len(b_list) + 1))
        real = vs.call(lambda p, q: p.intersection(q), a, b)
    elif fn == "udiv":
        def rec():
            out, ins, st = [], [], set()
            for x in a_list:
                for y in b_list:
                    out.append(vc.set_order("udiv", vsa.tup(x), vsa.tup(y)))
            for x in a_list:
                for y in b_list:
                    t = x // y; ins.append(t); st.add(t)
            out.append(order_of(ins, st))
            return out
        orders = quiet(rec, None)
        if orders is None:          # a pair raises: the per-pair orders up to it, the rest is never read
            orders = [quiet(lambda x=x, y=y: vc.set_order("udiv", vsa.tup(x), vsa.tup(y)), [0]) for x in a_list for y in b_list] + [[0]]
        real = vs.call(lambda p, q: p // q, a, b)
    else:
        raise KeyError(fn)
    if orders is None:
        return None
    fb = "-" if B is None else ("D " + fmt_sis(b_list) if B[0] == "d" else "S " + fmt_si(b))
    line = "so %s %d ; %s ; %s ; %s ; %s" % (fn, w, fmt_sis(a_list), fb, " ".join(str(e) for e in extra), fmt_orders(orders))
    return line, canon_str(real)


# ---------------------------------------------------------------------------------------------- value sets
VS_SI = {"add": lambda p, q: p + q, "sub": lambda p, q: p - q, "mod": lambda p, q: p % q,
         "unionSI": lambda p, q: p.union(q), "widenSI": lambda p, q: p.widen(q), "meetSI": lambda p, q: p.intersection(q)}
VS_VS = {"unionVS": lambda p, q: p.union(q), "widenVS": lambda p, q: p.widen(q), "meetVS": lambda p, q: p.intersection(q)}
VS_CMD = {"add": "add", "sub": "sub", "mod": "mod", "unionSI": "union", "widenSI": "widen", "meetSI": "intersection",
          "unionVS": "union", "widenVS": "widen", "meetVS": "intersection"}


def fmt_regions(v):
    return " , ".join("%s %s" % (r, fmt_si(s)) for r, s in v.regions.items())


def vs_request(fn, A, B):
    """A: ('v', w, {region: tuple}[, summary]); B: ('s', tuple) | ('v', w, {region: tuple}[, summary]).
    A value set is built like the VSA backend builds it (vs.mk_vs: `_merge_si` per region, the summary interval is the join of
    the regions); with a fourth component the summary interval is replaced afterwards — the state of a value set that went
    through `intersection` / `-` / `%`, where regions are deleted or changed and the summary is updated on its own."""
    a = vs.mk_vs(A[1], A[2])
    if len(A) > 3:
        a._si = vsa.mk(A[3])
    if B[0] == "v":
        b = vs.mk_vs(B[1], B[2])
        if len(B) > 3:
            b._si = vsa.mk(B[3])
        tail = "V ; %s ; %s" % (fmt_regions(b), fmt_si(b._si))
        real = vs.call(VS_VS[fn], a, b)
    else:
        b = vsa.mk(B[1])
        tail = "S ; ; %s" % fmt_si(b)
        real = vs.call(VS_SI[fn], a, b)
    line = "vs %s %d ; %s ; %s ; %s" % (VS_CMD[fn], A[1], fmt_regions(a), fmt_si(a._si), tail)
    return line, canon_str(real)


# ---------------------------------------------------------------------------------------------- operands
SET_ANY = list(CMPS) + ["widen", "sdiv", "udiv"]          # second operand: a set or an interval
SET_SI = ["rsub", "rudiv", "rmod", "unionSI", "meetSI"]   # second operand: an interval
SET_DS = ["unionDS", "meetDS"]                            # second operand: a set
EVAL_N = (0, 1, 2, 3, 5, 64)
REG = ["global", "stack", "heap"]


def gen(ctx, rng):
    """(kind, fn, A, B, extra); built with the generators of the C23 cases (vsa.all_sis pools, vsa.rand_si)"""
    cases = []
    pool1, pool2, pool3 = vsa.all_sis(1), vsa.all_sis(2), vsa.all_sis(3)
    pools = {1: pool1, 2: pool2, 3: pool3}
    sets1 = [("d", 1, list(c)) for k in (1, 2, 3) for c in itertools.combinations(pool1, k)]

    def binary(A, B):
        for fn in SET_ANY + (SET_SI if B[0] == "s" else SET_DS):
            cases.append(("d", fn, A, B, ()))

    def unary(A):
        for n in EVAL_N:
            cases.append(("d", "evalc", A, None, (n,)))
            cases.append(("d", "eval", A, None, (n,)))

    # width 1: every set, every pair of sets, every set with every interval (and with the empty interval)
    for A in sets1:
        unary(A)
        for B in sets1 + [("s", t) for t in pool1] + [("s", "bottom:1")]:
            binary(A, B)

    def rand_set(w, kmax, p_bottom=0.08):
        if w in pools:
            ts = rng.sample(pools[w], rng.randrange(1, kmax + 1))
        else:
            ts = [vsa.rand_si(rng, w) for _ in range(rng.randrange(1, kmax + 1))]
        if rng.random() < p_bottom:
            ts.insert(rng.randrange(len(ts) + 1), "bottom:%d" % w)
        return ("d", w, ts)

    def rand_si(w, p_bottom=0.04):
        if rng.random() < p_bottom:
            return ("s", "bottom:%d" % w)
        return ("s", rng.choice(pools[w]) if w in pools else vsa.rand_si(rng, w))

    # widths 2-4: sampled sets of up to 4 members
    for _ in range(ctx.pick(260, 5000)):
        w = rng.choice([2, 2, 3, 3, 3, 4])
        A = rand_set(w, 4)
        binary(A, rand_si(w))
        B = rand_set(w, 3)
        if rng.random() < 0.3:          # operands that share members (the duplicate branch of _union_with_si, common parts of a meet)
            B = ("d", w, list(dict.fromkeys(B[2] + rng.sample(A[2], 1))))
        binary(A, B)
        if rng.random() < 0.3:
            binary(A, ("s", rng.choice(A[2])))
        unary(A)
    # wide members: normalize() collapses above 256 values, so the recorded orders decide the result
    for _ in range(ctx.pick(70, 1500)):
        w = rng.choice([8, 8, 9, 16, 32])
        A = rand_set(w, 4, p_bottom=0.03)
        binary(A, rand_si(w, p_bottom=0.02))
        binary(A, rand_set(w, 3, p_bottom=0.03))
        if rng.random() < 0.5:
            for n in (1, 3, 64, 300):
                cases.append(("d", "evalc", A, None, (n,)))
                cases.append(("d", "eval", A, None, (n,)))
    # value sets
    for _ in range(ctx.pick(450, 9000)):
        w = rng.choice([2, 3, 3, 4, 8])
        pick = (lambda: rng.choice(pools[w])) if w in pools else (lambda: vsa.rand_si(rng, w))
        A = ("v", w, {r: pick() for r in rng.sample(REG, rng.choice([0, 1, 1, 2, 3]))})
        if rng.random() < 0.3:
            A = A + (pick() if rng.random() < 0.9 else "bottom:%d" % w,)
        Bs = ("s", "bottom:%d" % w) if rng.random() < 0.03 else ("s", pick())
        for fn in VS_SI:
            cases.append(("v", fn, A, Bs, ()))
        regs = rng.sample(REG, rng.choice([0, 1, 2, 3]))
        Bv = ("v", w, {r: (A[2][r] if r in A[2] and rng.random() < 0.25 else pick()) for r in regs})
        if rng.random() < 0.3:
            Bv = Bv + (pick() if rng.random() < 0.9 else "bottom:%d" % w,)
        for fn in VS_VS:
            cases.append(("v", fn, A, Bv, ()))
    return cases


def run(ctx, extra_counts=None):
    """compare, report broken ties, fill the coverage record; returns the per-function counts"""
    rng = random.Random(ctx.rng.getrandbits(64))
    cases = gen(ctx, rng)
    lines, expect, names = [], [], []
    skipped = collections.Counter()
    for kind, fn, A, B, extra in cases:
        name = fn if kind == "d" else "vs." + fn
        req = ds_request(fn, A, B, extra) if kind == "d" else vs_request(fn, A, B)
        if req is None:
            skipped[name] += 1
            continue
        lines.append(req[0]); expect.append(req[1]); names.append(name)
    try:
        outs = ctx.driver(lines, exe="driver_vsa") if lines else []
    except RuntimeError as e:
        ctx.tie_broken("corr:setops:driver_vsa", str(e)[:300])
        outs = ["unmodelled"] * len(lines)
    compared = collections.Counter()
    errors = collections.Counter()
    disagree = {}
    for line, m, r, name in zip(lines, outs, expect, names):
        if m in ("unmodelled", "bad-op", "bad-arg"):
            disagree.setdefault(name, "%s model=%s (the driver does not know the request) real=%s" % (line, m, r))
            continue
        compared[name] += 1
        if r.startswith("err:"):
            errors[name] += 1
        if m != r and name not in disagree:
            disagree[name] = "%s model=%s real=%s" % (line, m, r)
    for name, d in sorted(disagree.items()):
        ctx.tie_broken("corr:setops:%s" % name, d)
    total = sum(compared.values())
    ctx.cov["traces_validated_against_impl"] += total
    ctx.count(total)
    dist = ctx.cov.setdefault("input_distribution", {})
    dist["setops_correspondence"] = {
        "compared_per_function": dict(sorted(compared.items())),
        "total": total,
        "real_raises_in": dict(sorted(errors.items())),
        "skipped_order_not_expressible": dict(sorted(skipped.items())),
        "transcribes": {k: TRANSCRIBES[k] for k in sorted(compared)},
    }
    if extra_counts:
        dist["setops_correspondence"]["lifted_operations_compared_by_the_ds_requests"] = extra_counts
    for i in (0, len(lines) // 2):
        if lines:
            ctx.sample({"case": lines[i], "model": outs[i], "real": expect[i]})
    return compared
