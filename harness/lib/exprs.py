"""Expression toolkit shared by the C01/C04/C05/C07/C08/C10 checks.

tree  := ('bvv', v, w) | ('bvs', name, w) | ('boolv', b) | ('bools', name) | (op, arg, ...)
op    := add sub mul udiv umod sdiv smod and or xor shl ashr lshr not neg eq ne ult ule ugt uge slt sle sgt sge
         concat extract:HI:LO zext:N sext:N rotl rotr reverse ite And Or Not
`build` goes through claripy's PUBLIC constructors/operators (that is what C01 quantifies over),
`from_ast` reads a claripy AST back into a tree, `ev` is an independent big-int evaluator with SMT-LIB
semantics, `sexpr` prints the line-protocol form understood by lean/Driver.
"""
import claripy

BIN_INFIX = {"add": "__add__", "sub": "__sub__", "mul": "__mul__", "udiv": "__floordiv__", "umod": "__mod__",
             "and": "__and__", "or": "__or__", "xor": "__xor__", "shl": "__lshift__", "ashr": "__rshift__",
             "eq": "__eq__", "ne": "__ne__"}
FUN2 = {"sdiv": "SDiv", "smod": "SMod", "lshr": "LShR", "ult": "ULT", "ule": "ULE", "ugt": "UGT", "uge": "UGE",
        "slt": "SLT", "sle": "SLE", "sgt": "SGT", "sge": "SGE", "rotl": "RotateLeft", "rotr": "RotateRight"}
CLARIPY_OP = {"__add__": "add", "__sub__": "sub", "__mul__": "mul", "__floordiv__": "udiv", "__truediv__": "udiv",
              "__mod__": "umod", "SDiv": "sdiv", "SMod": "smod", "__and__": "and", "__or__": "or", "__xor__": "xor",
              "__lshift__": "shl", "__rshift__": "ashr", "LShR": "lshr", "__invert__": "not", "__neg__": "neg",
              "__eq__": "eq", "__ne__": "ne", "ULT": "ult", "ULE": "ule", "UGT": "ugt", "UGE": "uge", "SLT": "slt",
              "SLE": "sle", "SGT": "sgt", "SGE": "sge", "Concat": "concat", "RotateLeft": "rotl", "RotateRight": "rotr",
              "Reverse": "reverse", "If": "ite", "And": "And", "Or": "Or", "Not": "Not"}
BOOL_RESULT = {"eq", "ne", "ult", "ule", "ugt", "uge", "slt", "sle", "sgt", "sge", "And", "Or", "Not", "boolv", "bools"}
NARY = {"add", "mul", "and", "or", "xor", "concat", "And", "Or"}


class Unsupported(Exception):
    pass


def apply_op(k, args):
    """apply written operator `k` to already-built arguments (claripy ASTs or raw Python ints)"""
    if k in BIN_INFIX:
        r = args[0]
        for a in args[1:]:
            if isinstance(r, int) and not isinstance(a, int):
                # reversed operator: int <op> BV  (Python swaps the operands itself for == and !=)
                if k in ("eq", "ne"):
                    r = getattr(a, BIN_INFIX[k])(r)
                    continue
                r = getattr(a, "__r" + BIN_INFIX[k][2:])(r)
                if r is NotImplemented:
                    raise Unsupported("reversed op not implemented")
            else:
                r = getattr(r, BIN_INFIX[k])(a)
        return r
    if k in FUN2:
        return getattr(claripy, FUN2[k])(*args)
    if k == "not":
        return ~args[0]
    if k == "neg":
        return -args[0]
    if k == "concat":
        return claripy.Concat(*args)
    if k.startswith("extract:"):
        _, hi, lo = k.split(":")
        return claripy.Extract(int(hi), int(lo), args[0])
    if k.startswith("slice:"):   # x[hi:lo] through __getitem__
        _, hi, lo = k.split(":")
        return args[0][int(hi):int(lo)]
    if k.startswith("zext:"):
        return claripy.ZeroExt(int(k.split(":")[1]), args[0])
    if k.startswith("sext:"):
        return claripy.SignExt(int(k.split(":")[1]), args[0])
    if k == "reverse":
        return claripy.Reverse(args[0])
    if k == "ite":
        return claripy.If(*args)
    if k == "And":
        return claripy.And(*args)
    if k == "Or":
        return claripy.Or(*args)
    if k == "Not":
        return claripy.Not(args[0])
    raise Unsupported(k)


def build_leaf(t):
    k = t[0]
    if k == "bvv":
        return claripy.BVV(t[1], t[2])
    if k == "bvs":
        return claripy.BVS(t[1], t[2], explicit_name=True)
    if k == "boolv":
        return claripy.BoolV(bool(t[1]))
    if k == "bools":
        return claripy.BoolS(t[1], explicit_name=True)
    if k == "int":  # a raw Python int operand (reversed operators / coercion); only valid as an argument
        return t[1]
    return None


def build(t, log=None, memo=None):
    """tree -> claripy AST through the public API (operators on BV objects, claripy.* functions).
    `log` (list) receives one (op, built_args, result) triple per node, bottom-up.
    `memo` maps s-expression strings of sub-trees to existing AST objects (reused instead of rebuilt)."""
    if memo is not None and t[0] != "int":
        try:
            hit = memo.get(sexpr(t))
        except Unsupported:
            hit = None
        if hit is not None:
            return hit
    r = build_leaf(t)
    if r is not None or t[0] == "int":
        return r
    args = [build(a, log, memo) for a in t[1:]]
    if t[0] in BIN_INFIX and len(args) > 2:
        # a written chain `a op b op c` is a sequence of binary constructions: log each real construction step, not the
        # chain as one n-ary step that never happened
        r = args[0]
        for a in args[1:]:
            r2 = apply_op(t[0], [r, a])
            if log is not None:
                log.append((t[0], [r, a], r2))
            r = r2
        return r
    r = apply_op(t[0], args)
    if log is not None:
        log.append((t[0], args, r))
    return r


def from_ast(a):
    """claripy AST -> tree (only the BV/Bool fragment; anything else raises Unsupported)."""
    op = a.op
    if op == "BVV":
        return ("bvv", a.args[0], a.args[1])
    if op == "BVS":
        return ("bvs", a.args[0], a.length)
    if op == "BoolV":
        return ("boolv", 1 if a.args[0] else 0)
    if op == "BoolS":
        return ("bools", a.args[0])
    if op == "Extract":
        return ("extract:%d:%d" % (a.args[0], a.args[1]), from_ast(a.args[2]))
    if op == "ZeroExt":
        return ("zext:%d" % a.args[0], from_ast(a.args[1]))
    if op == "SignExt":
        return ("sext:%d" % a.args[0], from_ast(a.args[1]))
    if op in CLARIPY_OP:
        return (CLARIPY_OP[op],) + tuple(from_ast(x) for x in a.args)
    raise Unsupported(op)


def from_ast_head(a):
    """operator token of a non-leaf claripy AST node"""
    if a.op == "Extract":
        return "extract:%d:%d" % (a.args[0], a.args[1])
    if a.op == "ZeroExt":
        return "zext:%d" % a.args[0]
    if a.op == "SignExt":
        return "sext:%d" % a.args[0]
    if a.op in CLARIPY_OP:
        return CLARIPY_OP[a.op]
    raise Unsupported(a.op)


def is_bool(t):
    k = t[0]
    if k == "ite":
        return is_bool(t[2])
    return k in BOOL_RESULT


def width(t):
    k = t[0]
    if k in ("bvv", "bvs"):
        return t[2]
    if k == "int":
        return None
    if is_bool(t):
        return None
    if k == "concat":
        return sum(width(a) for a in t[1:])
    if k.startswith("extract:") or k.startswith("slice:"):
        _, hi, lo = k.split(":")
        return int(hi) - int(lo) + 1
    if k.startswith("zext:") or k.startswith("sext:"):
        return width(t[1]) + int(k.split(":")[1])
    if k == "ite":
        return width(t[2])
    for a in t[1:]:
        w = width(a)
        if w is not None:
            return w
    return None


def _s(v, w):
    return v - (1 << w) if v >> (w - 1) else v


def _tdiv(a, b):  # truncating division
    q = abs(a) // abs(b)
    return q if (a < 0) == (b < 0) else -q


def ev(t, env, like_w=None):
    """SMT-LIB value of a tree under env {name: int|bool}. returns ('bv', w, n) or ('bool', b)."""
    k = t[0]
    if k == "bvv":
        return ("bv", t[2], t[1] % (1 << t[2]))
    if k == "bvs":
        return ("bv", t[2], env[t[1]] % (1 << t[2]))
    if k == "boolv":
        return ("bool", bool(t[1]))
    if k == "bools":
        return ("bool", bool(env[t[1]]))
    if k == "int":
        if like_w is None:
            raise Unsupported("int without context")
        return ("bv", like_w, t[1] % (1 << like_w))
    if k in ("And", "Or"):
        vs = [ev(a, env)[1] for a in t[1:]]
        return ("bool", all(vs) if k == "And" else any(vs))
    if k == "Not":
        return ("bool", not ev(t[1], env)[1])
    if k == "ite":
        c = ev(t[1], env)[1]
        lw = width(t[2]) or width(t[3])
        a, b = ev(t[2], env, lw), ev(t[3], env, lw)
        if a[0] == "bool" and b[0] == "bv":   # Bool coerced to If(b,1,0)
            a = ("bv", b[1], 1 if a[1] else 0)
        if b[0] == "bool" and a[0] == "bv":
            b = ("bv", a[1], 1 if b[1] else 0)
        return a if c else b
    if k == "concat":
        w, n = 0, 0
        for a in t[1:]:
            _, wa, na = ev(a, env)
            n = (n << wa) | na
            w += wa
        return ("bv", w, n)
    if k.startswith("extract:") or k.startswith("slice:"):
        _, hi, lo = k.split(":")
        hi, lo = int(hi), int(lo)
        _, w, n = ev(t[1], env)
        return ("bv", hi - lo + 1, (n >> lo) & ((1 << (hi - lo + 1)) - 1))
    if k.startswith("zext:"):
        _, w, n = ev(t[1], env)
        return ("bv", w + int(k.split(":")[1]), n)
    if k.startswith("sext:"):
        _, w, n = ev(t[1], env)
        e = int(k.split(":")[1])
        return ("bv", w + e, _s(n, w) % (1 << (w + e)))
    if k == "reverse":
        _, w, n = ev(t[1], env)
        return ("bv", w, int.from_bytes(n.to_bytes(w // 8, "big"), "little"))
    if k == "not":
        _, w, n = ev(t[1], env, like_w)
        return ("bv", w, n ^ ((1 << w) - 1))
    if k == "neg":
        _, w, n = ev(t[1], env, like_w)
        return ("bv", w, (-n) % (1 << w))
    # binary / n-ary over one width
    lw = like_w
    for a in t[1:]:
        if a[0] != "int":
            ww = width(a)
            if ww is not None:
                lw = ww
                break
    vals = [ev(a, env, lw) for a in t[1:]]
    if k in ("eq", "ne") and vals[0][0] == "bool":
        r = vals[0][1] == vals[1][1]
        return ("bool", r if k == "eq" else not r)
    w = vals[0][1]
    m = (1 << w) - 1
    ns = [v[2] for v in vals]
    if any(v[0] != "bv" or v[1] != w for v in vals):
        raise Unsupported("ill-sized")
    if k in ("add", "mul", "and", "or", "xor"):
        r = ns[0]
        for n in ns[1:]:
            r = {"add": r + n, "mul": r * n, "and": r & n, "or": r | n, "xor": r ^ n}[k] & m
        return ("bv", w, r)
    a, b = ns
    if k == "sub":
        return ("bv", w, (a - b) & m)
    if k == "udiv":
        return ("bv", w, m if b == 0 else a // b)
    if k == "umod":
        return ("bv", w, a if b == 0 else a % b)
    if k == "sdiv":
        sa, sb = _s(a, w), _s(b, w)
        if sb == 0:
            return ("bv", w, 1 if sa < 0 else m)
        return ("bv", w, _tdiv(sa, sb) & m)
    if k == "smod":  # claripy SMod = bvsrem
        sa, sb = _s(a, w), _s(b, w)
        if sb == 0:
            return ("bv", w, a)
        return ("bv", w, (sa - _tdiv(sa, sb) * sb) & m)
    if k == "shl":
        return ("bv", w, 0 if b >= w else (a << b) & m)
    if k == "lshr":
        return ("bv", w, 0 if b >= w else a >> b)
    if k == "ashr":
        return ("bv", w, (_s(a, w) >> min(b, w)) & m)
    if k == "rotl":
        r = b % w
        return ("bv", w, ((a << r) | (a >> (w - r))) & m)
    if k == "rotr":
        r = b % w
        return ("bv", w, ((a >> r) | (a << (w - r))) & m)
    if k == "eq":
        return ("bool", a == b)
    if k == "ne":
        return ("bool", a != b)
    if k in ("ult", "ule", "ugt", "uge"):
        return ("bool", {"ult": a < b, "ule": a <= b, "ugt": a > b, "uge": a >= b}[k])
    if k in ("slt", "sle", "sgt", "sge"):
        sa, sb = _s(a, w), _s(b, w)
        return ("bool", {"slt": sa < sb, "sle": sa <= sb, "sgt": sa > sb, "sge": sa >= sb}[k])
    raise Unsupported(k)


def variables(t, acc=None):
    acc = {} if acc is None else acc
    if t[0] == "bvs":
        acc[t[1]] = t[2]
    elif t[0] == "bools":
        acc[t[1]] = 0
    elif t[0] not in ("bvv", "boolv", "int"):
        for a in t[1:]:
            variables(a, acc)
    return acc


def sexpr(t):
    k = t[0]
    if k == "bvv":
        return "(bvv %d %d)" % (t[1], t[2])
    if k == "bvs":
        return "(bvs %s %d)" % (t[1], t[2])
    if k == "boolv":
        return "(boolv %d)" % (1 if t[1] else 0)
    if k == "bools":
        return "(bools %s)" % t[1]
    if k == "int":
        raise Unsupported("raw int in s-expression")
    return "(" + k + " " + " ".join(sexpr(a) for a in t[1:]) + ")"


def parse_sexpr(s):
    toks = s.replace("(", " ( ").replace(")", " ) ").split()
    pos = [0]

    def p():
        assert toks[pos[0]] == "("
        pos[0] += 1
        head = toks[pos[0]]; pos[0] += 1
        if head in ("bvv",):
            v, w = int(toks[pos[0]]), int(toks[pos[0] + 1]); pos[0] += 3
            return ("bvv", v, w)
        if head == "bvs":
            n, w = toks[pos[0]], int(toks[pos[0] + 1]); pos[0] += 3
            return ("bvs", n, w)
        if head == "boolv":
            b = int(toks[pos[0]]); pos[0] += 2
            return ("boolv", b)
        if head == "bools":
            n = toks[pos[0]]; pos[0] += 2
            return ("bools", n)
        args = []
        while toks[pos[0]] != ")":
            args.append(p())
        pos[0] += 1
        return (head,) + tuple(args)
    return p()


def all_envs(vars_, limit_bits=12):
    """all assignments if the total width is small, else None"""
    total = sum(max(w, 1) for w in vars_.values())
    if total > limit_bits:
        return None
    names = sorted(vars_)

    def rec(i, env):
        if i == len(names):
            yield dict(env)
            return
        n = names[i]
        w = vars_[n]
        for v in range(2 if w == 0 else (1 << w)):
            env[n] = bool(v) if w == 0 else v
            yield from rec(i + 1, env)
    return rec(0, {})


def sample_envs(vars_, rng, n):
    names = sorted(vars_)
    out = []
    for i in range(n):
        env = {}
        for nm in names:
            w = vars_[nm]
            if w == 0:
                env[nm] = rng.random() < 0.5
            else:
                bnd = [0, 1, (1 << w) - 1, 1 << (w - 1), (1 << (w - 1)) - 1, w % (1 << w), (w - 1) % (1 << w), (1 << (w - 1)) | 1, (3 << max(w - 2, 0)) % (1 << w)]
                env[nm] = rng.choice(bnd) if rng.random() < 0.4 else rng.getrandbits(w)
        out.append(env)
    return out
