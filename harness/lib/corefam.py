"""C16 stage `same-shape families`: a tracked solver holding SEVERAL constraints of the same shape that differ in a constant only
(`x > 934`, `x > 1044`, ...; one variable of 8 or 16 bits), some of them outside every unsatisfiable subset, and a contradiction
among the others.  Whatever machinery turns the backend's core back into constraints of the solver has to tell such look-alikes
apart (Z3's 32-bit structural hash does not: the generator looks for constants whose formulas collide and puts those next to
each other, in both orders; it never tells the oracle).

A case (JSON):  {"cls", "w", "cons": [[op, c, a], ...]  (the constraint  (x + a) OP c ; a = 0: plain x),  "batch": add in one call,
                 "presat": satisfiable() first, "extra": [[op, c, a], ...]  (what-if core)}
Oracle = the property: nothing reported when the constraints have a model; otherwise every element is a constraint that was
added to / is held by the solver and the conjunction of the elements (with the extras) has no model - decided over ALL 2^w
values of x (bit sets, and once more by plain enumeration before anything is reported)."""
import claripy

CLASSES = {"Solver": claripy.Solver, "SolverCacheless": claripy.SolverCacheless, "SolverComposite": claripy.SolverComposite}
CMP = {"UGT": lambda p, q: p > q, "UGE": lambda p, q: p >= q, "ULT": lambda p, q: p < q, "ULE": lambda p, q: p <= q,
       "SGT": lambda p, q: p > q, "SGE": lambda p, q: p >= q, "SLT": lambda p, q: p < q, "SLE": lambda p, q: p <= q,
       "EQ": lambda p, q: p == q, "NE": lambda p, q: p != q}
UOPS = ["UGT", "UGE", "ULT", "ULE"]
ALLOPS = list(CMP)
SIG = "same-shape-family"


def var(w):
    return claripy.BVS("cf_x%d" % w, w, explicit_name=True)


def ast_of(w, con):
    op, c, a = con
    t = var(w) if a == 0 else var(w) + a
    if op == "EQ":
        return t == c
    if op == "NE":
        return t != c
    return getattr(claripy, op)(t, claripy.BVV(c, w))


def holds(w, con, v):
    """the meaning of a constraint at x = v, in plain Python"""
    op, c, a = con
    m = (1 << w) - 1
    u = (v + a) & m
    if op[0] == "S":
        sg = lambda t: t - (1 << w) if t >> (w - 1) else t  # noqa: E731
        return CMP[op](sg(u), sg(c))
    return CMP[op](u, c)


_BITS = {}


def _rng_mask(lo, hi):
    return ((1 << hi) - 1) ^ ((1 << lo) - 1) if hi > lo else 0


def bits(w, con):
    """bit v set iff the constraint holds at x = v (closed forms; checked against `holds` by selftest and before every report)"""
    key = (w, tuple(con))
    r = _BITS.get(key)
    if r is not None:
        return r
    op, c, a = con
    n, half = 1 << w, 1 << (w - 1)
    full = (1 << n) - 1
    gt = {"U": _rng_mask(c + 1, n), "S": _rng_mask(c + 1, half) if c < half else _rng_mask(c + 1, n) | _rng_mask(0, half)}
    one = 1 << c
    k = op[0]
    if op in ("UGT", "SGT"):
        r = gt[k]
    elif op in ("UGE", "SGE"):
        r = gt[k] | one
    elif op in ("ULE", "SLE"):
        r = full ^ gt[k]
    elif op in ("ULT", "SLT"):
        r = full ^ (gt[k] | one)
    elif op == "EQ":
        r = one
    else:
        r = full ^ one
    a %= n
    if a:                       # u = v + a: the set of v is the set of u rotated down by a
        r = ((r >> a) | (r << (n - a))) & full
    _BITS[key] = r
    return r


def conj(w, cons):
    m = (1 << (1 << w)) - 1
    for c in cons:
        m &= bits(w, c)
    return m


def model_by_enumeration(w, cons):
    for v in range(1 << w):
        if all(holds(w, c, v) for c in cons):
            return v
    return None


def selftest(rng):
    for _ in range(60):
        con = [rng.choice(ALLOPS), rng.randrange(256), rng.choice([0, 0, 1, rng.randrange(256)])]
        want = sum(1 << v for v in range(256) if holds(8, con, v))
        if bits(8, con) != want:
            raise AssertionError("corefam.bits wrong for %s" % (con,))
    con = [rng.choice(ALLOPS), rng.randrange(1 << 16), rng.choice([0, 1, rng.randrange(1 << 16)])]
    if bits(16, con) != sum(1 << v for v in range(1 << 16) if holds(16, con, v)):
        raise AssertionError("corefam.bits wrong for %s" % (con,))


# ------------------------------------------------------------------------------------------------ running and judging
def run_case(case):
    """-> None | (kind, why)"""
    w, cons, extra = case["w"], case["cons"], case.get("extra", [])
    asts = [ast_of(w, c) for c in cons]
    exs = tuple(ast_of(w, c) for c in extra)
    try:
        s = CLASSES[case["cls"]](track=True)
        if case.get("batch"):
            s.add(asts)
        else:
            for a in asts:
                s.add(a)
        if case.get("presat"):
            s.satisfiable()
        core = tuple(s.unsat_core(extra_constraints=exs))
    except Exception as e:  # noqa: BLE001
        return ("crash:" + type(e).__name__, "%s: %s" % (type(e).__name__, str(e)[:200]))
    tag = ":with-extra" if extra else ""
    if conj(w, cons + extra):
        return None if len(core) == 0 else ("nonempty-on-sat" + tag, "core %s although the constraints are satisfiable" % (core,))
    if not all(isinstance(c, claripy.ast.Base) for c in core):
        return ("nested-element" + tag, "core contains a non-constraint element: %r" % (core,))
    mine = {a.hash(): c for a, c in zip(asts, cons)}
    held = {c.hash() for c in s.constraints}
    for ch in getattr(s, "_solver_list", ()):
        held |= {c.hash() for c in ch.constraints}
    if not all(c.hash() in mine or c.hash() in held for c in core):
        return ("foreign-element" + tag, "core element was never added to / is not held by the solver: %s (added: %s)" % (
            [str(c) for c in core], [str(a) for a in asts]))
    if not all(c.hash() in mine for c in core):
        return ("unjudged", "")          # a constraint the solver rewrote: no reading here (counted, never reported)
    picked = [mine[c.hash()] for c in core]
    if conj(w, picked + extra):
        v = model_by_enumeration(w, picked + extra)
        if v is None:
            raise AssertionError("corefam: bit sets and enumeration disagree on %s" % (picked + extra,))
        return ("satisfiable-or-empty-core" + (":empty" if not core else "") + tag,
                "the solver holds %s; unsat_core(%s) = %s, which %s is satisfiable: x = %d" % (
                    [str(a) for a in asts], ", ".join(map(str, exs)), [str(c) for c in core], "with the extra constraints" if extra else "", v))
    return None


def fails_twice(case, kind):
    return all((run_case(case) or ("",))[0] == kind for _ in range(2))


def shrink(case, kind):
    cur = dict(case)
    for key in ("presat", "batch"):
        if cur.get(key) and fails_twice(dict(cur, **{key: False}), kind):
            cur[key] = False
    i = 0
    while i < len(cur["cons"]):
        t = dict(cur, cons=cur["cons"][:i] + cur["cons"][i + 1:])
        if len(t["cons"]) >= 1 and fails_twice(t, kind):
            cur = t
        else:
            i += 1
    return cur


# ------------------------------------------------------------------------------------------------ generators
def lookalikes(rng, w, a, n, ops=UOPS):
    """constants (a dense window of n) whose formulas `(x + a) OP c` get the same Z3 AST hash: [[con, con, ...], ...]"""
    z3b = claripy.backends.z3
    lo = rng.randrange(0, max(1, (1 << w) - n))
    groups = {}
    for op in ops:
        for c in range(lo, min(1 << w, lo + n)):
            con = [op, c, a]
            groups.setdefault(hash(z3b.convert(ast_of(w, con))), []).append(con)
    return [g for g in groups.values() if len(g) > 1]


def near(rng, w, c, spread=3):
    return (c + rng.randrange(-spread, spread + 1)) % (1 << w)


def directed(rng, w, group, classes):
    """two look-alikes p (earlier) and q (later), a contradiction of q that p is compatible with; fillers of the same shape"""
    out = []
    for p in group:
        for q in group:
            if p is q:
                continue
            a = q[2]
            contras = []
            for _ in range(40):
                k = [rng.choice(ALLOPS), near(rng, w, q[1]), a]
                if not bits(w, q) & bits(w, k) and bits(w, p) & bits(w, k):
                    contras.append(k)
            if not contras:
                continue
            for cls in classes:
                k = rng.choice(contras)
                fill = []
                for _ in range(rng.randrange(0, 4)):
                    f = [p[0], near(rng, w, rng.choice([p[1], q[1]]), 40), a]
                    if conj(w, [p, k, f] + fill):
                        fill.append(f)
                body = fill + [q]
                rng.shuffle(body)
                cons = [p] + body
                extra = []
                if rng.random() < 0.2:
                    extra = [k]
                else:
                    cons.insert(rng.randrange(0, len(cons) + 1), k)
                out.append({"cls": cls, "w": w, "cons": cons, "extra": extra, "batch": rng.random() < 0.2, "presat": rng.random() < 0.4})
    return out


def family(rng, w, cls, pool=None):
    """3..8 constraints of one shape (1-3 operators, constants drawn densely, look-alikes from the pool among them)"""
    a = rng.choice([0, 0, 1, rng.randrange(1 << w)])
    ops = rng.sample(ALLOPS, rng.choice([1, 2, 2, 3]))
    base = rng.randrange(1 << w)
    cons = [[rng.choice(ops), near(rng, w, base, 6), a] for _ in range(rng.randrange(3, 9))]
    if pool and rng.random() < 0.5:
        g = rng.choice(pool)
        cons = [list(c) for c in g] + [[rng.choice(ALLOPS), near(rng, w, rng.choice(g)[1], 2), g[0][2]] for _ in range(rng.randrange(1, 5))]
        rng.shuffle(cons)
    extra = [cons.pop()] if len(cons) > 3 and rng.random() < 0.15 else []
    return {"cls": cls, "w": w, "cons": cons, "extra": extra, "batch": rng.random() < 0.2, "presat": rng.random() < 0.4}


def stage(ctx, n_random, window):
    """-> (list of (case, kind, why), stats)"""
    rng = ctx.rng
    selftest(rng)
    classes = list(CLASSES)
    cases, pool16 = [], []
    for a in (0, rng.choice([1, 2, 3])):
        pool16 += lookalikes(rng, 16, a, window)
    pool8 = lookalikes(rng, 8, 0, 256, ops=ALLOPS)
    for w, pool in ((16, pool16), (8, pool8)):
        for g in pool:
            cases += directed(rng, w, g, classes)
    ndir = len(cases)
    for i in range(n_random):
        w = (8, 16)[i % 2]
        cases.append(family(rng, w, classes[i % 3], pool16 if w == 16 else pool8))
    found, stats = [], {"cases": len(cases), "directed(look-alike pairs)": ndir, "look-alike groups": len(pool16) + len(pool8),
                        "unsat": 0, "unjudged": 0, "core_elements": 0}
    seen = set()
    for case in cases:
        r = run_case(case)
        ctx.count()
        unsat = not conj(case["w"], case["cons"] + case.get("extra", []))
        stats["unsat"] += unsat
        if unsat and len(case["cons"]) >= 3:
            ctx.distinct("fam:%s" % (case,))
        if r and r[0] == "unjudged":
            stats["unjudged"] += 1
        elif r and r[0] not in seen and fails_twice(case, r[0]):
            seen.add(r[0])
            sh = shrink(case, r[0])
            found.append((sh, r[0], (run_case(sh) or r)[1]))
    return found, stats


def replay(obj):
    case = obj["replay"]["family"]
    bad = 0
    for attempt in range(2):
        r = run_case(case)
        if attempt == 0:
            print("  %s(track=True), %d-bit x; add %s%s; unsat_core(%s)" % (
                case["cls"], case["w"], [str(ast_of(case["w"], c)) for c in case["cons"]], " (one call)" if case.get("batch") else "",
                [str(ast_of(case["w"], c)) for c in case.get("extra", [])]))
            print("  -> %s" % (r,))
        bad += bool(r and r[0] != "unjudged")
    if bad == 2:
        print("VIOLATION property=C16 replay=(given)")
        return 1
    print("no failure on the current tree" if bad == 0 else "failure not reproducible (1 of 2 runs)")
    return 0
