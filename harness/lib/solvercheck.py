"""Shared check skeleton of the solver family: chunked (multi-process) correspondence + oracle runs,
aggregation into ctx, shrinking and violation reporting, replay."""
import concurrent.futures as cf
import json, os, random, subprocess, time

from . import common


def _driver_path():
    return os.path.join(common.LEAN, ".lake", "build", "bin", "driver_solver")


def run_chunk(args):
    """One worker: build its own universe/registry, run the given histories (or generate them), drive the Lean
    model on the recorded traces, compare.  Returns a JSON-able summary."""
    (seed, chunk, jobs, corr) = args
    from . import solverlib as L, solverrec as R
    import logging
    logging.getLogger("claripy.backends.backend_vsa").setLevel(logging.ERROR)   # "Overflow in multiplication detected." etc.
    t0 = time.time()
    uni = L.Universe()
    reg = R.Registry(uni) if corr else None
    rng = random.Random(seed * 1000003 + chunk * 7919 + 17)
    lines, expect, metas = [], [], []
    res = {"ops": 0, "hist": 0, "checks": 0, "fails": [], "mismatch": [], "l0": [], "opdist": {}, "lendist": {},
           "clsdist": {}, "distinct": [], "samples": [], "driver_error": None, "nontrivial_ops": 0}
    queue = list(jobs)
    res["faulted"] = 0
    while queue:
        job = queue.pop(0)
        cls, cfg = job["cls"], job["cfg"]
        hist = job.get("hist")
        if job.get("float"):
            # C13: histories over two double variables, judged by candidate brute force + a plain Solver run side by side
            if "funi" not in res:
                res["funi"] = L.FloatUniverse()
            if hist is None:
                hist = L.gen_float_history(rng, job["len"])
            res["hist"] += 1
            res["clsdist"][cls] = res["clsdist"].get(cls, 0) + 1
            res["ops"] += len(hist)
            for d in hist:
                res["opdist"][d["op"]] = res["opdist"].get(d["op"], 0) + 1
            fails, _o = L.run_float_history(res["funi"], cls, cfg, hist)
            if fails:
                res["fails"].append({"cls": cls, "cfg": cfg, "hist": hist, "float": True, "fails": [list(f) for f in fails[:3]]})
            if len(hist) >= 3:
                res["distinct"].append(common.digest([cls, cfg, hist]))
            continue
        if hist is None:
            gen = L.gen_combine_history if job.get("combine") else L.gen_struct_history if job.get("struct") else \
                L.gen_directed if job.get("gen", {}).get("shape") else L.gen_history
            hist = gen(rng, job["len"], **job.get("gen", {}))
        res["hist"] += 1
        res["clsdist"][cls] = res["clsdist"].get(cls, 0) + 1
        lb = (len(hist) // 10) * 10
        res["lendist"][str(lb)] = res["lendist"].get(str(lb), 0) + 1
        for d in hist:
            res["opdist"][d["op"]] = res["opdist"].get(d["op"], 0) + 1
        res["ops"] += len(hist)
        if corr:
            try:
                r = R.run_recorded(uni, reg, cls, cfg, hist)
            except Exception as e:  # noqa: BLE001   the recorder could not make sense of what it saw: a broken tie, not a crash of the check
                res["mismatch"].append({"cls": cls, "cfg": cfg, "hist": hist, "op": {"op": "recorder"}, "differs": ["recorder"],
                                        "model": "-", "real": "%s: %s" % (type(e).__name__, str(e)[:300])})
                fails, _o = L.run_history(uni, cls, cfg, hist)
                if fails:
                    res["fails"].append({"cls": cls, "cfg": cfg, "hist": hist, "fails": [list(f) for f in fails[:3]]})
                reg = R.Registry(uni)
                reg._uni_sent = True
                lines.append("skip-line")
                continue
            base = len(lines)
            lines += r["lines"]
            expect += [(base + li, e, (len(metas), k)) for li, e, k in r["expect"]]
            res["checks"] += r["checks"]
            for x in r["l0"][:3]:
                res["l0"].append({"cls": cls, "cfg": cfg, "what": x})
            fails = r["fails"]
            nt = sum(1 for li, e, k in r["expect"] if "models=[]" not in e)
            res["nontrivial_ops"] += nt
            if any(d.get("fault") is not None for d in hist):
                res["faulted"] += 1
            if job.get("faults_n"):
                # C17: derive faulted variants: a give-up at check j of call k, for sampled / all (k, j)
                pos = []
                for li, e, k in r["expect"]:
                    nchecks = sum(1 for t in r["lines"][li].split(" ;; ", 1)[1].split() if t.startswith("C:"))
                    pos += [(k, j) for j in range(nchecks)]
                if job["faults_n"] != "all" and len(pos) > job["faults_n"]:
                    pos = rng.sample(pos, job["faults_n"])
                for (k, j) in pos:
                    h2 = [dict(d) for d in hist]
                    h2[k]["fault"] = j
                    queue.append({"cls": cls, "cfg": cfg, "hist": h2})
        else:
            nchk = [] if job.get("faults_n") else None
            fails, _o = L.run_history(uni, cls, cfg, hist, checks=nchk)
            if any(d.get("fault") is not None for d in hist):
                res["faulted"] += 1
            if job.get("faults_n") and len(nchk) == len(hist):
                # C17 on the classes without a model: the positions come from counting the checks of the un-faulted run
                pos = [(k, j) for k, n_ in enumerate(nchk) for j in range(n_)]
                if job["faults_n"] != "all" and len(pos) > job["faults_n"]:
                    pos = rng.sample(pos, job["faults_n"])
                for (k, j) in pos:
                    h2 = [dict(d) for d in hist]
                    h2[k]["fault"] = j
                    queue.append({"cls": cls, "cfg": cfg, "hist": h2})
        metas.append((cls, cfg, hist))
        if fails:
            res["fails"].append({"cls": cls, "cfg": cfg, "hist": hist, "fails": [list(f) for f in fails[:3]]})
        if len(hist) >= 3:
            res["distinct"].append(common.digest([cls, cfg, hist]))
        if len(res["samples"]) < 1 and len(hist) >= 4 and corr:
            res["samples"].append({"class": cls, "config": cfg, "history_prefix": hist[:4],
                                   "driver_request": r["lines"][-1][:300], "expected_answer": r["expect"][-1][1][:300] if r["expect"] else ""})
    if corr and lines:
        try:
            p = subprocess.run([_driver_path()], input="\n".join(lines) + "\n", capture_output=True, text=True, timeout=3000)
            if p.returncode != 0:
                res["driver_error"] = "driver crashed: " + p.stderr[-500:]
            else:
                out = p.stdout.split("\n")
                for idx, e, (mi, k) in expect:
                    got = out[idx] if idx < len(out) else "<missing>"
                    if got != e:
                        cls, cfg, hist = metas[mi]
                        ge, ee = got.split(" ;; "), e.split(" ;; ")
                        which = [n for n, a, b in zip(("answer", "state", "diagnostics"), ge + [""] * 3, ee) if a != b]
                        res["mismatch"].append({"cls": cls, "cfg": cfg, "hist": hist[:k + 1], "op": hist[k], "differs": which,
                                                "model": got[:1200], "real": e[:1200]})
                        if len(res["mismatch"]) >= 5:
                            break
                bad_decl = [o for o in out if o and o != "ok" and " ;; " not in o]
                if bad_decl:
                    res["mismatch"].append({"cls": "-", "cfg": {}, "hist": [], "op": {}, "differs": ["declaration"],
                                            "model": bad_decl[0][:300], "real": "ok"})
        except Exception as e:  # noqa: BLE001
            res["driver_error"] = "%s: %s" % (type(e).__name__, str(e)[:300])
    res["time"] = round(time.time() - t0, 2)
    res.pop("funi", None)
    return res


def run_jobs(ctx, jobs, workers, corr=True, chunk_size=12):
    """split jobs into chunks, run them in worker processes, aggregate into ctx; returns the merged result"""
    chunks = [jobs[i:i + chunk_size] for i in range(0, len(jobs), chunk_size)]
    args = [(ctx.seed, ctx._chunk_base + i, ch, corr) for i, ch in enumerate(chunks)]
    ctx._chunk_base += len(chunks)
    merged = {"ops": 0, "hist": 0, "checks": 0, "fails": [], "mismatch": [], "l0": [], "opdist": {}, "lendist": {},
              "clsdist": {}, "driver_error": None, "nontrivial_ops": 0, "faulted": 0}
    if workers <= 1:
        results = [run_chunk(a) for a in args]
    else:
        with cf.ProcessPoolExecutor(max_workers=workers) as ex:
            results = list(ex.map(run_chunk, args))
    for r in results:
        for k in ("ops", "hist", "checks", "nontrivial_ops", "faulted"):
            merged[k] += r[k]
        for k in ("fails", "mismatch", "l0"):
            merged[k] += r[k]
        for k in ("opdist", "lendist", "clsdist"):
            for a, b in r[k].items():
                merged[k][a] = merged[k].get(a, 0) + b
        for dg in r["distinct"]:
            ctx.distinct(dg)
        for s in r["samples"]:
            ctx.sample(s, cap=4)
        if r["driver_error"] and not merged["driver_error"]:
            merged["driver_error"] = r["driver_error"]
    ctx.count(merged["ops"])
    if corr:
        ctx.cov["traces_validated_against_impl"] += merged["hist"]
    return merged


def merge_cov(ctx, m, stream):
    c = ctx.cov.setdefault("input_distribution", {})
    c[stream] = {"histories": m["hist"], "calls": m["ops"], "z3_checks_recorded": m["checks"],
                 "calls_with_cached_models": m["nontrivial_ops"], "by_op": m["opdist"], "by_class": m["clsdist"],
                 "by_length_bucket": m["lendist"]}
    ctx.cov["l0_exactness_failures"] = ctx.cov.get("l0_exactness_failures", 0) + len(m["l0"])
    if m["l0"]:
        ctx.notes.append("L0: Z3 answer failed the exactness validation: %s" % json.dumps(m["l0"][:2]))


def report_failures(ctx, prop, fails, max_report=4):
    """shrink and report oracle failures (each must reproduce twice)"""
    from . import solverlib as L
    uni = L.Universe()
    seen = set()
    for f in fails:
        if len(seen) >= max_report:
            break
        cls, cfg, hist = f["cls"], f["cfg"], f["hist"]
        k, kind, why = f["fails"][0]
        # reproduce twice on the exact history before believing it
        ok = True
        for _ in range(2):
            f2, _o = L.run_history(uni, cls, cfg, hist)
            if not any(kk == kind for _, kk, _ in f2):
                ok = False
        if not ok:
            ctx.notes.append("non-reproducible oracle failure dropped: %s %s" % (kind, why))
            continue
        # drop configuration flags the failure does not need
        cfg0 = {"track": False, "reuse": False}
        if hist[k].get("op") == "unsat_core":
            # an untracked solver has no core at all: dropping the flag would turn the failure into another one
            cfg0 = dict(cfg0, track=cfg.get("track", False))
        if cfg != cfg0 and all(any(kk == kind for _, kk, _ in L.run_history(uni, cls, cfg0, hist)[0]) for _ in range(2)):
            cfg = cfg0
        sh = L.shrink(uni, cls, cfg, hist, kind)
        f3, outs = L.run_history(uni, cls, cfg, sh)
        hit = [(i, kk, w) for i, kk, w in f3 if kk == kind]
        if not hit:
            sh, hit = hist, [(k, kind, why)]
            _f, outs = L.run_history(uni, cls, cfg, sh)
        i, kk, w = hit[0]
        sig = L.signature(prop, cls, cfg, sh, i, kk)
        if sig in seen:
            continue
        seen.add(sig)
        ctx.violation(sig, "%s %s: %s" % (cls, json.dumps(sh[i]), w),
                      {"cls": cls, "cfg": cfg, "history": sh, "failing_call": i, "kind": kk, "explanation": w,
                       "observed": [list(o) if isinstance(o, tuple) else o for o in outs]})


def report_float_failures(ctx, prop, fails, max_report=4):
    """float histories (C13): reproduce twice, shrink, report"""
    from . import solverlib as L
    funi = L.FloatUniverse()
    seen = set()
    for f in fails:
        if len(seen) >= max_report:
            break
        cls, cfg, hist = f["cls"], f["cfg"], f["hist"]
        k, kind, why = f["fails"][0]
        if not all(any(kk == kind for _, kk, _ in L.run_float_history(funi, cls, cfg, hist)[0]) for _ in range(2)):
            ctx.notes.append("non-reproducible float failure dropped: %s %s" % (kind, why))
            continue
        sh = L.shrink_float(funi, cls, cfg, hist, kind)
        f3, outs = L.run_float_history(funi, cls, cfg, sh)
        hit = [(i, kk, w) for i, kk, w in f3 if kk == kind] or [(k, kind, why)]
        if not [1 for i, kk, w in f3 if kk == kind]:
            sh = hist
        i, kk, w = hit[0]
        sig = "%s/%s/%s/%s[float]" % (prop, cls, sh[i]["op"], kk)
        if sig in seen:
            continue
        seen.add(sig)
        ctx.violation(sig, "%s %s: %s" % (cls, json.dumps(sh[i]), w),
                      {"cls": cls, "cfg": cfg, "history": sh, "float": True, "failing_call": i, "kind": kk, "explanation": w,
                       "observed": [str(o)[:200] for o in outs]})


def replay_history(prop, obj):
    from . import solverlib as L
    r = obj["replay"]
    uni = L.Universe()
    bad = 0
    if r.get("float"):
        funi = L.FloatUniverse()
        for attempt in range(2):
            fails, outs = L.run_float_history(funi, r["cls"], r["cfg"], r["history"])
            bad += bool(fails)
            if attempt == 0:
                for d, o in zip(r["history"], outs):
                    print("  %s -> %s" % (json.dumps(d), str(o)[:200]))
                for k, kind, why in fails:
                    print("FAILS at call %d: %s: %s" % (k, kind, why))
        if bad == 2:
            print("VIOLATION property=%s replay=(given)" % prop)
            return 1
        print("no failure on the current tree" if bad == 0 else "failure not reproducible (1 of 2 runs)")
        return 0
    if r.get("twin"):
        # two solver tuples side by side (restored copy vs original / without the downsize calls), answers compared
        for attempt in range(2):
            f = L.run_twin(uni, r["cls"], r["cfg"], r["history"], r["twin"], r.get("cut", 0))
            bad += bool(f)
            if attempt == 0:
                for d in r["history"]:
                    print("  %s" % json.dumps(d))
                for k, kind, why in f:
                    print("FAILS at call %d: %s: %s" % (k, kind, why))
        if bad == 2:
            print("VIOLATION property=%s replay=(given)" % prop)
            return 1
        print("no failure on the current tree" if bad == 0 else "failure not reproducible (1 of 2 runs)")
        return 0
    for attempt in range(2):
        fails, outs = L.run_history(uni, r["cls"], r["cfg"], r["history"])
        if attempt == 0:
            for d, o in zip(r["history"], outs):
                print("  %s -> %s" % (json.dumps(d), o))
        if fails:
            bad += 1
            if attempt == 0:
                for k, kind, why in fails:
                    print("FAILS at call %d: %s: %s" % (k, kind, why))
    if bad == 2:
        print("VIOLATION property=%s replay=(given)" % prop)
        return 1
    print("no failure on the current tree" if bad == 0 else "failure not reproducible (1 of 2 runs)")
    return 0
