"""Generators of written operation trees (see lib/exprs.py for the tree format).
Stream 1: rule-directed templates (one per rewrite in simplifications.py / ast/bool.py:If + near misses);
Stream 2: type-directed random trees;  Stream 3: bounded-exhaustive small trees.  All choices come from `rng`."""

WIDTHS = [1, 2, 3, 4, 7, 8, 9, 16, 31, 32, 33, 64, 65, 128]
SMALL_WIDTHS = [1, 2, 3, 4]
BV_BIN = ["add", "sub", "mul", "udiv", "umod", "sdiv", "smod", "and", "or", "xor", "shl", "ashr", "lshr", "rotl", "rotr"]
BV_CMP = ["eq", "ne", "ult", "ule", "ugt", "uge", "slt", "sle", "sgt", "sge"]


def const(rng, w):
    b = [0, 1, 2, (1 << w) - 1, (1 << (w - 1)) - 1, 1 << (w - 1), w - 1, w, w + 1, 0xFF, 0xFFFF, 0xFFFFFFFF]
    v = rng.choice(b) if rng.random() < 0.6 else rng.getrandbits(w)
    return ("bvv", v % (1 << w), w)


def var(rng, w, names="xyz"):
    return ("bvs", rng.choice(names) + str(w), w)


def leaf(rng, w):
    return var(rng, w) if rng.random() < 0.6 else const(rng, w)


def rand_bv(rng, w, depth):
    if depth <= 0 or rng.random() < 0.15:
        return leaf(rng, w)
    r = rng.random()
    if r < 0.50:
        op = rng.choice(BV_BIN)
        return (op, rand_bv(rng, w, depth - 1), rand_bv(rng, w, depth - 1))
    if r < 0.58:
        return (rng.choice(["not", "neg"]), rand_bv(rng, w, depth - 1))
    if r < 0.66:
        return ("ite", rand_bool(rng, w, depth - 1), rand_bv(rng, w, depth - 1), rand_bv(rng, w, depth - 1))
    if r < 0.74 and w >= 2:
        k = rng.randrange(1, w)
        return ("concat", rand_bv(rng, k, depth - 1), rand_bv(rng, w - k, depth - 1))
    if r < 0.84:
        extra = rng.choice([1, 2, 8, 3])
        hi_w = w + extra
        lo = rng.randrange(0, extra + 1)
        return ("extract:%d:%d" % (lo + w - 1, lo), rand_bv(rng, hi_w, depth - 1))
    if r < 0.92 and w >= 2:
        n = rng.randrange(1, w)
        return (rng.choice(["zext", "sext"]) + ":%d" % n, rand_bv(rng, w - n, depth - 1))
    if w % 8 == 0:
        return ("reverse", rand_bv(rng, w, depth - 1))
    return ("add", rand_bv(rng, w, depth - 1), rand_bv(rng, w, depth - 1), rand_bv(rng, w, depth - 1)) \
        if rng.random() < 0.5 else ("xor", rand_bv(rng, w, depth - 1), rand_bv(rng, w, depth - 1))


def rand_bool(rng, w, depth):
    if depth <= 0 or rng.random() < 0.1:
        return ("bools", rng.choice("pq")) if rng.random() < 0.7 else ("boolv", rng.randrange(2))
    r = rng.random()
    if r < 0.6:
        return (rng.choice(BV_CMP), rand_bv(rng, w, depth - 1), rand_bv(rng, w, depth - 1))
    if r < 0.7:
        return ("Not", rand_bool(rng, w, depth - 1))
    if r < 0.85:
        return (rng.choice(["And", "Or"]), rand_bool(rng, w, depth - 1), rand_bool(rng, w, depth - 1))
    if r < 0.93:
        return ("ite", rand_bool(rng, w, depth - 1), rand_bool(rng, w, depth - 1), rand_bool(rng, w, depth - 1))
    return (rng.choice(["eq", "ne"]), rand_bool(rng, w, depth - 1), rand_bool(rng, w, depth - 1))


# ------------------------------------------------------------------ rule-directed templates
def _x(rng, w):
    """an arbitrary (mostly symbolic) operand"""
    r = rng.random()
    if r < 0.6:
        return var(rng, w)
    if r < 0.85:
        return rand_bv(rng, w, 1)
    return rand_bv(rng, w, 2)


def _c(rng, w):
    return const(rng, w)


def _cond(rng, w):
    return rand_bool(rng, w, rng.choice([0, 1]))


def G_const(rng, w):
    return const(rng, w)


def T(name):
    def deco(f):
        TEMPLATES.append((name, f))
        return f
    return deco


TEMPLATES = []


@T("L1.shl_zero")
def _(rng, w): return ("shl", _x(rng, w), ("bvv", 0, w))
@T("L2.shl_shl")
def _(rng, w): return ("shl", ("shl", _x(rng, w), _c(rng, w)), _c(rng, w))
@T("L2.shl_shl_wrap")
def _(rng, w):
    a = rng.randrange(1 << w)
    return ("shl", ("shl", _x(rng, w), ("bvv", a, w)), ("bvv", ((1 << w) - a + rng.choice([0, 1, 2])) % (1 << w), w))
@T("L2.shl_shl_sym")
def _(rng, w): return ("shl", ("shl", _x(rng, w), _x(rng, w)), _x(rng, w))
@T("R1.shr_zero")
def _(rng, w): return (rng.choice(["ashr", "lshr"]), _x(rng, w), ("bvv", 0, w))
@T("R2.shr_concat0")
def _(rng, w):
    if w < 2:
        return ("lshr", _x(rng, w), _c(rng, w))
    k = rng.randrange(1, w)
    s = rng.choice([w - k - 1, w - k, w - k + 1, w - 1, w, (1 << w) - 1]) % (1 << w)
    return (rng.choice(["ashr", "lshr"]), ("concat", ("bvv", 0, k), _x(rng, w - k)), ("bvv", s, w))
@T("R3.shr_zeroext")
def _(rng, w):
    if w < 2:
        return ("lshr", _x(rng, w), _c(rng, w))
    k = rng.randrange(1, w)
    s = rng.choice([w - k - 1, w - k, w - k + 1, w - 1, w, (1 << w) - 1]) % (1 << w)
    return (rng.choice(["ashr", "lshr"]), ("zext:%d" % k, _x(rng, w - k)), ("bvv", s, w))
@T("S1.sub_zero")
def _(rng, w): return ("sub", _x(rng, w), ("bvv", 0, w))
@T("S2.sub_sub")
def _(rng, w): return ("sub", ("sub", _x(rng, w), _c(rng, w)), _c(rng, w))
@T("S3.sub_add")
def _(rng, w): return ("sub", ("add", _x(rng, w), _c(rng, w)), _c(rng, w))
@T("S3.sub_add3")
def _(rng, w): return ("sub", ("add", _x(rng, w), _x(rng, w), _c(rng, w)), _c(rng, w))
@T("S4.sub_self")
def _(rng, w):
    x = _x(rng, w)
    return ("sub", x, x)
@T("P1.add_sub")
def _(rng, w): return ("add", ("sub", _x(rng, w), _c(rng, w)), _c(rng, w))
@T("P2.add_flatten")
def _(rng, w): return ("add", ("add", _x(rng, w), _c(rng, w)), ("add", _c(rng, w), _x(rng, w)), ("bvv", 0, w))
@T("M1.mul_flatten")
def _(rng, w): return ("mul", ("mul", _x(rng, w), _c(rng, w)), ("mul", _c(rng, w), _x(rng, w)))
@T("X.xor_ident")
def _(rng, w):
    x = _x(rng, w)
    return rng.choice([("xor", ("bvv", 0, w), x), ("xor", x, ("bvv", 0, w)), ("xor", x, x),
                       ("xor", ("xor", x, _x(rng, w)), x), ("xor", x, _c(rng, w), x, _c(rng, w))])
@T("F.flatten_shared_leaves")
def _(rng, w):
    """nested trees of one associative operation whose sub-trees share their leaves in permuted order, so that the flattening
    simplifiers cancel (xor), absorb (and/or) or collect (add/mul) across sub-trees: (a ^ b) ^ (b ^ a), (a & b) & (b & a), ..."""
    op = rng.choice(["xor", "xor", "and", "or", "add", "mul"])
    leaves = [var(rng, w, "x"), var(rng, w, "y")] + rng.choice([[], [var(rng, w, "z")], [_c(rng, w)], [_c(rng, w), var(rng, w, "z")]])

    def side():
        k = rng.randrange(2, len(leaves) + 1)
        return (op,) + tuple(rng.sample(leaves, k))
    l, r = side(), side()
    if rng.random() < 0.5:
        r = (op,) + tuple(rng.sample(l[1:], len(l) - 1))         # exactly the same leaves, another order
    t = (op, l, r)
    if rng.random() < 0.3:
        t = (op, t, rng.choice(leaves + [side()]))
    return t
@T("X4.xor_minmax")
def _(rng, w):
    q, r = var(rng, w, "x"), var(rng, w, "y")
    if rng.random() < 0.5:
        s = ("sub", q, r); u = ("xor", s, q)
    else:
        s = ("sub", r, q); u = ("xor", s, r)
    t = ("xor", q, r)
    v = ("and", u, t)
    ww = ("xor", v, s)
    x = ("ashr", ww, ("bvv", w - 1, w))
    y = ("and", x, t)
    return ("xor", q, y)
@T("U.or_ident")
def _(rng, w):
    x = _x(rng, w)
    return rng.choice([("or", ("bvv", 0, w), x), ("or", x, ("bvv", 0, w)), ("or", x, x), ("or", ("or", x, _x(rng, w)), x)])
@T("D.and_ident")
def _(rng, w):
    x = _x(rng, w)
    ones = ("bvv", (1 << w) - 1, w)
    return rng.choice([("and", ones, x), ("and", x, ones), ("and", x, x), ("and", ("bvv", 0, w), x), ("and", x, ("bvv", 0, w)),
                       ("and", ("and", x, _x(rng, w)), x)])
@T("D1.rotate_shift_mask")
def _(rng, w):
    big = rng.choice([32, 64, 64, 128])
    a = rng.choice([var(rng, big, "x"), _x(rng, big)])
    tot = rng.choice([32, 64])
    l = rng.choice([1, 3, 8, 16, 24, 31, tot - 1, tot // 2])
    r = tot - l
    if r <= 0:
        r = 1
    k = rng.choice([1, 8, 15, 16, 17, 31, 32, 33, tot - 1, tot])          # a run of k low ones, rotated left by l
    low = (1 << min(k, tot)) - 1
    rot = ((low << l) | (low >> (tot - l))) & ((1 << tot) - 1)
    mask = rng.choice([rot, rot, rot, ((0xFFFFFFFF if tot == 64 else 0xFFFF) << l) % (1 << big), (1 << tot) - 1, 0xFFFF00, 0x7FFFFFFF8, rng.getrandbits(big)])
    shr = "lshr" if rng.random() < 0.7 else "ashr"          # the arithmetic shift is NOT a rotation: must stay unrewritten or be right
    parts = [("shl", a, ("bvv", l, big)), (shr, a, ("bvv", r, big))]
    if rng.random() < 0.3:
        parts.reverse()
    return ("and", ("or",) + tuple(parts), ("bvv", mask % (1 << big), big))
@T("D6.and_concat_mask")
def _(rng, w):
    if w < 2:
        return ("and", _x(rng, w), _c(rng, w))
    k = rng.randrange(1, w)
    return ("and", ("concat", _x(rng, k), _x(rng, w - k)), ("bvv", (1 << (w - k)) - 1 + rng.choice([0, 0, 0, 1]) * (1 << (w - k)) % (1 << w), w))
@T("D7.and_if")
def _(rng, w):
    one, zero = ("bvv", 1, w), ("bvv", 0, w)
    return ("and", ("ite", _cond(rng, w), one, zero), ("ite", _cond(rng, w), one, rng.choice([zero, zero, one])))
@T("E1.eq_self")
def _(rng, w):
    x = _x(rng, w)
    return (rng.choice(["eq", "ne"]), x, x)
@T("E2.eq_bool_const")
def _(rng, w):
    c = _cond(rng, w)
    k = ("boolv", rng.randrange(2))
    return rng.choice([("eq", c, k), ("eq", k, c)])
@T("E6.eq_rev")
def _(rng, w):
    w8 = rng.choice([8, 16, 32])
    return (rng.choice(["eq", "ne"]), ("reverse", _x(rng, w8)), ("reverse", _x(rng, w8)))
@T("E7.eq_swap")
def _(rng, w): return (rng.choice(["eq", "ne"]), _c(rng, w), _x(rng, w))
@T("E8.eq_sub")
def _(rng, w): return (rng.choice(["eq", "ne"]), ("sub", _x(rng, w), _c(rng, w)), _c(rng, w))
@T("E9.eq_xor1")
def _(rng, w):
    one = ("bvv", rng.choice([1, 1, 1, 2, 3]) % (1 << w), w)
    x = _x(rng, w)
    return (rng.choice(["eq", "ne"]), rng.choice([("xor", x, one), ("xor", one, x)]), ("bvv", rng.choice([0, 0, 0, 1]) % (1 << w), w))
@T("E11.eq_mask_xor")
def _(rng, w):
    m = rng.choice([1 << rng.randrange(w), 3 % (1 << w), 0, rng.getrandbits(w), (1 << w) - 1])
    x = _x(rng, w)
    mm = ("bvv", m, w)
    inner = rng.choice([("and", x, mm), ("and", mm, x)])
    return (rng.choice(["eq", "ne"]), ("xor", inner, mm), ("bvv", 0, w))
@T("E13.eq_if")
def _(rng, w):
    a, b = _c(rng, w), _c(rng, w)
    it = ("ite", _cond(rng, w), a, b)
    k = rng.choice([a, b, _c(rng, w)])
    return rng.choice([(rng.choice(["eq", "ne"]), it, k), (rng.choice(["eq", "ne"]), k, it)])
@T("E16.eq_and_mask_const")
def _(rng, w):
    zb = rng.randrange(0, w + 1)
    m = rng.getrandbits(w) >> zb if zb < w else 0
    b = rng.choice([rng.getrandbits(w) >> zb if zb < w else 0, rng.getrandbits(w), 0])
    return (rng.choice(["eq", "ne"]), ("and", _x(rng, w), ("bvv", m, w)), ("bvv", b, w))
@T("E17.eq_extract_zext_const")
def _(rng, w):
    n = rng.choice([1, 2, 8])
    inner_w = w
    hi = rng.randrange(0, inner_w + n)
    zx = rng.choice([("zext:%d" % n, _x(rng, inner_w)), ("concat", ("bvv", 0, n), _x(rng, inner_w))])
    return (rng.choice(["eq", "ne"]), ("extract:%d:0" % hi, zx), const(rng, hi + 1))
@T("E18.cmp_zext_const")
def _(rng, w):
    n = rng.choice([1, 2, 8])
    zx = rng.choice([("zext:%d" % n, _x(rng, w)), ("concat", ("bvv", 0, n), _x(rng, w))])
    b = rng.choice([const(rng, w + n), ("bvv", rng.getrandbits(w), w + n)])
    return (rng.choice(["eq", "ne", "uge"]), zx, b)
@T("E19.eq_bits_mismatch")
def _(rng, w):
    if w < 2:
        return ("eq", _x(rng, w), _c(rng, w))
    k = rng.randrange(1, w)
    a = ("concat", const(rng, k), _x(rng, w - k))
    b = rng.choice([("concat", const(rng, k), _x(rng, w - k)), const(rng, w), ("zext:%d" % k, _x(rng, w - k))])
    return rng.choice([(rng.choice(["eq", "ne"]), a, b), (rng.choice(["eq", "ne"]), b, a)])
@T("N.not_cmp")
def _(rng, w): return ("Not", (rng.choice(BV_CMP), _x(rng, w), _x(rng, w)))
@T("N.not_not")
def _(rng, w): return ("Not", ("Not", _cond(rng, w)))
@T("A.and_lits")
def _(rng, w):
    cs = [_cond(rng, w) for _ in range(rng.choice([1, 2, 3]))] + [("boolv", rng.randrange(2)) for _ in range(rng.choice([0, 1, 2]))]
    rng.shuffle(cs)
    return (rng.choice(["And", "Or"]),) + tuple(cs) if len(cs) >= 2 else ("And", cs[0], ("boolv", 1))
@T("A2.and_eq_eq")
def _(rng, w):
    x = _x(rng, w)
    return ("And", ("eq", x, _c(rng, w)), ("eq", x, _c(rng, w)))
@T("A3.and_uge_ne")
def _(rng, w):
    x, c = _x(rng, w), rng.choice([_c(rng, w), _x(rng, w)])
    return ("And", ("uge", x, c), ("ne", x, rng.choice([c, c, _c(rng, w)])))
@T("A5.and_eq_ne_lists")
def _(rng, w):
    x = var(rng, w, "x")
    parts = [(rng.choice(["eq", "ne"]), x, ("bvv", rng.randrange(min(1 << w, 4)), w)) for _ in range(rng.choice([2, 3, 4]))]
    return ("And",) + tuple(parts)
@T("A4.and_flatten")
def _(rng, w):
    a, b = _cond(rng, w), _cond(rng, w)
    op = rng.choice(["And", "Or"])
    return (op, (op, a, b), a, (op, b, _cond(rng, w)))
@T("I.ite")
def _(rng, w):
    c = _cond(rng, w)
    x, y, z = _x(rng, w), _x(rng, w), _x(rng, w)
    nc = ("Not", c)
    return rng.choice([("ite", ("boolv", 1), x, y), ("ite", ("boolv", 0), x, y), ("ite", c, x, x),
                       ("ite", c, ("ite", c, x, y), z), ("ite", c, ("ite", nc, x, y), z),
                       ("ite", c, z, ("ite", c, x, y)), ("ite", c, z, ("ite", nc, x, y)),
                       ("ite", c, ("boolv", 1), ("boolv", 0)), ("ite", c, ("boolv", 0), ("boolv", 1)),
                       ("ite", c, ("boolv", 1), ("boolv", 1))])
@T("I.ite_multiarg")
def _(rng, w):
    c = _cond(rng, w)
    op = rng.choice(["add", "xor", "and", "or", "mul"])
    a, b, d, e, f = (var(rng, w, "xyz") if rng.random() < 0.8 else _c(rng, w) for _ in range(5))
    return rng.choice([("ite", c, (op, a, b, d), (op, a, e, f)), ("ite", c, (op, a, b, d), (op, a, b, f)), ("ite", c, (op, a, b), (op, e, b)),
                       ("ite", c, ("concat", a, b, d), ("concat", a, e, f)), ("ite", c, ("sub", a, b), ("sub", a, e))])
@T("J1.invert_if")
def _(rng, w):
    ww = rng.choice([1, 1, w])
    return ("not", ("ite", _cond(rng, ww), ("bvv", 1, ww), rng.choice([("bvv", 0, ww), ("bvv", 0, ww), _x(rng, ww), ("bvv", 1, ww)])))
@T("Z.ext_zero")
def _(rng, w): return (rng.choice(["zext:0", "sext:0", "zext:1", "sext:2"]), _x(rng, w))
@T("Z2.zext_zext")
def _(rng, w): return ("zext:%d" % rng.choice([1, 2]), ("zext:%d" % rng.choice([1, 3]), _x(rng, w)))
@T("T.extract")
def _(rng, w):
    big = w + rng.choice([0, 1, 2, 8])
    lo = rng.randrange(0, big - w + 1)
    hi = lo + w - 1
    k = rng.randrange(1, big) if big > 1 else 1
    src = rng.choice([
        _x(rng, big),
        ("zext:%d" % k, _x(rng, big - k)) if big > 1 else _x(rng, big),
        ("sext:%d" % k, _x(rng, big - k)) if big > 1 else _x(rng, big),
        ("concat", _x(rng, k), _x(rng, big - k)) if big > 1 else _x(rng, big),
        ("concat", _x(rng, k), _c(rng, big - k)) if big > 1 else _x(rng, big),
        ("extract:%d:%d" % (big + 1, 2), _x(rng, big + 3)),
        (rng.choice(["and", "or", "xor"]), _x(rng, big), rng.choice([_x(rng, big), _c(rng, big)])),
        ("ite", _cond(rng, big), _c(rng, big), _c(rng, big)),
        ("not", _x(rng, big)),
    ])
    return ("extract:%d:%d" % (hi, lo), src)
@T("T4.extract_reverse")
def _(rng, w):
    big = rng.choice([16, 24, 32, 64])
    parts = rng.choice([1, 2])
    if parts == 1:
        src = ("reverse", _x(rng, big))
    else:
        src = ("reverse", ("concat", _x(rng, 8), _x(rng, big - 8)))
    lo = 8 * rng.randrange(0, big // 8) if rng.random() < 0.7 else rng.randrange(0, big)
    hi = min(big - 1, lo + rng.choice([7, 15, 3, 8]))
    return ("extract:%d:%d" % (hi, lo), src)
@T("V2.reverse_extract_reverse")
def _(rng, w):
    """a byte-swapped value sliced at any bit offset (byte aligned or not), the slice a whole number of bytes or not, swapped again"""
    big = rng.choice([16, 24, 32, 40, 64])
    x = rng.choice([var(rng, big, "x"), _x(rng, big)])
    nbytes = rng.randrange(1, big // 8 + 1)
    length = 8 * nbytes if rng.random() < 0.8 else rng.randrange(1, big + 1)
    lo = rng.randrange(0, big - length + 1)
    if rng.random() < 0.4:
        lo = 8 * (lo // 8)
    hi = lo + length - 1
    inner = ("extract:%d:%d" % (hi, lo), ("reverse", x))
    t = ("reverse", inner) if length % 8 == 0 else inner
    if rng.random() < 0.3:
        t = ("add", t, G_const(rng, length))
    return t
@T("K.concat")
def _(rng, w):
    parts = []
    for _ in range(rng.choice([2, 3, 4])):
        pw = rng.choice([1, 2, 3, 8])
        parts.append(rng.choice([_x(rng, pw), _c(rng, pw), _c(rng, pw), ("concat", _x(rng, pw), _c(rng, 1)) if pw > 0 else _c(rng, pw)]))
    return ("concat",) + tuple(parts)
@T("K4.concat_extracts")
def _(rng, w):
    big = rng.choice([8, 16, 32])
    x = var(rng, big, "x")
    cut = rng.randrange(1, big)
    cut2 = rng.choice([cut, cut, max(1, cut - 1)])
    return ("concat", ("extract:%d:%d" % (big - 1, cut), x), ("extract:%d:%d" % (cut2 - 1, 0), x))
@T("V.reverse")
def _(rng, w):
    w8 = rng.choice([8, 16, 24, 32, 64])
    x = var(rng, w8, "x")
    nb = w8 // 8
    return rng.choice([
        ("reverse", ("reverse", x)),
        ("reverse", _x(rng, 8)),
        ("reverse", ("concat",) + tuple(("extract:%d:%d" % (8 * i + 7, 8 * i), x) for i in range(nb))) if nb > 1 else ("reverse", x),
        ("reverse", ("concat",) + tuple(_x(rng, 8) for _ in range(max(2, nb)))),
        ("reverse", ("concat", ("reverse", _x(rng, 16)), ("reverse", _x(rng, 8)))),
        ("reverse", ("extract:%d:%d" % (w8 - 1, 8 * rng.randrange(0, nb)), ("reverse", x))),
        ("reverse", _c(rng, w8)),
    ])
@T("C1.fold")
def _(rng, w):
    op = rng.choice(BV_BIN + BV_CMP)
    return (op, _c(rng, w), _c(rng, w))
@T("C1.fold_unary")
def _(rng, w):
    return rng.choice([("not", _c(rng, w)), ("neg", _c(rng, w)), ("zext:%d" % rng.choice([1, 8]), _c(rng, w)),
                       ("sext:%d" % rng.choice([1, 8]), _c(rng, w)),
                       ("extract:%d:%d" % (w - 1, rng.randrange(0, w)), _c(rng, w)),
                       ("concat", _c(rng, w), _c(rng, rng.choice([1, 3, 8]))),
                       ("reverse", _c(rng, rng.choice([8, 16, 24, 32, 64, 128])))])
@T("Q.coerce_int")
def _(rng, w):
    op = rng.choice(["add", "sub", "mul", "and", "or", "xor", "udiv", "umod", "shl", "ashr", "eq", "ne"])
    k = ("int", rng.choice([0, 1, 2, 5, (1 << w) - 1, 1 << w, (1 << w) + 3, -1, -2, -(1 << w)]))
    return rng.choice([(op, _x(rng, w), k), (op, k, _x(rng, w))])
@T("Q4.slice")
def _(rng, w):
    big = w + rng.choice([0, 1, 8])
    lo = rng.randrange(0, big - w + 1)
    return ("slice:%d:%d" % (lo + w - 1, lo), _x(rng, big))


def rule_directed(rng):
    name, f = rng.choice(TEMPLATES)
    w = rng.choice(SMALL_WIDTHS if rng.random() < 0.5 else WIDTHS)
    return name, f(rng, w)


def near_miss(rng):
    """a rule-directed tree with ONE leaf changed in kind: a literal becomes a variable of the same width, a variable becomes a
    literal or another variable.  The guards of a simplifier (operand must be constant / the same / different) are exactly what
    such a change violates, so a rule that fires anyway fires wrongly."""
    name, tree = rule_directed(rng)
    if rng.random() < 0.4:
        # … or ONE operator replaced by a sibling of the same type (signed/unsigned, strict/non-strict, mirrored, lshr/ashr, and/or):
        # a rule keyed on the operator's family instead of the operator fires wrongly
        sib = {"uge": ["sge", "ugt", "ule"], "ugt": ["sgt", "uge"], "ule": ["sle", "ult", "uge"], "ult": ["slt", "ule"],
               "sge": ["uge", "sgt"], "sgt": ["ugt", "sge"], "sle": ["ule", "slt"], "slt": ["ult", "sle"], "eq": ["ne"], "ne": ["eq"],
               "lshr": ["ashr", "shl"], "ashr": ["lshr"], "shl": ["lshr"], "and": ["or", "xor"], "or": ["and", "xor"], "xor": ["or", "and"],
               "add": ["sub"], "sub": ["add"], "And": ["Or"], "Or": ["And"], "udiv": ["sdiv"], "sdiv": ["udiv"], "umod": ["smod"], "smod": ["umod"],
               "rotl": ["rotr"], "rotr": ["rotl"]}
        ops = []

        def walk_ops(t, path):
            if isinstance(t, tuple) and t[0] not in ("bvv", "bvs", "boolv", "bools", "int"):
                if t[0] in sib and (t[0] not in ("sub",) or len(t) == 3):
                    ops.append(path)
                for i, c in enumerate(t[1:], 1):
                    walk_ops(c, path + (i,))
        walk_ops(tree, ())
        if ops:
            pth = rng.choice(ops)

            def swap(t, path):
                if not path:
                    return (rng.choice(sib[t[0]]),) + t[1:]
                return t[:path[0]] + (swap(t[path[0]], path[1:]),) + t[path[0] + 1:]
            return name + "+near-miss-op", swap(tree, pth)
    paths = []

    def walk(t, path):
        if isinstance(t, tuple):
            if t[0] in ("bvv", "bvs"):
                paths.append(path)
            elif t[0] not in ("boolv", "bools", "int"):
                for i, c in enumerate(t[1:], 1):
                    walk(c, path + (i,))
    walk(tree, ())
    if not paths:
        return name, tree
    pth = rng.choice(paths)

    def put(t, path):
        if not path:
            w = t[2]
            if t[0] == "bvv":
                return ("bvs", rng.choice("xyz") + str(w), w)
            return ("bvv", rng.randrange(1 << min(w, 16)), w) if rng.random() < 0.5 else ("bvs", rng.choice("xyz") + str(w), w)
        return t[:path[0]] + (put(t[path[0]], path[1:]),) + t[path[0] + 1:]
    return name + "+near-miss", put(tree, pth)


def random_tree(rng):
    w = rng.choice(SMALL_WIDTHS if rng.random() < 0.6 else WIDTHS)
    d = rng.choice([2, 3, 3, 4])
    return "random", (rand_bool(rng, w, d) if rng.random() < 0.35 else rand_bv(rng, w, d))


def exhaustive_small(widths=(1, 2), ops=None):
    """every depth-1 and a slice of depth-2 trees over constants and variables x,y at tiny widths"""
    ops = ops or (BV_BIN + BV_CMP)
    for w in widths:
        leaves = [("bvs", "x%d" % w, w), ("bvs", "y%d" % w, w)] + [("bvv", v, w) for v in range(1 << w)]
        for op in ops:
            for a in leaves:
                for b in leaves:
                    yield "exh1", (op, a, b)
        for op1 in ["add", "sub", "xor", "and", "or", "shl", "lshr", "ashr"]:
            for op2 in ["add", "sub", "xor", "and", "or", "shl", "eq", "ne"]:
                for c1 in range(1 << w):
                    for c2 in range(1 << w):
                        x = ("bvs", "x%d" % w, w)
                        yield "exh2", (op2, (op1, x, ("bvv", c1, w)), ("bvv", c2, w))


# ------------------------------------------------------------------ extension idioms (C09 round 5)
def ext_idiom(bit_src, i, k, val_src, hi, lo):
    """k copies of ONE bit bit_src[i:i] in front of the slice val_src[hi:lo] (the whole source when hi:lo spans it): the shape in
    which Z3 prints sign_extend — a genuine sign extension only when bit_src is val_src and i == hi"""
    wv = val_src[2]
    val = val_src if (lo == 0 and hi == wv - 1) else ("extract:%d:%d" % (hi, lo), val_src)
    return ("concat",) + (("extract:%d:%d" % (i, i), bit_src),) * k + (val,)


def ext_idiom_class(same_src, i, hi, lo):
    """predicate class of an extension idiom (for finding signatures)"""
    if not same_src:
        return "bit-of-another-source"
    if i == hi:
        return "sign-bit-of-the-slice"
    if i == hi - lo and lo > 0:
        return "bit-at-slice-width-minus-one-of-an-offset-slice"
    if lo <= i < hi:
        return "inner-bit-of-the-slice"
    return "bit-outside-the-slice"


def ext_idioms_all(W, ks=(1, 2), names=("x", "y")):
    """every (class, tree) of the family at source width W: sign-extension look-alikes for ALL i, hi, lo (one and two sources),
    mixed bits, zero/one fills, and the explicit sext/zext of every slice"""
    x, y = ("bvs", "%s%d" % (names[0], W), W), ("bvs", "%s%d" % (names[1], W), W)
    for hi in range(W):
        for lo in range(hi + 1):
            sl = x if (lo == 0 and hi == W - 1) else ("extract:%d:%d" % (hi, lo), x)
            for k in ks:
                for i in range(W):
                    yield ext_idiom_class(True, i, hi, lo), ext_idiom(x, i, k, x, hi, lo)
                    if k == ks[0] and (i in (hi, hi - lo, lo) or i == W - 1):
                        yield ext_idiom_class(False, i, hi, lo), ext_idiom(y, i, k, x, hi, lo)
                yield "zero-fill", ("concat", ("bvv", 0, k), sl)
                yield "one-fill", ("concat", ("bvv", (1 << k) - 1, k), sl)
                yield "explicit-sext", ("sext:%d" % k, sl)
                yield "explicit-zext", ("zext:%d" % k, sl)
            # two DIFFERENT bits in front (every bit of a sign extension is the same bit)
            for i, j in ((hi, hi - lo), (hi - lo, hi), (hi, lo)):
                if i != j:
                    yield "mixed-bits", ("concat", ("extract:%d:%d" % (i, i), x), ("extract:%d:%d" % (j, j), x), sl)


def ext_idiom_random(rng, W=None):
    """one member of the family at a random width, optionally under an arithmetic/logical wrapper"""
    W = W or rng.choice([3, 4, 5, 6, 8])
    x, y = ("bvs", "x%d" % W, W), ("bvs", "y%d" % W, W)
    hi = rng.randrange(W)
    lo = rng.randrange(hi + 1)
    k = rng.choice([1, 1, 2, 3, 8])
    same = rng.random() < 0.8
    i = rng.choice([hi, hi - lo, hi - lo, lo, rng.randrange(W)])
    t = ext_idiom(x if same else y, i, k, x, hi, lo)
    cls = ext_idiom_class(same, i, hi, lo)
    w = k + hi - lo + 1
    r = rng.random()
    if r < 0.2:
        t = ("add", t, const(rng, w))
    elif r < 0.3:
        t = ("xor", t, ("zext:%d" % (w - 1), ("extract:0:0", y))) if w > 1 else t
    elif r < 0.4:
        t = (rng.choice(["ult", "sle", "eq"]), t, const(rng, w))
    elif r < 0.5:
        t = ("extract:%d:%d" % (w - 1, rng.randrange(w)), t)
    return cls, t


# ------------------------------------------------------------------ shapes only the SOLVER's simplifier rewrites (C05 round 5)
def z3_rewritable(rng, w=None):
    """(name, tree): expressions claripy's own construction-time simplifiers leave as written but Z3's simplifier turns into another
    shape — a leaf, a constant, or a smaller non-leaf: cancelling sums, complementary masks, x ^ y ^ x across nesting, slices of a
    concatenation padded with a vanishing term, re-joined halves, absorbed conditionals"""
    w = w or rng.choice([2, 3, 4, 8, 16, 32])
    x, y, z = ("bvs", "x%d" % w, w), ("bvs", "y%d" % w, w), ("bvs", "z%d" % w, w)
    x, y, z = rng.sample([x, y, z], 3)
    m = ("bvv", rng.randrange(1, 1 << w), w)
    zero_times = lambda v: ("mul", ("bvv", 0, w), v)  # noqa: E731
    rest = rng.choice([None, None, ("mul", z, z), ("xor", z, m), z])
    cut = rng.randrange(1, w) if w > 1 else 1
    shapes = [
        ("Z.add_sub_cancel", lambda: ("sub", ("add", x, y), y)),
        ("Z.double_minus_twice", lambda: ("sub", ("sub", ("mul", x, ("bvv", 2 % (1 << w), w)), x), x)),
        ("Z.sum3_minus_sum2", lambda: ("sub", ("add", x, y, z), ("add", z, y))),
        ("Z.and_complement", lambda: ("and", ("or", x, y), ("not", ("or", x, y)))),
        ("Z.or_complement", lambda: ("or", ("xor", x, y), ("not", ("xor", x, y)))),
        ("Z.xor_cancel_across", lambda: ("xor", ("xor", x, y), ("add", x, zero_times(z)))),
        ("Z.split_masks", lambda: ("or", ("and", x, m), ("and", x, ("not", m)))),
        ("Z.add_neg", lambda: ("add", ("add", x, y), ("neg", x))),
        ("Z.extract_of_concat", lambda: ("add", ("extract:%d:0" % (w - 1), ("concat", x, y)), zero_times(z))),
        ("Z.high_extract_of_concat", lambda: ("xor", ("extract:%d:%d" % (2 * w - 1, w), ("concat", x, y)), ("sub", z, z))),
        ("Z.rejoined_halves", lambda: ("add", ("concat", ("extract:%d:%d" % (w - 1, cut), x), ("extract:%d:0" % (cut - 1), x)), zero_times(y)) if w > 1 else ("sub", ("add", x, y), y)),
        ("Z.ite_same_after_rewrite", lambda: ("ite", ("ult", y, z), ("sub", ("add", x, y), y), ("add", x, zero_times(z)))),
        ("Z.distribute_cancel", lambda: ("sub", ("mul", ("add", x, ("bvv", 1, w)), m), ("mul", x, m))),
        ("Z.shift_pair", lambda: ("sub", ("shl", x, ("bvv", 1 % (1 << w), w)), ("add", x, x)) if w > 1 else ("sub", ("add", x, y), y)),
        ("Z.not_not_sum", lambda: ("sub", ("not", ("not", ("add", x, y))), x)),
        ("Z.zext_of_cancel", lambda: ("zext:%d" % rng.choice([1, 8]), ("sub", ("add", x, y), y))),
    ]
    name, f = rng.choice(shapes)
    t = f()
    if rest is not None and E_width(t) == w:
        t = ("add", t, rest) if rng.random() < 0.5 else ("xor", rest, t)
    return name, t


def E_width(t):
    from lib import exprs as E
    return E.width(t)
