"""Floating point (C02 / C26): operand pools as BIT PATTERNS, evaluation of the REAL claripy folding, evaluation of the
REAL claripy->Z3 translation on Z3 numerals built from bit patterns (Z3's FPA is the SMT-LIB reference used by the
oracle; the Lean soft-float spec is compared against both in the correspondence).  Floats never travel as decimal text."""
import math, struct

RMS = ["RNE", "RNA", "RTP", "RTN", "RTZ"]
RM_NAME = {"RNE": "RM_NearestTiesEven", "RNA": "RM_NearestTiesAwayFromZero", "RTP": "RM_TowardsPositiveInf",
           "RTN": "RM_TowardsNegativeInf", "RTZ": "RM_TowardsZero"}
FMT = {"F": (8, 24), "D": (11, 53)}
WIDTH = {"F": 32, "D": 64}


def bits_to_float(fmt, b):
    if fmt == "F":
        return struct.unpack("<f", struct.pack("<I", b))[0]
    return struct.unpack("<d", struct.pack("<Q", b))[0]


def float_to_bits(fmt, x):
    """x must be exactly representable in fmt (struct.pack('f') would round / raise otherwise)"""
    if fmt == "F":
        return struct.unpack("<I", struct.pack("<f", x))[0]
    return struct.unpack("<Q", struct.pack("<d", x))[0]


def is_nan_bits(fmt, b):
    eb, sb = FMT[fmt]
    e = (b >> (sb - 1)) & ((1 << eb) - 1)
    m = b & ((1 << (sb - 1)) - 1)
    return e == (1 << eb) - 1 and m != 0


def canon(fmt, b):
    """bit pattern with every NaN collapsed (NaN payloads are unspecified)"""
    return "nan" if is_nan_bits(fmt, b) else b


def boundary_bits(fmt):
    eb, sb = FMT[fmt]
    w = eb + sb
    mb = sb - 1
    bias = (1 << (eb - 1)) - 1
    out = set()

    def mk(s, e, m):
        return (s << (w - 1)) | (e << mb) | m
    for s in (0, 1):
        out |= {mk(s, 0, 0), mk(s, 0, 1), mk(s, 0, 2), mk(s, 0, 3), mk(s, 0, (1 << mb) - 1), mk(s, 0, 1 << (mb - 1)),
                mk(s, 1, 0), mk(s, 1, 1), mk(s, (1 << eb) - 2, (1 << mb) - 1), mk(s, (1 << eb) - 2, 0),
                mk(s, (1 << eb) - 1, 0),
                mk(s, bias, 0), mk(s, bias, 1), mk(s, bias - 1, (1 << mb) - 1), mk(s, bias - 1, 0), mk(s, bias + 1, 0),
                mk(s, bias, 1 << (mb - 1)), mk(s, bias + 1, 1 << (mb - 1)), mk(s, bias + 1, 1 << (mb - 2)),
                mk(s, bias - 2, 0), mk(s, bias - 1, 1 << (mb - 1)), mk(s, bias + 1, 3 << (mb - 2)),
                mk(s, bias + 3, 0), mk(s, bias + 3, 1 << (mb - 2)), mk(s, bias + 3, 1 << (mb - 1)),   # 8, 10, 12
                mk(s, bias - 4, (0x999999999999A if fmt == "D" else 0x4CCCCD) & ((1 << mb) - 1)),          # 0.1
                mk(s, bias, (0x3333333333333 if fmt == "D" else 0x19999A) & ((1 << mb) - 1)),               # 1.2
                mk(s, bias + 1, (1 << (mb - 1)) | (1 << (mb - 2))),   # 3.5
                mk(s, bias + 1, 1 << (mb - 2)),   # 2.5
                mk(s, bias - 1, 0),   # 0.5
                mk(s, bias, 1 << (mb - 1)),   # 1.5
                }
        for k in (7, 8, 24, 31, 32, 53, 63, 64):
            # 2^k - 1 (if representable: k <= sb), 2^k, 2^k + 1 (if representable), 2^k + ulp
            if bias + k < (1 << eb) - 1:
                out.add(mk(s, bias + k, 0))
                out.add(mk(s, bias + k, 1))
                if k <= mb:
                    out.add(mk(s, bias + k, 1 << (mb - k)))           # 2^k + 1
                    if k >= 1:
                        out.add(mk(s, bias + k, 1 << (mb - k - 0) >> 1))  # 2^k + 0.5
                if 1 <= k <= sb:
                    out.add(mk(s, bias + k - 1, (1 << mb) - (1 << (sb - k)) if k < sb else (1 << mb) - 1))  # 2^k - 1
                out.add(mk(s, bias + k - 1, (1 << mb) - 1))           # pred(2^k)
    out.add(mk(0, (1 << eb) - 1, 1 << (mb - 1)))      # quiet NaN
    return sorted(out)


def rand_bits(rng, fmt):
    eb, sb = FMT[fmt]
    w = eb + sb
    mb = sb - 1
    bias = (1 << (eb - 1)) - 1
    k = rng.random()
    if k < 0.25:
        return rng.getrandbits(w)
    s = rng.getrandbits(1)
    if k < 0.6:   # moderate exponents so sums/products stay finite and inexact
        e = bias + rng.randrange(-6, 7)
    elif k < 0.8:
        e = rng.choice([0, 1, 2, (1 << eb) - 2, (1 << eb) - 3, bias + sb, bias + sb - 1, bias + sb + 1, bias - sb])
    else:
        e = rng.randrange(0, (1 << eb) - 1)
    m = rng.choice([rng.getrandbits(mb), rng.getrandbits(3) << (mb - 3), rng.getrandbits(3), (1 << mb) - 1 - rng.getrandbits(2)])
    return (s << (w - 1)) | (e << mb) | m


# ----------------------------------------------------------------------------------------------------------------------
# operations: (name, argument kinds, result kind).  kinds: r = rounding mode, f = float of the case's format,
#             g = float of the OTHER format, bN = bitvector of N bits, n = int size, -> f | g | bool | bN
def rm_obj(rm):
    import claripy
    return getattr(claripy.fp.RM, RM_NAME[rm])


def sort_obj(fmt):
    import claripy
    return claripy.FSORT_FLOAT if fmt == "F" else claripy.FSORT_DOUBLE


def other(fmt):
    return "D" if fmt == "F" else "F"


def real_fpv(fmt, b):
    """claripy.FPV built from a bit pattern through the public constructor"""
    import claripy
    return claripy.FPV(bits_to_float(fmt, b), sort_obj(fmt))


def ast_result(r, fmt_hint=None):
    """canonical form of a folded AST: ('f', fmt, bits|'nan') | ('bv', size, value) | ('b', bool) | ('unfolded', op)"""
    if r.op == "FPV":
        fmt = "F" if r.args[1].length == 32 else "D"
        v = r.args[0]
        try:
            b = float_to_bits(fmt, v)
        except OverflowError:
            return ("err", "OverflowError-pack")
        if fmt == "F" and not (math.isnan(v) or bits_to_float("F", b) == v):
            return ("err", "FLOAT-value-not-binary32")
        return ("f", fmt, canon(fmt, b))
    if r.op == "BVV":
        return ("bv", r.length, r.args[0])
    if r.op == "BoolV":
        return ("b", bool(r.args[0]))
    return ("unfolded", r.op)


def real_fold(op, fmt, rm, a):
    """a: tuple of operands: float operands as bit patterns of `fmt`, bit-vector operands as (value, size), sizes as ints"""
    import claripy
    R = rm_obj(rm) if rm else None
    S = sort_obj(fmt)
    try:
        if op in ("fpAdd", "fpSub", "fpMul", "fpDiv"):
            r = getattr(claripy, op)(R, real_fpv(fmt, a[0]), real_fpv(fmt, a[1]))
        elif op == "fpSqrt":
            r = claripy.fpSqrt(R, real_fpv(fmt, a[0]))
        elif op in ("fpAbs", "fpNeg", "fpIsNaN", "fpIsInf", "fpToIEEEBV"):
            r = getattr(claripy, op)(real_fpv(fmt, a[0]))
        elif op in ("fpEQ", "fpNEQ", "fpLT", "fpLEQ", "fpGT", "fpGEQ"):
            r = getattr(claripy, op)(real_fpv(fmt, a[0]), real_fpv(fmt, a[1]))
        elif op == "fpToFP_fp":      # a[0] is a float of the OTHER format, converted to fmt
            r = claripy.fpToFP(R, real_fpv(other(fmt), a[0]), S)
        elif op == "fpToFP_sbv":
            r = claripy.fpToFP(R, claripy.BVV(a[0][0], a[0][1]), S)
        elif op == "fpToFPUnsigned":
            r = claripy.fpToFPUnsigned(R, claripy.BVV(a[0][0], a[0][1]), S)
        elif op == "fpToFP_bv":
            r = claripy.fpToFP(claripy.BVV(a[0][0], WIDTH[fmt]), S)
        elif op in ("fpToSBV", "fpToUBV"):
            r = getattr(claripy, op)(R, real_fpv(fmt, a[0]), a[1])
        elif op == "fpFP":
            eb, sb = FMT[fmt]
            r = claripy.fpFP(claripy.BVV(a[0], 1), claripy.BVV(a[1], eb), claripy.BVV(a[2], sb - 1))
        else:
            raise KeyError(op)
    except Exception as e:  # noqa
        return ("err", type(e).__name__)
    return ast_result(r)


class ZF:
    """Z3 side: numerals from bit patterns, claripy's own _op_raw_* translation, evaluation by z3.simplify"""

    def __init__(self):
        import z3, claripy
        self.z3 = z3
        self.bz = claripy.backends.z3
        self.ctx = self.bz._context

    def sort(self, fmt):
        return self.z3.FPSort(*FMT[fmt], ctx=self.ctx)

    def num(self, fmt, b):
        z3 = self.z3
        return z3.simplify(z3.fpBVToFP(z3.BitVecVal(b, WIDTH[fmt], self.ctx), self.sort(fmt)))

    def rm(self, rm):
        return self.bz._convert(rm_obj(rm))

    def fp_bits(self, fmt, e):
        """bit pattern of a Z3 FP numeral, 'nan' for NaN, None if `e` is not a numeral"""
        z3 = self.z3
        e = z3.simplify(e)
        if not z3.is_fp_value(e):
            return None
        if e.isNaN():
            return "nan"
        b = z3.simplify(z3.fpToIEEEBV(e))
        if not z3.is_bv_value(b):
            return None
        return b.as_long()

    def value(self, e, fmt_of_result=None):
        z3 = self.z3
        r = z3.simplify(e)
        if z3.is_fp_value(r):
            eb, sb = r.ebits(), r.sbits()
            f = "F" if (eb, sb) == (8, 24) else "D"
            return ("f", f, self.fp_bits(f, r))
        if z3.is_bv_value(r):
            return ("bv", r.size(), r.as_long())
        if z3.is_true(r):
            return ("b", True)
        if z3.is_false(r):
            return ("b", False)
        return ("?", r.sexpr())

    def solver_side(self, op, fmt, rm, a):
        z3 = self.z3
        bz = self.bz
        R = self.rm(rm) if rm else None
        if op in ("fpAdd", "fpSub", "fpMul", "fpDiv"):
            e = getattr(bz, "_op_raw_" + op)(R, self.num(fmt, a[0]), self.num(fmt, a[1]))
        elif op == "fpSqrt":
            e = bz._op_raw_fpSqrt(R, self.num(fmt, a[0]))
        elif op in ("fpAbs", "fpNeg", "fpIsNaN", "fpIsInf", "fpToIEEEBV"):
            e = getattr(bz, "_op_raw_" + op)(self.num(fmt, a[0]))
        elif op in ("fpEQ", "fpNEQ", "fpLT", "fpLEQ", "fpGT", "fpGEQ"):
            e = getattr(bz, "_op_raw_" + op)(self.num(fmt, a[0]), self.num(fmt, a[1]))
        elif op == "fpToFP_fp":
            e = bz._op_raw_fpToFP(R, self.num(other(fmt), a[0]), self.sort(fmt))
        elif op == "fpToFP_sbv":
            e = bz._op_raw_fpToFP(R, z3.BitVecVal(a[0][0], a[0][1], self.ctx), self.sort(fmt))
        elif op == "fpToFPUnsigned":
            e = bz._op_raw_fpToFPUnsigned(R, z3.BitVecVal(a[0][0], a[0][1], self.ctx), self.sort(fmt))
        elif op == "fpToFP_bv":
            e = bz._op_raw_fpToFP(z3.BitVecVal(a[0][0], WIDTH[fmt], self.ctx), self.sort(fmt))
        elif op in ("fpToSBV", "fpToUBV"):
            e = getattr(bz, "_op_raw_" + op)(R, self.num(fmt, a[0]), a[1])
        elif op == "fpFP":
            eb, sb = FMT[fmt]
            e = bz._op_raw_fpFP(z3.BitVecVal(a[0], 1, self.ctx), z3.BitVecVal(a[1], eb, self.ctx), z3.BitVecVal(a[2], sb - 1, self.ctx))
        else:
            raise KeyError(op)
        return self.value(e)

    def literal_in(self, fmt, b):
        """bit pattern that reaches Z3 for claripy.FPV(<value of b>, sort)"""
        e = self.bz.convert(real_fpv(fmt, b))
        return self.fp_bits(fmt, e)

    def literal_out(self, fmt, b):
        """python float claripy extracts from the Z3 numeral with bit pattern b -> bits (by struct, 'nan' collapsed)"""
        e = self.num(fmt, b)
        v = self.bz._abstract_to_primitive(self.ctx.ref(), e.as_ast())
        if not isinstance(v, float):
            return ("err", "type:" + type(v).__name__)
        try:
            return canon(fmt, float_to_bits(fmt, v)) if (fmt == "D" or math.isnan(v) or math.isinf(v) or
                                                         bits_to_float("F", float_to_bits("F", v)) == v) else ("inexact", v)
        except OverflowError:
            return ("err", "OverflowError")


def unspecified(op, fmt, rm, a, zres):
    """SMT-LIB leaves the result unspecified: NaN bit patterns, float->int conversion of NaN/inf/out of range"""
    if op == "fpToIEEEBV":
        return is_nan_bits(fmt, a[0])
    if op in ("fpToSBV", "fpToUBV"):
        b = a[0]
        eb, sb = FMT[fmt]
        e = (b >> (sb - 1)) & ((1 << eb) - 1)
        if e == (1 << eb) - 1:
            return True
        from fractions import Fraction
        x = Fraction(bits_to_float(fmt, b))
        n = round_to_integral(rm, x)
        size = a[1]
        if op == "fpToSBV":
            return not (-(1 << (size - 1)) <= n <= (1 << (size - 1)) - 1)
        return not (0 <= n <= (1 << size) - 1)
    return False


def round_to_integral(rm, x):
    """exact reference: rational -> integer in the five SMT-LIB modes"""
    fl = math.floor(x)
    if x == fl:
        return fl
    if rm == "RTN":
        return fl
    if rm == "RTP":
        return fl + 1
    if rm == "RTZ":
        return fl if x > 0 else fl + 1
    d = x - fl
    from fractions import Fraction
    if d < Fraction(1, 2):
        return fl
    if d > Fraction(1, 2):
        return fl + 1
    if rm == "RNE":
        return fl if fl % 2 == 0 else fl + 1
    return fl + 1 if x > 0 else fl   # RNA: away from zero


# ----------------------------------------------------------------------------------------------------------------------
# line protocol (lean/DriverFS/FP.lean)
def fmt_case(op, fmt, rm, a, prefix="fp"):
    flat = []
    for v in a:
        if isinstance(v, tuple):
            flat += [str(v[0]), str(v[1])]
        else:
            flat.append(str(v))
    if op == "fpToFP_bv":
        flat = flat[:1]
    return "%s %s %s %s %s" % (prefix, op, fmt, rm or "-", " ".join(flat))


def fmt_res(r):
    if r[0] == "f":
        return "f:%s:%s" % (r[1], r[2])
    if r[0] == "bv":
        return "bv:%d:%d" % (r[1], r[2])
    if r[0] == "b":
        return "b:%d" % (1 if r[1] else 0)
    if r[0] == "err":
        return "!" + r[1]
    return "?" + str(r)


OPS_ARITH = ("fpAdd", "fpSub", "fpMul", "fpDiv")
OPS_UNARY = ("fpAbs", "fpNeg", "fpIsNaN", "fpIsInf", "fpToIEEEBV")
OPS_CMP = ("fpEQ", "fpNEQ", "fpLT", "fpLEQ", "fpGT", "fpGEQ")


def int_pool(rng, size, n_random):
    ints = {0, 1, 2, 3, (1 << size) - 1, (1 << (size - 1)), (1 << (size - 1)) - 1, (1 << (size - 1)) + 1}
    for k in (24, 25, 53, 54, 60):
        if k < size:
            ints |= {(1 << k) - 1, (1 << k) + 1, (1 << k) + 3, (3 << (k - 1)) + 1}
            if k > 24:
                ints |= {(1 << k) + (1 << (k - 24)) + 1, (1 << k) + (1 << (k - 24)), (1 << k) + (1 << (k - 24)) - 1,
                         (1 << k) + (3 << (k - 25)), (1 << k) + (3 << (k - 25)) + 1}
            if k > 53:
                ints |= {(1 << k) + (1 << (k - 53)) + 1, (1 << k) + (1 << (k - 53)), (1 << k) + (3 << (k - 54))}
    ints |= {rng.getrandbits(size) for _ in range(n_random)}
    ints |= {rng.getrandbits(rng.randrange(1, size + 1)) for _ in range(n_random)}
    ints |= {((1 << size) - v) % (1 << size) for v in list(ints)}
    return sorted(v % (1 << size) for v in ints)
