"""C18, fresh-process half.  Run as:  PYTHONHASHSEED=<n> python pickle_child.py  < job.json  > result.json
job = {"mode": "solvers", cls, cfg, prefix (history already run by the parent), blob (hex pickle of the list of solvers),
       suffix (history to run here)}      ->  {"fails": [[k, kind, why]], "outs": [...]}
job = {"mode": "ident", blob, srcs}  ->  {"ident": [[rebuilt from its own parts is the same object, hash is the one this process computes, found in a dict keyed by that, (informative) same object as the one built from source]]}
job = {"mode": "twin", blob, suffix}  ->  {"outs": [normalised outcome per call]}   (compared by the parent with the original's)
job = {"mode": "exprs", blob (hex pickle of a list of ASTs)}  ->  {"structs": [...], "tables": [...]}"""
import json, os, pickle, sys

sys.path.insert(0, os.path.dirname(os.path.dirname(os.path.abspath(__file__))))


def struct(a):
    import claripy
    if not isinstance(a, claripy.ast.Base):
        return repr(a)
    # annotations as a SET: annotating twice with an equal annotation keeps a duplicate in-process which reconstruction
    # drops (reported to the expression family; not a difference in meaning)
    annos = ",".join(sorted(set("%s%s" % (type(an).__name__, sorted((k, repr(v)) for k, v in vars(an).items())) for an in a.annotations)))
    return "(%s %s |%s| {%s})" % (a.op, " ".join(struct(x) for x in a.args), getattr(a, "length", None), annos)


def main():
    job = json.load(sys.stdin)
    from lib import solverlib as L
    uni = L.Universe()
    if job["mode"] == "exprs":
        asts = pickle.loads(bytes.fromhex(job["blob"]))
        out = {"structs": [struct(a) for a in asts], "tables": [uni.values(a) for a in asts],
               "identical_to_local": [a is uni.parse(src) if src else None for a, src in zip(asts, job.get("srcs", []))]}
        json.dump(out, sys.stdout)
        return
    if job["mode"] == "ident":
        # restored first, built here afterwards: one object, one hash (the unpickler must intern under the hash THIS process computes)
        asts = pickle.loads(bytes.fromhex(job["blob"]))
        out = []
        for a, src in zip(asts, job["srcs"]):
            # built again from its own parts (as the constructor does for any expression): hash-consing must hand back the same object
            again = type(a).__new__(type(a), a.op, a.args, length=getattr(a, "length", None), variables=a.variables, symbolic=a.symbolic,
                                    annotations=a.annotations, skip_child_annotations=True)
            recomputed = a.hash() == type(a)._calc_hash(a.op, a.args, a.annotations, getattr(a, "length", None))
            native = uni.parse(src)
            out.append([again is a, recomputed, {again.hash(): True}.get(a.hash(), False), native is a])
        json.dump({"ident": out}, sys.stdout)
        return
    if job["mode"] == "twin":
        # the restored tuple answers the suffix; the parent compares with what the original answered
        solvers = pickle.loads(bytes.fromhex(job["blob"]))
        outs = []
        for d in job["suffix"]:
            if d["s"] >= len(solvers):
                outs.append(["skip"])
                continue
            outs.append(L._norm_out(d, L.apply_op(uni, solvers, d)))
        json.dump({"outs": outs}, sys.stdout)
        return
    import claripy
    cls, cfg = job["cls"], job["cfg"]
    bz = claripy.backends.z3
    bz.reuse_z3_solver = bool(cfg.get("reuse"))
    solvers = pickle.loads(bytes.fromhex(job["blob"]))
    ref = L.Ref(uni)
    for d in job["prefix"]:
        if d["s"] >= len(ref.lists):
            continue
        if d["op"] == "add":
            ref.add(d["s"], [uni.parse(c) for c in d["cs"]])
        elif d["op"] == "branch":
            ref.branch(d["s"])
    fails, outs = [], []
    for k, d in enumerate(job["suffix"]):
        if d["s"] >= len(solvers):
            outs.append(["skip"])
            continue
        out = L.apply_op(uni, solvers, d)
        if d["op"] == "add":
            ref.add(d["s"], [uni.parse(c) for c in d["cs"]])
        elif d["op"] == "branch" and out[0] == "ok":
            ref.branch(d["s"])
        outs.append([str(x) for x in out])
        j = L.classify_replaced(uni, ref, solvers[d["s"]], d, out, L.judge(uni, ref, d, out))
        if j:
            fails.append([k, j[0], j[1]])
    json.dump({"fails": fails, "outs": outs}, sys.stdout)


if __name__ == "__main__":
    main()
