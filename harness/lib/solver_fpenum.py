"""Enumeration of FLOATING-POINT values by the solver frontends (C11 / C12): eval / batch_eval return feasible, pairwise-distinct
values and all of them when fewer than requested exist.  A floating-point value is a value of the SMT-LIB sort: +0 and -0 are two
values, NaN is one.  Python floats blur both (0.0 == -0.0, nan != nan), and the IEEE-754 comparison `!=` is not value inequality,
so every layer that deduplicates or excludes solutions has to be careful.  No brute force over 2^32 values: the constraints below
have solution sets known by construction (given as bit patterns of the single-precision sort; NaN = 'nan')."""
import math, struct


def key(v):
    """identity of a returned float of FSORT_FLOAT: its single-precision bit pattern, 'nan' for any NaN"""
    if v != v:
        return "nan"
    return struct.unpack(">I", struct.pack(">f", v))[0]


def f32(bits):
    return struct.unpack(">f", struct.pack(">I", bits))[0]


ONE, NEXT_ONE, TWO, PINF, NINF, PZ, NZ = 0x3F800000, 0x3F800001, 0x40000000, 0x7F800000, 0xFF800000, 0, 0x80000000


def cases():
    """name -> (builder(claripy, f) -> constraint list, expected set of keys)"""
    def c(v):
        import claripy
        return claripy.FPV(f32(v), claripy.FSORT_FLOAT)
    return {
        "abs-le-zero": (lambda cl, f: [cl.fpLEQ(cl.fpAbs(f), c(PZ))], {PZ, NZ}),
        "ieee-eq-zero": (lambda cl, f: [f == c(PZ)], {PZ, NZ}),
        "is-nan": (lambda cl, f: [cl.fpIsNaN(f)], {"nan"}),
        "nan-or-one": (lambda cl, f: [cl.Or(cl.fpIsNaN(f), f == c(ONE))], {"nan", ONE}),
        "zero-or-two": (lambda cl, f: [cl.Or(f == c(NZ), f == c(TWO))], {PZ, NZ, TWO}),
        "one-and-next": (lambda cl, f: [cl.fpGEQ(f, c(ONE)), cl.fpLEQ(f, c(NEXT_ONE))], {ONE, NEXT_ONE}),
        "is-inf": (lambda cl, f: [cl.fpIsInf(f)], {PINF, NINF}),
        "bits-of-zeros": (lambda cl, f: [cl.Or(cl.fpToIEEEBV(f) == cl.BVV(NZ, 32), cl.fpToIEEEBV(f) == cl.BVV(PZ, 32))], {PZ, NZ}),
        "neg-zero-only": (lambda cl, f: [f == c(PZ), cl.fpToIEEEBV(f)[31:31] == 1], {NZ}),
        "nan-zero-inf": (lambda cl, f: [cl.Or(cl.fpIsNaN(f), cl.fpLEQ(cl.fpAbs(f), c(PZ)), f == c(PINF))], {"nan", PZ, NZ, PINF}),
    }


# what happens before the judged call
PRE = ("fresh", "after-eval-1", "after-satisfiable", "asked-twice", "on-branch", "after-eval-1-on-branch")


def run_one(cls_name, case, pre, n, tag):
    """-> None | (kind, text)"""
    import claripy
    build, want = cases()[case]
    f = claripy.FPS("f_%s" % tag, claripy.FSORT_FLOAT, explicit_name=True)
    s = getattr(claripy, cls_name)()
    s.add(build(claripy, f))
    if pre in ("after-eval-1", "after-eval-1-on-branch"):
        s.eval(f, 1)
    if pre == "after-satisfiable":
        s.satisfiable()
    if pre == "asked-twice":
        s.eval(f, n)
    if pre in ("on-branch", "after-eval-1-on-branch"):
        s = s.branch()
    try:
        got = [key(v) for v in s.eval(f, n)]
    except Exception as ex:  # noqa
        return "err:" + type(ex).__name__, "eval(f, %d) raises %r" % (n, ex)
    show = lambda ks: sorted(("nan" if k == "nan" else "%#010x" % k) for k in ks)  # noqa: E731
    if len(set(got)) != len(got):
        return "duplicate", "eval(f, %d) = %s lists a value twice" % (n, show(got))
    if not set(got) <= want:
        return "infeasible", "eval(f, %d) = %s, the solutions are %s" % (n, show(got), show(want))
    if len(got) != min(n, len(want)):
        return "incomplete", "eval(f, %d) = %s but %d solutions exist: %s" % (n, show(got), len(want), show(want))
    # batch_eval: value and bit pattern of one model agree
    try:
        rows = s.batch_eval([f, claripy.fpToIEEEBV(f)], n)
    except Exception as ex:  # noqa
        return "err:" + type(ex).__name__, "batch_eval([f, bits(f)], %d) raises %r" % (n, ex)
    ks = []
    for v, b in rows:
        k = key(v)
        if k != "nan" and k != b:
            return "batch-inconsistent", "batch_eval row (%r, %#x): the value's bit pattern is %#x" % (v, b, k)
        ks.append((k, None if k != "nan" else b))
    if len(set(ks)) != len(ks):
        return "duplicate", "batch_eval([f, bits(f)], %d) lists a row twice: %s" % (n, ks)
    if not {k for k, _ in ks} <= want:
        return "infeasible", "batch_eval values %s, the solutions are %s" % (show({k for k, _ in ks}), show(want))
    if "nan" not in want and len(ks) != min(n, len(want)):
        return "incomplete", "batch_eval([f, bits(f)], %d) has %d rows but %d solutions exist" % (n, len(ks), len(want))
    return None


def run(ctx, prop, classes):
    """every case x history x n on the given classes; reports violations under <prop>/<cls>/eval/fp-<kind>[<pre>]"""
    done = 0
    dist = {}
    seen = set()
    for cls_name in classes:
        for case in cases():
            for pre in PRE:
                for n in (1, 2, 3, 5):
                    ctx.count(); done += 1
                    dist[case] = dist.get(case, 0) + 1
                    r = run_one(cls_name, case, pre, n, "%d" % done)
                    if r:
                        sig = "%s/%s/eval/fp-%s[%s]" % (prop, cls_name, r[0], pre)
                        if sig in seen:
                            continue
                        seen.add(sig)
                        ctx.violation(sig, "%s, constraint set '%s' over a single-precision variable, %s: %s" % (cls_name, case, pre, r[1]),
                                      {"kind": "fpenum", "cls": cls_name, "case": case, "pre": pre, "n": n})
    ctx.cov.setdefault("input_distribution", {})["fp-enumeration(%s)" % ",".join(classes)] = {
        "calls": done, "cases": dist, "histories": list(PRE), "n": [1, 2, 3, 5],
        "rule": "constraint sets over one single-precision variable whose solution set is known by construction (both zeros, NaN, "
                "infinities, neighbours); eval and batch_eval judged for feasibility, pairwise distinctness as FP values and completeness"}


def replay(prop, r):
    res = run_one(r["cls"], r["case"], r["pre"], r["n"], "replay")
    print("%s, case %s, %s, n=%d -> %s" % (r["cls"], r["case"], r["pre"], r["n"], res or "ok"))
    if res:
        print("VIOLATION property=%s replay=(given)" % prop)
        return 1
    print("no failure on the current tree")
    return 0
