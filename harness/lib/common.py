"""Shared machinery for every ./check <Cxx> run: Lean build + audit, driver, findings, evidence, verdict."""
import fcntl, hashlib, json, os, random, re, subprocess, sys, time

VERIF = os.path.dirname(os.path.dirname(os.path.dirname(os.path.abspath(__file__))))
LEAN = os.path.join(VERIF, "lean")
REPO = os.environ.get("VERIF_REPO", "/repo")
ALLOWED_AXIOMS = {"propext", "Classical.choice", "Quot.sound"}
FORBIDDEN = re.compile(r"\b(sorry|admit|native_decide|bv_decide|implemented_by|unsafe)\b|^\s*axiom\s|maxHeartbeats\s+0\b", re.M)
TRUSTED_BASE_COMMON = [
    "Lean 4.33 kernel (thorough tier: leanchecker re-check of the compiled modules)",
    "axioms admitted: propext, Classical.choice, Quot.sound only (audited by #print axioms on every run); no native_decide/bv_decide/sorry",
    "the correspondence harness and its canonicalisation (harness/), the line-protocol driver (lean/Driver)",
    "hand-written models under lean/Claripy are tied to the code only on the inputs the correspondence explored; generated files lean/Claripy/Gen are regenerated from /repo on every run",
]


class LakeLock:
    def __enter__(self):
        os.makedirs(os.path.join(LEAN, ".lake"), exist_ok=True)
        self.f = open(os.path.join(LEAN, ".lake", "verif.lock"), "w")
        fcntl.flock(self.f, fcntl.LOCK_EX)
        return self

    def __exit__(self, *a):
        fcntl.flock(self.f, fcntl.LOCK_UN)
        self.f.close()


def strip_lean_comments(src):
    out, i, depth, n = [], 0, 0, len(src)
    while i < n:
        if src.startswith("/-", i):
            depth += 1; i += 2; continue
        if depth and src.startswith("-/", i):
            depth -= 1; i += 2; continue
        if depth:
            if src[i] == "\n":
                out.append("\n")
            i += 1; continue
        if src.startswith("--", i):
            while i < n and src[i] != "\n":
                i += 1
            continue
        if src[i] == '"':
            j = i + 1
            while j < n and src[j] != '"':
                j += 2 if src[j] == "\\" else 1
            out.append('""'); i = j + 1; continue
        out.append(src[i]); i += 1
    return "".join(out)


def write_if_changed(path, content):
    os.makedirs(os.path.dirname(path), exist_ok=True)
    try:
        if open(path).read() == content:
            return False
    except FileNotFoundError:
        pass
    tmp = path + ".tmp%d" % os.getpid()
    open(tmp, "w").write(content)
    os.replace(tmp, path)
    return True


def import_closure(module):
    """project-local .lean files transitively imported by `module` (dotted name)"""
    seen, todo = set(), [module]
    while todo:
        m = todo.pop()
        rel = m.replace(".", "/") + ".lean"
        if rel in seen or not os.path.exists(os.path.join(LEAN, rel)):
            continue
        seen.add(rel)
        for line in open(os.path.join(LEAN, rel)):
            mm = re.match(r"\s*(?:public\s+)?import\s+([A-Za-z0-9_.]+)", line)
            if mm:
                todo.append(mm.group(1))
    return seen


def digest(obj):
    return hashlib.sha256(json.dumps(obj, sort_keys=True, default=str).encode()).hexdigest()[:12]


class Ctx:
    def __init__(self, prop, tier, seed):
        self.prop, self.tier, self.seed = prop, tier, seed
        self.rng = random.Random(seed)
        self.t0 = time.time()
        self.cov = {"obligations": 0, "discharged": 0, "checker_cmd": "", "trusted_base": list(TRUSTED_BASE_COMMON),
                    "evaluations": 0, "distinct_nontrivial": 0, "rule": "", "samples": [],
                    "traces_validated_against_impl": 0}
        self.assumptions = []
        self.broken = []          # list of (kind, name, detail): proof obligations / ties that no longer check
        self.violations = []      # list of dict(sig, what, replay)  (not matched by a known finding)
        self.known_hits = {}      # finding id -> what
        self.findings = [f for f in json.load(open(os.path.join(VERIF, "known_findings.json")))["findings"]
                         if f["property"] == prop]
        self._distinct = set()
        self.notes = []

    # ---------------------------------------------------------------- budget
    def thorough(self):
        return self.tier == "thorough"

    def pick(self, quick, thorough):
        return thorough if self.thorough() else quick

    def elapsed(self):
        return time.time() - self.t0

    # ---------------------------------------------------------------- lean
    def lake_build(self, targets):
        with LakeLock():
            p = subprocess.run(["lake", "build"] + list(targets), cwd=LEAN, capture_output=True, text=True)
        return p.returncode == 0, (p.stdout + p.stderr)

    def lean_run(self, src, timeout=600):
        """Elaborate a scratch file against the built library (no .olean written)."""
        path = os.path.join(LEAN, ".lake", "scratch_%s_%d.lean" % (self.prop, os.getpid()))
        os.makedirs(os.path.dirname(path), exist_ok=True)
        open(path, "w").write(src)
        try:
            p = subprocess.run(["lake", "env", "lean", path], cwd=LEAN, capture_output=True, text=True, timeout=timeout)
            return p.returncode, p.stdout + p.stderr
        finally:
            try:
                os.remove(path)
            except OSError:
                pass

    def prove(self, module, theorems, tests=(), extra_targets=(), driver_exe="driver"):
        """Build `module`, audit `theorems` (fully-qualified names).  Records obligations/discharged.
        Returns True iff everything is discharged."""
        ok, log = self.lake_build([module, driver_exe] + list(extra_targets))
        self.cov["checker_cmd"] = "cd lean && lake build %s && lake env lean <audit: #print axioms ...>" % module
        self.cov["obligations"] += len(theorems)
        self.cov.setdefault("obligation_names", []).extend(theorems)
        if tests:
            self.cov.setdefault("bounded_lean_tests", []).extend(tests)
        if not ok:
            errs = [l for l in log.splitlines() if "error" in l.lower()][:12]
            self.broken.append(("proof", module, "lake build failed: " + " | ".join(errs)))
            # which theorems still elaborate is unknown -> none discharged
            return False
        # source hygiene over the import closure of the module (project files only)
        bad = []
        for rel in sorted(import_closure(module)):
            src = strip_lean_comments(open(os.path.join(LEAN, rel)).read())
            m = FORBIDDEN.search(src)
            if m:
                bad.append("%s: %s" % (rel, m.group(0).strip()))
        if bad:
            self.broken.append(("audit", module, "forbidden construct: " + "; ".join(bad[:5])))
            return False
        src = "import %s\n" % module + "".join("#print axioms %s\n" % t for t in list(theorems) + list(tests))
        rc, out = self.lean_run(src)
        axioms = {}
        for m in re.finditer(r"'([^']+)' (does not depend on any axioms|depends on axioms: \[([^\]]*)\])", out):
            axioms[m.group(1)] = set(a.strip() for a in (m.group(3) or "").split(",") if a.strip())
        good = 0
        for t in theorems:
            short = t
            ax = axioms.get(short)
            if ax is None:
                self.broken.append(("proof", t, "theorem not found in built library"))
            elif not ax <= ALLOWED_AXIOMS:
                self.broken.append(("audit", t, "inadmissible axioms: %s" % sorted(ax - ALLOWED_AXIOMS)))
            else:
                good += 1
        self.cov["discharged"] += good
        self.cov.setdefault("axioms_used", sorted(set().union(*axioms.values()) if axioms else []))
        if self.thorough():
            with LakeLock():
                p = subprocess.run(["lake", "env", "leanchecker", module], cwd=LEAN, capture_output=True, text=True)
            self.cov["leanchecker"] = "ok" if p.returncode == 0 else "FAILED: " + (p.stdout + p.stderr)[-400:]
            if p.returncode != 0:
                self.broken.append(("audit", module, "leanchecker rejected the module"))
        return good == len(theorems)

    def driver(self, lines, timeout=600, exe="driver"):
        """Pipe request lines to a compiled line-protocol driver (driver | driver_vsa | driver_solver | driver_fs);
        returns one output line per request.  Call ctx.lake_build([exe]) (or ctx.prove(..., driver_exe=exe)) first so the
        executable is rebuilt from the current model sources."""
        name = exe
        exe = os.path.join(LEAN, ".lake", "build", "bin", name)
        if not os.path.exists(exe):
            ok, log = self.lake_build([name])
            if not ok:
                raise RuntimeError("driver does not build:\n" + log[-2000:])
        p = subprocess.run([exe], input="\n".join(lines) + "\n", capture_output=True, text=True, timeout=timeout)
        if p.returncode != 0:
            raise RuntimeError("driver crashed: " + p.stderr[-2000:])
        out = p.stdout.split("\n")
        if out and out[-1] == "":
            out.pop()
        if len(out) != len(lines):
            raise RuntimeError("driver answered %d lines for %d requests" % (len(out), len(lines)))
        return out

    # ---------------------------------------------------------------- bookkeeping
    def count(self, n=1):
        self.cov["evaluations"] += n

    def distinct(self, key):
        """register a non-trivial case; counted once"""
        self._distinct.add(key if isinstance(key, (str, int, tuple)) else digest(key))
        self.cov["distinct_nontrivial"] = len(self._distinct)

    def sample(self, obj, cap=8):
        if len(self.cov["samples"]) < cap:
            self.cov["samples"].append(obj)

    def tie_broken(self, name, detail):
        self.broken.append(("correspondence", name, detail))

    def violation(self, sig, what, replay):
        """A concrete failing input on the real code. `sig` is the finding signature computed by the
        property's classifier (call site + predicate), matched against known_findings.json."""
        for f in self.findings:
            if f.get("status", "open") == "open" and f["signature"] == sig:
                self.known_hits.setdefault(f["id"], f.get("what", what))
                return False
        for v in self.violations:
            if v["sig"] == sig:
                return True
        self.violations.append({"sig": sig, "what": what, "replay": replay})
        return True

    # ---------------------------------------------------------------- verdict
    def finish(self):
        os.makedirs(os.path.join(VERIF, "evidence", "replays"), exist_ok=True)
        lines, code = [], 0
        for fid, what in sorted(self.known_hits.items()):
            lines.append("KNOWN-FINDING: property=%s %s: %s" % (self.prop, fid, what))
        for v in self.violations:
            path = os.path.join("evidence", "replays", "%s-%s.json" % (self.prop, digest(v["replay"])))
            json.dump({"property": self.prop, "signature": v["sig"], "what": v["what"], "seed": self.seed,
                       "tier": self.tier, "replay": v["replay"],
                       "rerun": "./check %s --replay %s" % (self.prop, path)},
                      open(os.path.join(VERIF, path), "w"), indent=1, default=str)
            lines.append("VIOLATION property=%s replay=%s" % (self.prop, path))
            code = 1
        if self.broken and not self.violations:
            path = os.path.join("evidence", "replays", "%s-unproved-%s.json" % (self.prop, digest(self.broken)))
            json.dump({"property": self.prop, "no_longer_checks": [dict(kind=k, name=n, detail=d) for k, n, d in self.broken],
                       "seed": self.seed, "tier": self.tier,
                       "note": "a proof obligation or the model/code correspondence no longer checks; the failing-input "
                               "search on the real code found no concrete violation within this tier's budget"},
                      open(os.path.join(VERIF, path), "w"), indent=1, default=str)
            lines.append("VIOLATION property=%s replay=%s no-failing-input-found" % (self.prop, path))
            code = 1
        n_dis, n_obl = self.cov["discharged"], self.cov["obligations"]
        if self.cov["discharged"] < 1:   # keep the file schema-valid: proof keys need >= 1, fall back to the generic keys
            self.cov["obligations_total"] = self.cov.pop("obligations")
            self.cov["discharged_count"] = self.cov.pop("discharged")
        ev = {"property_id": self.prop, "tier": self.tier, "seed": self.seed, "level": "proof",
              "coverage": self.cov, "assumptions": self.assumptions, "wall_s": round(self.elapsed(), 2),
              "violations": len(self.violations) + (1 if (self.broken and not self.violations) else 0),
              "known_findings_replayed": sorted(self.known_hits), "broken": [list(b) for b in self.broken],
              "notes": self.notes}
        stale = [f["id"] for f in self.findings if f.get("status", "open") == "open" and f["id"] not in self.known_hits]
        if stale:
            ev["known_findings_not_reproduced_this_run"] = stale
        json.dump(ev, open(os.path.join(VERIF, "evidence", "%s.json" % self.prop), "w"), indent=1, default=str)
        for l in lines:
            print(l)
        print("%s %s seed=%d: obligations %d/%d, evaluations %d, distinct %d, %.1fs -> %s" % (
            self.prop, self.tier, self.seed, n_dis, n_obl,
            self.cov["evaluations"], self.cov["distinct_nontrivial"], self.elapsed(), "FAIL" if code else "ok"))
        return code
