"""Engine shared by the expression-family checks: build written trees on the real code with a per-node log,
the semantic oracle (C01), and the model correspondence (folding + rewrite-rule table) through the Lean driver."""
import signal

import claripy
from claripy.errors import ClaripyZeroDivisionError, ClaripyOperationError

from lib import exprs as E

AC_OPS = {"add", "mul", "and", "or", "xor", "And", "Or"}         # rewrites of these nodes not explained by a schema go to the AC certificate check
RAW_TOP = {"S3.sub_addN"}                          # schemas whose right-hand side's root is created without simplification
COMPLETE_OPS = {"shl", "Not", "not", "ite"}      # simplifier fully covered by the rule table (first-match enforced)


class Timeout(Exception):
    pass


def _alarm(signum, frame):
    raise Timeout()


def build_case(tree, seconds=5):
    """-> (ast or None, log, exception or None)"""
    log = []
    old = signal.signal(signal.SIGALRM, _alarm)
    signal.alarm(seconds)
    try:
        a = E.build(tree, log)
        return a, log, None
    except BaseException as e:  # noqa
        if isinstance(e, KeyboardInterrupt):
            raise
        return None, log, e
    finally:
        signal.alarm(0)
        signal.signal(signal.SIGALRM, old)


def has_concrete_div_zero(tree):
    """is there a division/remainder whose divisor is (or folds to) concrete zero: exempt from C01/C04"""
    if tree[0] in ("bvv", "bvs", "boolv", "bools", "int"):
        return False
    try:
        if tree[0] in ("udiv", "umod", "sdiv", "smod"):
            d = tree[2]
            if d[0] == "int" or not E.variables(d):
                w = E.width(tree[1]) or E.width(d)
                v = E.ev(d, {}, w)
                if v[2] == 0:
                    return True
    except Exception:
        pass
    return any(has_concrete_div_zero(a) for a in tree[1:])


def semantic_check(tree, built_tree, rng, limit_bits=8, nsamples=48):
    """compare written tree and built tree on all / sampled assignments. -> (None or (env, expected, got), n)"""
    vs = E.variables(tree)
    for k, w in E.variables(built_tree).items():
        vs.setdefault(k, w)
    envs = E.all_envs(vs, limit_bits)
    if envs is None:
        envs = E.sample_envs(vs, rng, nsamples)
    n = 0
    for env in envs:
        n += 1
        want = E.ev(tree, env)
        got = E.ev(built_tree, env)
        if want != got:
            return (env, want, got), n
    return None, n


def raw_node(op, args):
    """the node `_op` is asked to build, as a tree over the trees of the already-built arguments"""
    like = None
    for a in args:
        if not isinstance(a, int) and getattr(a, "length", None) is not None:
            like = a.length
            break
    ts = []
    for a in args:
        if isinstance(a, bool):
            raise E.Unsupported("bool arg")
        if isinstance(a, int):
            if like is None:
                raise E.Unsupported("int without width")
            ts.append(("bvv", a % (1 << like), like))
        else:
            ts.append(E.from_ast(a))
    if op.startswith("slice:"):
        op = "extract:" + op.split(":", 1)[1]
    return (op,) + tuple(ts)


class StepChecker:
    """batches (raw node -> result) steps, asks the Lean driver for fold/rules answers, compares."""

    def __init__(self, ctx):
        self.ctx = ctx
        self.steps = []     # (raw_tree, result_ast, memo)
        self.stats = {"fold_agree": 0, "rule_explained": {}, "identity": 0, "unmodelled_rewrite": {}, "skipped": 0}

    def add(self, op, args, result):
        try:
            n = raw_node(op, args)
            if op in ("eq", "ne") and isinstance(args[0], int):
                n = (n[0], n[2], n[1])      # Python evaluates `5 == x` as x.__eq__(5)
            if E.is_bool(n) != isinstance(result, claripy.ast.Bool):
                self.stats["skipped"] += 1    # Bool operands coerced into BV positions: outside the modelled fragment
                return
            memo = {}
            for a in args:
                if not isinstance(a, int):
                    for sub in a.children_asts():
                        try:
                            memo.setdefault(E.sexpr(E.from_ast(sub)), sub)
                        except E.Unsupported:
                            pass
                    memo.setdefault(E.sexpr(E.from_ast(a)), a)
            if op == "ite" and not isinstance(args[0], (int, bool)):
                # ast/bool.py:If compares the branch conditions with the *constructed* Not(cond); present that object
                # to the model as the syntactic (Not cond) (the Not construction itself is a separately checked step)
                nc = claripy.Not(args[0])
                ct = n[1]
                nct = E.from_ast(nc)
                if nct != ("Not", ct):
                    def sub(t):
                        if t[0] == "ite" and t[1] == nct:
                            return ("ite", ("Not", ct), t[2], t[3])
                        return t
                    n = (n[0], n[1], sub(n[2]), sub(n[3]))
                    memo[E.sexpr(("Not", ct))] = nc
            self.steps.append((n, result, memo))
        except E.Unsupported:
            self.stats["skipped"] += 1

    def flush(self):
        """-> list of disagreements (kind, detail, raw_tree)"""
        ctx = self.ctx
        if not self.steps:
            return []
        lines = []
        for n, r, memo in self.steps:
            const = all(a[0] in ("bvv", "boolv") for a in n[1:])
            lines.append(("fold " if const else "rules ") + E.sexpr(n))
        outs = ctx.driver(lines)
        bad = []
        pending_ac = []
        for (n, r, memo), line, out in zip(self.steps, lines, outs):
            try:
                rt = E.from_ast(r)
            except E.Unsupported:
                self.stats["skipped"] += 1
                continue
            op = n[0].split(":")[0]
            if line.startswith("fold "):
                want = E.sexpr(rt)
                if out == want:
                    self.stats["fold_agree"] += 1
                else:
                    bad.append(("corr:fold", "%s model=%s real=%s" % (E.sexpr(n), out, want), n))
                continue
            if out == "bad-op":
                self.stats["skipped"] += 1
                continue
            cands = [] if out == "none" else [c.split(" => ", 1) for c in out.split(" ;; ")]
            if rt == n:
                self.stats["identity"] += 1
                if cands and op in COMPLETE_OPS:
                    bad.append(("corr:rule-not-applied", "%s: model applies %s, real code built the node unchanged" % (
                        E.sexpr(n), cands[0][0]), n))
                continue
            hit = None
            for name, rhs in cands:
                try:
                    rt_ = E.parse_sexpr(rhs)
                    if name in RAW_TOP and rt_[0] in E.BIN_INFIX:
                        # the simplifier creates this node with make_like(..., simplify=False): all operands in one raw node
                        kids = [E.build(x, None, memo) for x in rt_[1:]]
                        cand_ast = kids[0].make_like(E.BIN_INFIX[rt_[0]], tuple(kids))
                    else:
                        cand_ast = E.build(rt_, None, memo)
                except Exception:
                    continue
                if cand_ast is r:
                    hit = name
                    break
            if hit:
                self.stats["rule_explained"][hit] = self.stats["rule_explained"].get(hit, 0) + 1
            elif op in AC_OPS or op in ("eq", "ne") or (op not in COMPLETE_OPS and not E.is_bool(n)):
                pending_ac.append((n, rt, cands))
            elif op in COMPLETE_OPS:
                bad.append(("corr:unexplained-rewrite", "%s built %s; model candidates: %s" % (
                    E.sexpr(n), E.sexpr(rt), [c[0] for c in cands] or "none"), n))
            else:
                key = op + ("+cand" if cands else "")
                self.stats["unmodelled_rewrite"][key] = self.stats["unmodelled_rewrite"].get(key, 0) + 1
                ex = self.stats.setdefault("unmodelled_examples", {})
                if len(ex.setdefault(op, [])) < 4:
                    ex[op].append("%s => %s" % (E.sexpr(n)[:200], E.sexpr(rt)[:200]))
        # second phase: rewrites not explained by a schema go to the proven certificate checks: `acEquiv`/`bcEquiv` (associative-
        # commutative nodes) and `bitsEquiv` (rewrites that only move bits around)
        if pending_ac:
            reqs = []
            for n, rt, _ in pending_ac:
                if n[0] in AC_OPS:
                    reqs.append("ac %s | %s" % (E.sexpr(n), E.sexpr(rt)))
                if not E.is_bool(n):
                    reqs.append("bits %s | %s" % (E.sexpr(n), E.sexpr(rt)))
                elif n[0] in ("eq", "ne"):
                    reqs.append("cmp %s | %s" % (E.sexpr(n), E.sexpr(rt)))
            outs2 = iter(ctx.driver(reqs))
            for (n, rt, cands) in pending_ac:
                op = n[0].split(":")[0]
                how = None
                if n[0] in AC_OPS and next(outs2) == "1":
                    how = "AC." + op
                if not E.is_bool(n):
                    if next(outs2) == "1" and how is None:
                        how = "BITS." + op
                elif n[0] in ("eq", "ne"):
                    if next(outs2) == "1" and how is None:
                        how = "CMP." + op
                if how:
                    self.stats["rule_explained"][how] = self.stats["rule_explained"].get(how, 0) + 1
                else:
                    key = op + ("+cand" if cands else "")
                    self.stats["unmodelled_rewrite"][key] = self.stats["unmodelled_rewrite"].get(key, 0) + 1
                    ex = self.stats.setdefault("unmodelled_examples", {})
                    if len(ex.setdefault(op, [])) < 4:
                        ex[op].append("%s => %s" % (E.sexpr(n)[:200], E.sexpr(rt)[:200]))
        self.steps = []
        return bad


def exc_kind(e):
    if isinstance(e, Timeout):
        return "Timeout"
    if isinstance(e, ClaripyZeroDivisionError):
        return "DivZero"
    if isinstance(e, ClaripyOperationError) and "reverse" in str(e).lower():
        return "ReverseNonByte"
    return type(e).__name__
