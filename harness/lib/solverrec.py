"""Correspondence side of the solver family: runs histories on the REAL frontends while recording every exchange
with the outside world (Z3 check answers and models, the iteration-order dependent choice of cached solutions,
cheap is_false verdicts, simplifier output, backend is_true/is_false), dumps the abstract state after every
call, and renders the same history as request lines for lean/DriverSolver (`driver_solver`).

All instrumentation is run-time substitution of module attributes / wrapping of methods for OBSERVATION only:
the wrapped function is always called and its result passed through unchanged (except for injected give-ups,
C17).  Nothing in /repo is edited.

Protocol (one line per request, the driver answers one line each):
  uni <widths csv> <defaults csv>
  con <id> <vars> <isFalse> <conc> <triv> <maskhex> <z3canon>       exp <id> <bits> <vars> <conc> <values: 2 hex digits each>
  bld <kind:eid:arg> <conid>      falsecon <id>      new <Class> <track> <reuse>
  op <i> <name> <args..> ;; <events..>      ->   <out> ;; <state> ;; <diagnostics | ->
"""
import contextlib

import claripy
import z3

from . import solverlib as L


class Registry:
    """ids for constraints / expressions (by AST hash) and their declaration lines"""

    def __init__(self, uni):
        self.uni = uni
        self.con_id, self.exp_id = {}, {}
        self.con_ast, self.exp_ast = {}, {}
        self.pending = []          # declaration lines not yet sent
        self.z3ids = {}            # z3 ast id -> con id   (keeps the z3 expr alive)
        self.aliases = {}          # canonical con id -> all con ids with the same z3 AST
        self._keep = []
        self.var_index = {uni.real_names[n]: i for i, n in enumerate(uni.names)}
        self.lines_uni = ["uni %s %s" % (",".join(str(uni.bits[n]) for n in uni.names),
                                           ",".join("1" if uni.kind[n] == "bool" else "0" for n in uni.names))]
        f = claripy.false()
        self.false_id = self.con(f)
        self.pending.append("falsecon %d" % self.false_id)
        for n in uni.names:       # every variable is an expression (trivial-model fast path refers to the BVS)
            self.exp(uni.sym[n])

    def vars_of(self, ast):
        return ",".join(str(i) for i in sorted(self.var_index[v] for v in ast.variables)) or "-"

    def con(self, c):
        h = c.hash()
        i = self.con_id.get(h)
        if i is not None:
            return i
        i = len(self.con_id) + 1
        self.con_id[h] = i
        self.con_ast[i] = c
        uni = self.uni
        m = uni.mask(c)
        conc = "-"
        if len(c.variables) == 0:
            conc = "1" if m == uni.full else ("0" if m == 0 else "-")
        triv = "-"
        if (c.depth == 2 and c.op == "__eq__" and len(c.variables) == 1 and c.args[0].symbolic
                and not c.args[1].symbolic and c.args[0].op == "BVS"):
            triv = "%d:%d:%d" % (self.var_index[next(iter(c.args[0].variables))], c.args[1].args[0], self.exp(c.args[0]))
        # different claripy ASTs can convert to one Z3 AST (x != 5 / Not(x == 5)): assertions are compared through
        # the first constraint registered for the Z3 AST
        z = claripy.backends.z3.convert(c)
        self._keep.append(z)
        canon = self.z3ids.setdefault(z.get_id(), i)
        self.aliases.setdefault(canon, []).append(i)
        self.pending.append("con %d %s %d %s %s %x %d" % (i, self.vars_of(c), 1 if c is claripy.false() else 0, conc, triv, m, canon))
        return i

    def exp(self, e):
        h = e.hash()
        i = self.exp_id.get(h)
        if i is not None:
            return i
        i = len(self.exp_id) + 1
        self.exp_id[h] = i
        self.exp_ast[i] = e
        vals = self.uni.values(e)
        bits = e.size() if hasattr(e, "size") and e.op not in ("BoolS", "BoolV") and not isinstance(e, claripy.ast.Bool) else 1
        conc = "-"
        if len(e.variables) == 0:
            conc = str(vals[0])
        self.pending.append("exp %d %d %s %s %s" % (i, bits, self.vars_of(e), conc, "".join("%02x" % v for v in vals)))
        return i

    def flush(self):
        out, self.pending = self.pending, []
        return out

    def ids(self, asts):
        return ",".join(str(self.con(c)) for c in asts) or "-"


# ------------------------------------------------------------------------------------------------ recording
class Recorder:
    """Substitutes the observation points; `events` collects the exchange of the current call."""

    def __init__(self, uni, reg, faults=None):
        self.uni, self.reg = uni, reg
        self.events = []
        self.exact_failures = []       # L0 validation failures: (description)
        self.checks = 0
        self.fault_at = None           # inject a give-up at the k-th check of the current call (C17)
        self.fault_fired = False
        self.check_index = 0
        self._amask = {}
        self.zvars = [claripy.backends.z3.convert(uni.sym[n]) for n in uni.names]

    # ---- z3 side
    def _assumption_mask(self, zexpr):
        """meaning of a z3 Bool (assertion or assumption) over the universe"""
        k = zexpr.get_id()
        cid = self.reg.z3ids.get(k)
        if cid is not None:
            return self.uni.mask(self.reg.con_ast[cid])
        m = self._amask.get(k)
        if m is None:
            if z3.is_implies(zexpr) and z3.is_const(zexpr.arg(0)):     # tracked assertion  name => c
                m = self._assumption_mask(zexpr.arg(1))
            else:
                ast = claripy.backends.z3._abstract(zexpr)
                m = self.uni.mask(ast)
            self._amask[k] = (m, zexpr)
            return m
        return m[0]

    def make_sat(self, orig):
        rec = self

        def z3_solver_sat(solver, extra_constraints, occasion):
            k = rec.check_index
            rec.check_index += 1
            if rec.fault_at is not None and k == rec.fault_at:
                rec.events.append("C:K")
                rec.fault_fired = True
                from claripy.errors import ClaripySolverInterruptError
                raise ClaripySolverInterruptError("timeout")
            r = orig(solver, extra_constraints, occasion)
            rec.checks += 1
            qm = rec.uni.full
            for a in solver.assertions():
                qm &= rec._assumption_mask(a)
            for a in extra_constraints:
                qm &= rec._assumption_mask(a)
            if r:
                # NB: model.eval(..., model_completion=True) ADDS the completed constants to the Z3 model object the
                # code under test is going to read; observe without completion (absent constant = Z3's default 0/False)
                model = solver.model()
                vals, keys = [], []
                names = {}
                for d in model:
                    names[d.name()] = model[d]
                for i, n in enumerate(rec.uni.names):
                    v = names.get(rec.uni.real_names[n])
                    if v is None:
                        vals.append(0)
                    else:
                        vals.append((1 if z3.is_true(v) else 0) if rec.uni.kind[n] == "bool" else v.as_long())
                        keys.append(i)
                rec.events.append("C:S:%s:%s" % (",".join(map(str, vals)), ",".join(map(str, keys)) or "-"))
                # L0 exactness: the model satisfies the query, and so does every assignment agreeing with it on
                # the constants the model mentions (claripy completes the others with ITS defaults)
                idx = rec.uni.index({n: vals[i] for i, n in enumerate(rec.uni.names)})
                agree = rec.uni.full
                for i in keys:
                    n = rec.uni.names[i]
                    agree &= rec.uni.vmask(rec.uni.sym[n]).get(vals[i], 0)
                if not (qm >> idx) & 1:
                    rec.exact_failures.append("sat model does not satisfy the query (%s)" % occasion)
                elif agree & ~qm & rec.uni.full:
                    rec.exact_failures.append("partial model: a completion of the Z3 model violates the query (%s)" % occasion)
            else:
                core = []
                try:
                    cs = solver.unsat_core()
                    byname = {}
                    for a in solver.assertions():
                        if z3.is_implies(a):
                            byname[str(a.arg(0))] = rec.reg.z3ids.get(a.arg(1).get_id())
                    core = sorted(byname[str(c)] for c in cs if byname.get(str(c)) is not None)
                except z3.Z3Exception:
                    pass
                rec.events.append("C:U:%s" % (",".join(map(str, core)) or "-"))
                if qm != 0:
                    rec.exact_failures.append("unsat answer but %d assignments satisfy the query (%s)" % (bin(qm).count("1"), occasion))
            return r
        return z3_solver_sat

    @contextlib.contextmanager
    def installed(self):
        import claripy.backends.backend_z3 as bz
        import claripy.frontend.constrained_frontend as cf
        import claripy.frontend.mixin.sat_cache_mixin as scm
        from claripy.frontend.mixin.model_cache_mixin import ModelCacheMixin
        from claripy.frontend.full_frontend import FullFrontend
        rec = self
        saved = (bz.z3_solver_sat, cf.simplify, scm.is_false, ModelCacheMixin._get_batch_solutions,
                 FullFrontend.is_true, FullFrontend.is_false)
        bz.z3_solver_sat = self.make_sat(saved[0])
        zb = claripy.backends.z3
        orig_gm = zb._generic_model

        def generic_model(z3_model):
            # what the code reads as "the model": between the check and this call `_primitive_from_model` may have
            # completed further constants inside the Z3 model object (lazily: only those its evaluator visited)
            r = orig_gm(z3_model)
            for j in range(len(rec.events) - 1, -1, -1):
                if rec.events[j].startswith("C:S:"):
                    head = rec.events[j].rsplit(":", 1)[0]
                    keys = sorted(rec.reg.var_index[k] for k in r if k in rec.reg.var_index)
                    rec.events[j] = head + ":" + (",".join(map(str, keys)) or "-")
                    break
            return r
        zb._generic_model = generic_model

        def simplify(x):
            r = saved[1](x)
            split = list(r.args) if r.op == "And" else [r]
            rec.events.append("S:%s" % rec.reg.ids(split))
            return r

        def is_false(x):
            r = saved[2](x)
            rec.events.append("F:%d" % (1 if r else 0))
            return r

        def gbs(self_, asts, n=None, extra_constraints=(), allow_unconstrained=True):
            r = saved[3](self_, asts, n=n, extra_constraints=extra_constraints, allow_unconstrained=allow_unconstrained)
            if n is not None:
                rec.events.append("P:%s" % ("|".join(".".join(str(int(v)) for v in t) for t in r) or "-"))
            return r

        def ff_is_true(self_, e, extra_constraints=(), exact=None):
            r = saved[4](self_, e, extra_constraints=extra_constraints, exact=exact)
            rec.events.append("T:%d" % (1 if r else 0))
            return r

        def ff_is_false(self_, e, extra_constraints=(), exact=None):
            r = saved[5](self_, e, extra_constraints=extra_constraints, exact=exact)
            rec.events.append("T:%d" % (1 if r else 0))
            return r

        cf.simplify, scm.is_false = simplify, is_false
        ModelCacheMixin._get_batch_solutions = gbs
        FullFrontend.is_true, FullFrontend.is_false = ff_is_true, ff_is_false
        try:
            yield self
        finally:
            del zb._generic_model
            (bz.z3_solver_sat, cf.simplify, scm.is_false, ModelCacheMixin._get_batch_solutions,
             FullFrontend.is_true, FullFrontend.is_false) = saved


# ------------------------------------------------------------------------------------------------ state dump
def _ids_sorted(reg, hashes, table):
    out = []
    for h in hashes:
        i = table.get(h)
        out.append(i if i is not None else 0)
    return ",".join(str(i) for i in sorted(out))


def _letter(k):
    return chr(65 + k % 26) + (str(k // 26) if k >= 26 else "")


def dump_world(reg, solvers):
    order, parts = [], []

    def letter_of(zs):
        if zs is None:
            return "-"
        for k, o in enumerate(order):
            if o is zs:
                return _letter(k)
        order.append(zs)
        return _letter(len(order) - 1)

    for i, s in enumerate(solvers):
        zs = getattr(s._tls, "solver", None)
        # register constraints the frontend created itself (simplifier output, expansion constraints)
        cons = ",".join(str(reg.con(c)) for c in s.constraints)
        toadd = ",".join(str(reg.con(c)) for c in s._to_add)
        # a key that is not a variable of the universe (e.g. a tracking literal) is shown as variable 999
        models = sorted(",".join("%d:%d" % (reg.var_index.get(k, 999), int(v)) for k, v in sorted(
            m.model.items(), key=lambda kv: reg.var_index.get(kv[0], 999))) for m in getattr(s, "_models", ()))
        core = getattr(s, "_cached_unsat_core", None)
        if core is None:
            core_s = "-"
        else:
            flat = []
            ok = True
            for c in core:
                if isinstance(c, claripy.ast.Base):
                    flat.append(str(reg.con(c)))
                else:
                    ok = False
            core_s = "[" + ",".join(flat) + "]" if ok else "nested"
        sat = {None: "N", True: "T", False: "F"}[getattr(s, "_cached_satness", None)]

        def exh(name):
            d = getattr(s, name, None)
            return _ids_sorted(reg, list(d.keys()), reg.exp_id) if d is not None else ""
        parts.append("fe%d{cons=[%s];wo=[%s];vars=[%s];fin=%d;solver=%s;toadd=[%s];hashes=[%s];simp=%d;sat=%s;core=%s;models=[%s];"
                     "evalx=[%s];maxx=[%s];minx=[%s];maxsx=[%s];minsx=[%s]}" % (
                         i, cons, _ids_sorted(reg, s.constraints_wo_annotations, reg.con_id),
                         ",".join(str(v) for v in sorted(reg.var_index.get(v, 999) for v in s.variables)),
                         1 if s._finalized else 0, letter_of(zs), toadd,
                         _ids_sorted(reg, getattr(s, "_constraint_hashes", ()), reg.con_id),
                         1 if getattr(s, "_simplified", True) else 0, sat, core_s, "|".join(models),
                         exh("_eval_exhausted"), exh("_max_exhausted"), exh("_min_exhausted"),
                         exh("_max_signed_exhausted"), exh("_min_signed_exhausted")))
    for k, zs in enumerate(order):
        tags = []
        for a in zs.assertions():
            b = a.arg(1) if (z3.is_implies(a) and z3.is_const(a.arg(0))) else a
            cid = reg.z3ids.get(b.get_id())
            tags.append(str(cid) if cid is not None else "?")
        parts.append("%s{scopes=%d;asserts=[%s]}" % (_letter(k), zs.num_scopes(), ",".join(tags)))
    return " ".join(parts)


# ------------------------------------------------------------------------------------------------ rendering
def render_out(reg, d, out):
    op = d["op"]
    if out[0] == "unsat":
        return "err:unsat"
    if out[0] == "err":
        return "err:" + {"ClaripySolverInterruptError": "giveup", "ClaripyZ3Error": "giveup",
                         "ClaripyValueError": "value", "NotImplementedError": "notimpl"}.get(out[1], out[1])
    v = out[1]
    if op in ("add", "simplify", "unsat_core"):
        if not all(isinstance(c, claripy.ast.Base) for c in v):
            return "c:nested"
        return "c:[%s]" % ",".join(str(reg.con(c)) for c in v)
    if op in ("satisfiable", "solution", "is_true", "is_false"):
        return "b:%d" % (1 if v else 0)
    if op == "eval":
        return "v:[%s]" % ",".join(str(x) for x in sorted(int(x) for x in v))
    if op == "batch_eval":
        return "t:[%s]" % "|".join(".".join(str(int(x)) for x in t) for t in sorted(tuple(int(x) for x in t) for t in v))
    if op in ("min", "max"):
        return "i:%d" % int(v)
    if op in ("downsize", "pickle"):
        return "unit"
    if op == "branch":
        return "new:%d" % v
    raise ValueError(op)


def op_line(reg, uni, d):
    op = d["op"]
    ex = reg.ids([uni.parse(c) for c in d.get("extra", [])])
    if op == "add":
        return "add %s" % reg.ids([uni.parse(c) for c in d["cs"]])
    if op == "satisfiable":
        return "satisfiable %s" % ex
    if op == "eval":
        return "eval %d %d %s" % (reg.exp(uni.parse(d["e"])), d["n"], ex)
    if op == "batch_eval":
        return "batch_eval %s %d %s" % (",".join(str(reg.exp(uni.parse(e))) for e in d["es"]), d["n"], ex)
    if op in ("min", "max"):
        return "%s %d %d %s" % (op, reg.exp(uni.parse(d["e"])), 1 if d["signed"] else 0, ex)
    if op == "solution":
        e = uni.parse(d["e"])
        return "solution %d %d %s" % (reg.exp(e), d["v"] % (1 << e.size()), ex)
    if op in ("is_true", "is_false"):
        return "%s %d %s" % (op, reg.con(uni.parse(d["e"])), ex)
    if op == "unsat_core":
        return "unsat_core %s" % ex
    return op


def build_lines(reg, uni, d, out):
    """declare the derived constraints ConstraintExpansionMixin may build for this call (same constructor calls)"""
    lines = []
    op = d["op"]
    if out[0] != "ok":
        return lines
    if op in ("min", "max"):
        e = uni.parse(d["e"])
        if e.op == "BVV":
            return lines
        m = int(out[1])
        eid = reg.exp(e)
        for kind, ctor in (("ule", claripy.ULE), ("uge", claripy.UGE), ("sle", claripy.SLE), ("sge", claripy.SGE)):
            c = ctor(e, m)
            lines.append(("%s:%d:%d" % (kind, eid, m), c))
    elif op == "solution" and out[1] is False:
        e = uni.parse(d["e"])
        if e.op != "BVV":
            v = d["v"] % (1 << e.size())
            lines.append(("ne:%d:%d" % (reg.exp(e), v), e != v))
    res = []
    for key, c in lines:
        cid = reg.con(c)
        res.append("bld %s %d" % (key, cid))
    return res


def apply_op_ext(uni, solvers, d):
    """solverlib.apply_op plus unsat_core"""
    if d["op"] == "unsat_core":
        from claripy.errors import UnsatError
        try:
            ex = tuple(uni.parse(c) for c in d.get("extra", []))
            return ("ok", tuple(solvers[d["s"]].unsat_core(extra_constraints=ex)))
        except UnsatError as e:
            return ("unsat", str(e))
        except Exception as e:  # noqa: BLE001
            return ("err", type(e).__name__, str(e)[:200])
    if d["op"] in ("add", "simplify"):
        # need the returned constraint lists
        from claripy.errors import UnsatError
        s = solvers[d["s"]]
        try:
            if d["op"] == "add":
                return ("ok", list(s.add([uni.parse(c) for c in d["cs"]])))
            return ("ok", list(s.simplify()))
        except UnsatError as e:
            return ("unsat", str(e))
        except Exception as e:  # noqa: BLE001
            return ("err", type(e).__name__, str(e)[:200])
    return L.apply_op(uni, solvers, d)


def run_recorded(uni, reg, cls, cfg, hist, faults=None, judge=True):
    """Run a history on the real code under the recorder.
    Returns dict(lines=[driver request lines], expect=[(line index, expected answer)], fails=[(k, kind, why)],
                 outs=[...], l0=[L0 exactness failures], checks=n)"""
    import claripy.backends
    bz = claripy.backends.z3
    saved = bz.reuse_z3_solver
    bz.reuse_z3_solver = bool(cfg.get("reuse", False))
    rec = Recorder(uni, reg)
    lines, expect, fails, outs = [], [], [], []
    lines += reg.lines_uni if not getattr(reg, "_uni_sent", False) else []
    reg._uni_sent = True
    try:
        if hasattr(bz._tls, "solver"):
            bz._tls.solver = None
        kw = {"track": True} if cfg.get("track") else {}
        with rec.installed():
            solvers = [L.SOLVER_CLASSES[cls](**kw)]
            ref = L.Ref(uni)
            lines += reg.flush()
            lines.append("new %s %d %d" % (cls, 1 if cfg.get("track") else 0, 1 if cfg.get("reuse") else 0))
            for k, d in enumerate(hist):
                if d["s"] >= len(solvers):
                    outs.append(("skip",))
                    continue
                rec.events = []
                rec.check_index = 0
                rec.fault_at = d.get("fault")
                rec.fault_fired = False
                out = apply_op_ext(uni, solvers, d)
                rec.fault_at = None
                outs.append(out)
                if d["op"] == "add":
                    ref.add(d["s"], [uni.parse(c) for c in d["cs"]])
                elif d["op"] == "branch" and out[0] == "ok":
                    ref.branch(d["s"])
                if judge and d.get("fault") is not None and rec.fault_fired:
                    jf = L.judge_fault(d, out, True)
                    if jf:
                        fails.append((k, jf[0], jf[1]))
                elif judge and d["op"] == "unsat_core":
                    j = L.judge_core(uni, ref, solvers[d["s"]], d, out)
                    if j:
                        fails.append((k, j[0], j[1]))
                elif judge:
                    jout = out
                    if d["op"] in ("add", "simplify") and out[0] == "ok":
                        jout = ("ok", None)
                    j = L.judge(uni, ref, d, jout)
                    if j:
                        fails.append((k, j[0], j[1]))
                oline = op_line(reg, uni, d)
                blds = build_lines(reg, uni, d, out)
                state = dump_world(reg, solvers)
                exp = "%s ;; %s ;; -" % (render_out(reg, d, out), state)
                lines += reg.flush()
                lines += blds
                lines.append("op %d %s ;; %s" % (d["s"], oline, " ".join(rec.events)))
                expect.append((len(lines) - 1, exp, k))
        return {"lines": lines, "expect": expect, "fails": fails, "outs": outs, "l0": rec.exact_failures, "checks": rec.checks}
    finally:
        bz.reuse_z3_solver = saved
        if hasattr(bz._tls, "solver"):
            bz._tls.solver = None


# ------------------------------------------------------------------------------------------------ _split_constraints
def split_corr_lines(uni, rng, n, alphabet=None):
    """correspondence of ConstrainedFrontend._split_constraints with Claripy.Solver.splitConstraints:
    returns (request lines, expected answers)"""
    from claripy.frontend.constrained_frontend import ConstrainedFrontend
    alphabet = alphabet or (L.CONSTRAINTS + ["And(ULT(x, 3), y == 6)", "And(b, ULT(z, 2), x == 5)", "And(z == y, Or(b, x == 7))"])
    var_index = {uni.real_names[nm]: i for i, nm in enumerate(uni.names)}
    lines, expect = [], []
    for _ in range(n):
        cs = [uni.parse(rng.choice(alphabet)) for _ in range(rng.choice([0, 1, 2, 3, 5, 8]))]
        splitted = []
        for c in cs:
            splitted.extend(list(c.args) if c.op == "And" else [c])
        by_hash = {}
        for i, c in enumerate(splitted):
            by_hash.setdefault(c.hash(), []).append(i)
        res = ConstrainedFrontend._split_constraints(cs)
        groups, concrete = [], []
        for names, clist in res:
            if names == {"CONCRETE"}:
                continue
            vs = sorted(var_index[v] for v in names)
            idx = sorted(set(i for c in clist for i in by_hash[c.hash()]))
            groups.append(",".join(map(str, vs)) + ":" + ",".join(map(str, idx)))
        concrete = [i for i, c in enumerate(splitted) if len(c.variables) == 0]
        # identical conjuncts (same AST twice) are one constraint to the real function's index sets only by position;
        # skip inputs with repeated conjuncts (the model is positional as the code is)
        if any(len(v) > 1 for v in by_hash.values()):
            continue
        arg = "|".join(",".join(str(i) for i in sorted(var_index[v] for v in c.variables)) or "-" for c in splitted) or "-"
        if not splitted:
            continue
        lines.append("split " + arg)
        expect.append(";".join(sorted(groups)) + " concrete=" + ",".join(map(str, concrete)))
    return lines, expect
