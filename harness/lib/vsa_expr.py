"""C24: expression trees over variables annotated with strided intervals: generator, claripy AST builder,
independent concrete evaluator, abstract evaluation through the real VSA backend, blame of the failing node."""
from lib import vsa
from lib.vsa import M, sgn

BIN_OPS = ["add", "sub", "mul", "and", "or", "xor", "udiv", "mod", "shl", "lshr", "ashr"]
CMP_OPS = ["ULT", "ULE", "UGT", "UGE", "SLT", "SLE", "SGT", "SGE", "eq", "ne"]
UN_OPS = ["neg", "not"]

# ------------------------------------------------------------------------------------------------ trees
# bit-vector nodes: ("var", i) ("const", v, w) ("bin", op, a, b) ("un", op, a) ("zext", k, a) ("sext", k, a)
#                   ("extract", hi, lo, a) ("concat", a, b) ("if", c, a, b)
# boolean nodes:    ("cmp", op, a, b) ("not", c) ("and", c, d) ("or", c, d) ("bool", b)


def width(t, vw):
    k = t[0]
    if k == "var":
        return vw[t[1]]
    if k == "const":
        return t[2]
    if k == "bin":
        return width(t[2], vw)
    if k == "un":
        return width(t[2], vw)
    if k in ("zext", "sext"):
        return t[1] + width(t[2], vw)
    if k == "extract":
        return t[1] - t[2] + 1
    if k == "concat":
        return width(t[1], vw) + width(t[2], vw)
    if k == "if":
        return width(t[2], vw)
    raise ValueError(k)


def is_bool(t):
    return t[0] in ("cmp", "not", "and", "or", "bool")


def gen_bv(rng, vw, w, depth):
    """a random bit-vector tree of width w over variables with widths vw"""
    cands = [i for i, x in enumerate(vw) if x == w]
    if depth <= 0 or rng.random() < 0.15:
        if cands and rng.random() < 0.8:
            return ("var", rng.choice(cands))
        return ("const", rng.choice([0, 1, M(w), 1 << (w - 1), rng.randrange(1 << w)]) & M(w), w)
    r = rng.random()
    if r < 0.50:
        op = rng.choice(BIN_OPS)
        b = gen_bv(rng, vw, w, depth - 1)
        if op in ("shl", "lshr", "ashr", "udiv", "mod") and rng.random() < 0.6:
            b = ("const", rng.randrange(0, w + 2) & M(w), w)
        return ("bin", op, gen_bv(rng, vw, w, depth - 1), b)
    if r < 0.60:
        return ("un", rng.choice(UN_OPS), gen_bv(rng, vw, w, depth - 1))
    if r < 0.70 and w >= 2:
        k = rng.randrange(1, w)
        return (rng.choice(["zext", "sext"]), k, gen_bv(rng, vw, w - k, depth - 1))
    if r < 0.80:
        src = w + rng.randrange(1, 4)
        lo = rng.randrange(0, src - w + 1)
        return ("extract", lo + w - 1, lo, gen_bv(rng, vw, src, depth - 1))
    if r < 0.88 and w >= 2:
        k = rng.randrange(1, w)
        return ("concat", gen_bv(rng, vw, k, depth - 1), gen_bv(rng, vw, w - k, depth - 1))
    if r < 0.97:
        return ("if", gen_bool(rng, vw, depth - 1), gen_bv(rng, vw, w, depth - 1), gen_bv(rng, vw, w, depth - 1))
    return ("var", rng.choice(cands)) if cands else ("const", rng.randrange(1 << w), w)


def gen_bool(rng, vw, depth):
    r = rng.random()
    if depth <= 0 or r < 0.7:
        w = rng.choice(vw + [rng.choice(vw)])
        return ("cmp", rng.choice(CMP_OPS), gen_bv(rng, vw, w, depth - 1), gen_bv(rng, vw, w, depth - 1))
    if r < 0.8:
        return ("not", gen_bool(rng, vw, depth - 1))
    if r < 0.9:
        return ("and", gen_bool(rng, vw, depth - 1), gen_bool(rng, vw, depth - 1))
    return ("or", gen_bool(rng, vw, depth - 1), gen_bool(rng, vw, depth - 1))


def size(t):
    return 1 + sum(size(x) for x in t[1:] if isinstance(x, tuple))


# ------------------------------------------------------------------------------------------------ concrete evaluation
def ev(t, env, vw):
    """value of the tree under the assignment env (list of ints); None = division by zero somewhere (exempt)"""
    k = t[0]
    if k == "var":
        return env[t[1]]
    if k == "const":
        return t[1]
    if k == "bool":
        return t[1]
    if k == "bin":
        a, b = ev(t[2], env, vw), ev(t[3], env, vw)
        if a is None or b is None:
            return None
        return vsa.BIN[t[1]][1](a, b, width(t[2], vw))
    if k == "un":
        a = ev(t[2], env, vw)
        if a is None:
            return None
        w = width(t[2], vw)
        return (-a) & M(w) if t[1] == "neg" else a ^ M(w)
    if k == "zext":
        return ev(t[2], env, vw)
    if k == "sext":
        a = ev(t[2], env, vw)
        if a is None:
            return None
        w = width(t[2], vw)
        return sgn(a, w) & M(w + t[1])
    if k == "extract":
        a = ev(t[3], env, vw)
        if a is None:
            return None
        return (a >> t[2]) & M(t[1] - t[2] + 1)
    if k == "concat":
        a, b = ev(t[1], env, vw), ev(t[2], env, vw)
        if a is None or b is None:
            return None
        return (a << width(t[2], vw)) | b
    if k == "if":
        c = ev(t[1], env, vw)
        if c is None:
            return None
        return ev(t[2], env, vw) if c else ev(t[3], env, vw)
    if k == "cmp":
        a, b = ev(t[2], env, vw), ev(t[3], env, vw)
        if a is None or b is None:
            return None
        return bool(vsa.CMP[t[1]][1](a, b, width(t[2], vw)))
    if k == "not":
        c = ev(t[1], env, vw)
        return None if c is None else (not c)
    if k in ("and", "or"):
        c, d = ev(t[1], env, vw), ev(t[2], env, vw)
        if c is None or d is None:
            return None
        return (c and d) if k == "and" else (c or d)
    raise ValueError(k)


# ------------------------------------------------------------------------------------------------ claripy ASTs
def build(t, xs):
    import claripy
    k = t[0]
    if k == "var":
        return xs[t[1]]
    if k == "const":
        return claripy.BVV(t[1], t[2])
    if k == "bool":
        return claripy.BoolV(t[1])
    if k == "bin":
        a, b = build(t[2], xs), build(t[3], xs)
        op = t[1]
        return {"add": lambda: a + b, "sub": lambda: a - b, "mul": lambda: a * b, "and": lambda: a & b, "or": lambda: a | b,
                "xor": lambda: a ^ b, "udiv": lambda: a // b, "mod": lambda: a % b, "shl": lambda: a << b,
                "lshr": lambda: claripy.LShR(a, b), "ashr": lambda: a >> b}[op]()
    if k == "un":
        a = build(t[2], xs)
        return -a if t[1] == "neg" else ~a
    if k == "zext":
        return build(t[2], xs).zero_extend(t[1])
    if k == "sext":
        return build(t[2], xs).sign_extend(t[1])
    if k == "extract":
        return build(t[3], xs)[t[1]:t[2]]
    if k == "concat":
        return claripy.Concat(build(t[1], xs), build(t[2], xs))
    if k == "if":
        return claripy.If(build(t[1], xs), build(t[2], xs), build(t[3], xs))
    if k == "cmp":
        a, b = build(t[2], xs), build(t[3], xs)
        op = t[1]
        if op == "eq":
            return a == b
        if op == "ne":
            return a != b
        return getattr(claripy, op)(a, b)
    if k == "not":
        return claripy.Not(build(t[1], xs))
    if k == "and":
        return claripy.And(build(t[1], xs), build(t[2], xs))
    if k == "or":
        return claripy.Or(build(t[1], xs), build(t[2], xs))
    raise ValueError(k)


def mk_vars(annos, tag):
    """annotated variables; annos = list of interval tuples"""
    import claripy
    from claripy.annotation import StridedIntervalAnnotation
    return [claripy.BVS("v%d_%s" % (i, tag), t[0], explicit_name=True).annotate(StridedIntervalAnnotation(t[1], t[2], t[3]))
            for i, t in enumerate(annos)]


def abstract(e):
    """canonical abstract value of an AST through the real VSA backend"""
    import claripy
    from lib import vsa_sets
    try:
        return vsa_sets.canon_obj(claripy.backends.vsa.convert(e))
    except RecursionError:
        return ("err", "RecursionError")
    except Exception as ex:  # noqa
        return ("err", type(ex).__name__)


def contains(c, v):
    """does the canonical abstract value c contain the concrete value v (int or bool)?"""
    from lib import vsa_sets
    if isinstance(v, bool):
        return c[0] == "bool" and ("T" if v else "F") in c[1]
    return vsa_sets.res_member(c, v)


def subtrees(t):
    """post-order list of subtrees"""
    out = []
    for x in t[1:]:
        if isinstance(x, tuple) and x and isinstance(x[0], str) and x[0] in (
                "var", "const", "bin", "un", "zext", "sext", "extract", "concat", "if", "cmp", "not", "and", "or", "bool"):
            out += subtrees(x)
    out.append(t)
    return out


def show(t):
    k = t[0]
    if k == "var":
        return "v%d" % t[1]
    if k == "const":
        return "%d#%d" % (t[1], t[2])
    if k == "bool":
        return str(t[1])
    if k == "bin":
        return "(%s %s %s)" % (show(t[2]), t[1], show(t[3]))
    if k == "un":
        return "%s(%s)" % (t[1], show(t[2]))
    if k in ("zext", "sext"):
        return "%s(%d, %s)" % (k, t[1], show(t[2]))
    if k == "extract":
        return "%s[%d:%d]" % (show(t[3]), t[1], t[2])
    if k == "concat":
        return "(%s .. %s)" % (show(t[1]), show(t[2]))
    if k == "if":
        return "If(%s, %s, %s)" % (show(t[1]), show(t[2]), show(t[3]))
    if k == "cmp":
        return "(%s %s %s)" % (show(t[2]), t[1], show(t[3]))
    if k == "not":
        return "!%s" % show(t[1])
    return "(%s %s %s)" % (show(t[1]), k, show(t[2]))


# ------------------------------------------------------------------------------------------------ real AST -> driver syntax
_FOLD = {"__add__": "add", "__sub__": "sub", "__mul__": "mul", "__and__": "and", "__or__": "or", "__xor__": "xor",
         "__floordiv__": "udiv", "__mod__": "mod", "__lshift__": "shl", "__rshift__": "ashr", "LShR": "lshr"}
_CMP = {"ULT": "ULT", "ULE": "ULE", "UGT": "UGT", "UGE": "UGE", "SLT": "SLT", "SLE": "SLE", "SGT": "SGT", "SGE": "SGE",
        "__eq__": "eq", "__ne__": "ne", "__lt__": "ULT", "__le__": "ULE", "__gt__": "UGT", "__ge__": "UGE"}


class Unmodelled(Exception):
    pass


def serialize(ast, var_index):
    """prefix tokens of the AST the VSA backend evaluates (after excavate_ite) and the recorded set orders of its udiv
    nodes in evaluation order.  Raises Unmodelled for operators outside the model's vocabulary."""
    import claripy
    from lib import vsa_check
    orders = []

    def abs_tuple(node):
        # the operand as it was evaluated INSIDE the parent (the caller has converted the whole AST before): converting the operand
        # on its own would excavate it again, which can rewrite it (v - If(c, v, v) becomes If(c, 0, 0)) and give another value
        r = claripy.backends.vsa._object_cache.get(node.hash(), None)
        if r is None:
            r = claripy.backends.vsa.convert(node)
        t = vsa.tup(r)
        if not isinstance(t, (tuple, str)):
            raise Unmodelled("non-interval operand of udiv")
        return t

    seen = {}

    def go(n):
        # the model identifies the fresh name created at a node with the node's TERM: two different ASTs must not serialise to
        # one term (n-ary operators are written as left folds, so __add__(__add__(a, b), c) and __add__(a, b, c) would; claripy
        # flattens the former at construction).  The intermediate results of a fold have names nothing else sees.
        toks = go1(n)
        if n.op not in _BOOL_OPS and n.op not in ("And", "Or", "Not", "BoolV"):
            key = " ".join(toks)
            if seen.setdefault(key, n.hash()) != n.hash():
                raise Unmodelled("two ASTs with one serialisation")
        return toks

    def go1(n):
        op = n.op
        if op == "BVS":
            if n.args[0] not in var_index:
                raise Unmodelled("unknown variable")
            from claripy.annotation import StridedIntervalAnnotation
            if not any(isinstance(a, StridedIntervalAnnotation) for a in n.annotations):
                return ["free", str(var_index[n.args[0]]), str(n.size())]     # the annotation was lost on the way (sound: TOP)
            return ["var", str(var_index[n.args[0]]), str(n.size())]
        if op == "BVV":
            return ["const", str(n.args[0]), str(n.args[1])]
        if op == "BoolV":
            return ["lit", "1" if n.args[0] else "0"]
        if op in _FOLD:
            toks = go(n.args[0])
            for i, a in enumerate(n.args[1:]):
                rhs = go(a)
                toks = ["bin", _FOLD[op]] + toks + rhs
                if op == "__floordiv__":
                    left = n.args[0] if i == 0 else None
                    if left is None:
                        raise Unmodelled("n-ary udiv")
                    orders.append(vsa_check.set_order("udiv", abs_tuple(left), abs_tuple(a)))
            return toks
        if op == "__neg__":
            return ["neg"] + go(n.args[0])
        if op == "__invert__":
            return ["not"] + go(n.args[0])
        if op == "ZeroExt":
            return ["zext", str(n.args[0])] + go(n.args[1])
        if op == "SignExt":
            return ["sext", str(n.args[0])] + go(n.args[1])
        if op == "Extract":
            return ["extract", str(n.args[0]), str(n.args[1])] + go(n.args[2])
        if op == "Concat":
            toks = go(n.args[0])
            for a in n.args[1:]:
                toks = ["concat"] + toks + go(a)
            return toks
        if op == "If":
            return ["ite"] + go(n.args[0]) + go(n.args[1]) + go(n.args[2])
        if op in _CMP:
            return ["cmp", _CMP[op]] + go(n.args[0]) + go(n.args[1])
        if op == "Not":
            return ["bnot"] + go(n.args[0])
        if op in ("And", "Or"):
            toks = go(n.args[0])
            for a in n.args[1:]:
                toks = ["band" if op == "And" else "bor"] + toks + go(a)
            return toks
        raise Unmodelled(op)

    if any(getattr(x, "annotations", ()) and x.op != "BVS" for x in ast.children_asts()) or (ast.annotations and ast.op != "BVS"):
        raise Unmodelled("annotation on an inner node")
    toks = go(ast)
    return toks, orders


# ------------------------------------------------------------------------------------------------ concrete evaluation of claripy ASTs
def ev_ast(n, env):
    """value of a claripy AST under env (dict variable name -> int); independent of claripy's backends.
    None = division by zero.  Raises Unmodelled for operators outside the vocabulary."""
    op = n.op
    if op == "BVS":
        return env[n.args[0]]
    if op == "BVV":
        return n.args[0]
    if op == "BoolV":
        return bool(n.args[0])
    a = [ev_ast(x, env) if hasattr(x, "op") else x for x in n.args]
    if any(x is None for x in a):
        return None
    if op in ("__add__", "__mul__", "__and__", "__or__", "__xor__"):
        w = n.size()
        r = a[0]
        for x in a[1:]:
            r = {"__add__": r + x, "__mul__": r * x, "__and__": r & x, "__or__": r | x, "__xor__": r ^ x}[op] & M(w)
        return r
    if op == "__sub__":
        w = n.size()
        r = a[0]
        for x in a[1:]:
            r = (r - x) & M(w)
        return r
    if op == "__floordiv__":
        return None if a[1] == 0 else a[0] // a[1]
    if op == "__mod__":
        return None if a[1] == 0 else a[0] % a[1]
    if op == "__lshift__":
        return vsa.c_shl(a[0], a[1], n.size())
    if op == "LShR":
        return vsa.c_lshr(a[0], a[1], n.size())
    if op == "__rshift__":
        return vsa.c_ashr(a[0], a[1], n.size())
    if op == "__neg__":
        return (-a[0]) & M(n.size())
    if op == "__invert__":
        return a[0] ^ M(n.size())
    if op == "ZeroExt":
        return a[1]
    if op == "SignExt":
        w = n.args[1].size()
        return sgn(a[1], w) & M(w + n.args[0])
    if op == "Extract":
        return (a[2] >> n.args[1]) & M(n.args[0] - n.args[1] + 1)
    if op == "Concat":
        r = 0
        for x, node in zip(a, n.args):
            r = (r << node.size()) | x
        return r
    if op == "If":
        return a[1] if a[0] else a[2]
    if op in _CMP:
        w = n.args[0].size() if hasattr(n.args[0], "size") and n.args[0].op not in _BOOL_OPS else None
        if w is None:       # Boolean (dis)equality
            return (a[0] == a[1]) if op == "__eq__" else (a[0] != a[1])
        return bool(vsa.CMP[_CMP[op]][1](a[0], a[1], w))
    if op == "Not":
        return not a[0]
    if op == "And":
        return all(a)
    if op == "Or":
        return any(a)
    if op == "Reverse":
        w = n.size()
        return int.from_bytes(a[0].to_bytes(w // 8, "big"), "little")
    raise Unmodelled(op)


_BOOL_OPS = {"BoolV", "BoolS", "And", "Or", "Not", "ULT", "ULE", "UGT", "UGE", "SLT", "SLE", "SGT", "SGE", "__eq__", "__ne__",
             "__lt__", "__le__", "__gt__", "__ge__"}


# ------------------------------------------------------------------------------------------------ directed shapes: the NAME dimension
# An abstract value carries the name of the variable it came from and `==`/`!=` answer by name first.  These shapes put two
# different derivations of the SAME variable on the two sides of a comparison (f(x) cmp x, f(x) cmp g(x), two joins
# If(c1, x, y) cmp If(c2, x, y) with different conditions - a single If is excavated above the comparison).
def derive(rng, vw, v, depth=1):
    """a term of the width of variable v built from one operation on v (depth 1) or on such a term (depth 2)"""
    w = vw[v]
    base = ("var", v) if depth <= 1 else derive(rng, vw, v, depth - 1)
    others = [i for i, x in enumerate(vw) if x == w and i != v]
    def second():
        r = rng.random()
        if others and r < 0.35:
            return ("var", rng.choice(others))
        if r < 0.45:
            return ("var", v)
        return ("const", rng.choice([0, 1, 1, 2, w - 1, M(w), 1 << (w - 1), rng.randrange(1 << w)]) & M(w), w)
    k = rng.random()
    if k < 0.50:
        op = rng.choice(BIN_OPS)
        s = second()
        return ("bin", op, base, s) if rng.random() < 0.7 else ("bin", op, s, base)
    if k < 0.58:
        return ("un", rng.choice(UN_OPS), base)
    if k < 0.72 and w >= 2:
        j = rng.randrange(1, w)
        lo = rng.choice([0, j])
        return (rng.choice(["zext", "sext"]), j, ("extract", lo + w - j - 1, lo, base))
    if k < 0.80:
        j = rng.randrange(1, 3)
        lo = rng.randrange(0, j + 1)
        return ("extract", lo + w - 1, lo, (rng.choice(["zext", "sext"]), j, base))
    if k < 0.86 and w >= 2:
        j = rng.randrange(1, w)
        hi_, lo_ = ("extract", w - 1, j, base), ("extract", j - 1, 0, base)
        return ("concat", hi_, lo_) if rng.random() < 0.5 else ("concat", lo_, hi_)
    # a join: If over a condition that does not decide it
    c = ("cmp", rng.choice(CMP_OPS), ("var", rng.choice(others + [v])), ("const", rng.randrange(1 << w), w))
    s = second()
    return ("if", c, base, s) if rng.random() < 0.5 else ("if", c, s, base)


def gen_named(rng, vw, nested=None):
    """a Boolean tree (or a bit-vector tree around one) comparing two derivations of the same variable"""
    v = rng.randrange(len(vw))
    w = vw[v]
    k = rng.random()
    if k < 0.35:
        L, R = derive(rng, vw, v, rng.choice([1, 1, 2])), ("var", v)
    elif k < 0.55:
        L, R = derive(rng, vw, v, rng.choice([1, 1, 2])), derive(rng, vw, v, 1)
    elif k < 0.85 and len(vw) >= 2:
        # two joins of the same two variables under different conditions
        others = [i for i, x in enumerate(vw) if x == w and i != v]
        u = ("var", rng.choice(others)) if others else ("const", rng.randrange(1 << w), w)
        def cond():
            a = rng.choice([("var", v), u if u[0] == "var" else ("var", v)])
            return ("cmp", rng.choice(CMP_OPS), a, ("const", rng.randrange(1 << w), w))
        L = ("if", cond(), ("var", v), u)
        R = ("if", cond(), ("var", v), u) if rng.random() < 0.7 else ("if", cond(), u, ("var", v))
        if rng.random() < 0.2:
            R = ("var", v) if rng.random() < 0.5 else u
    else:
        e = rng.randrange(1, 3)
        d = derive(rng, vw, v, 1)
        L, R = rng.choice([
            ((rng.choice(["zext", "sext"]), e, d), (rng.choice(["zext", "sext"]), e, ("var", v))),
            (("concat", d, ("var", v)), ("concat", ("var", v), ("var", v))),
            (("extract", w - 1, w - 1, d), ("extract", w - 1, w - 1, ("var", v))),
        ])
    if rng.random() < 0.3:
        L, R = R, L
    op = rng.choice(CMP_OPS + ["eq", "ne", "eq", "ne"])
    t = ("cmp", op, L, R)
    r = rng.random()
    if r < 0.75:
        return t
    if r < 0.83:
        return ("not", t)
    if r < 0.91:
        return (rng.choice(["and", "or"]), t, gen_bool(rng, vw, 1))
    return ("if", t, derive(rng, vw, v, 1), ("var", v))


# ------------------------------------------------------------------------------------------------ directed shapes: SHARED derived nodes
# Every operation that builds a new interval gives it a fresh name, and the backend converts an AST once (Backend.convert keeps
# the object of every AST; ASTs are hash-consed): the two occurrences of one sub-AST d are ONE object with ONE name.  The name
# survives zero_extend (non-wrapping), sign_extend (non-negative), a full-width extract and an If that selects, so
# zext(k, d) == sext(k, d) is answered by NAME.  The shapes put one derived node d (an extraction or a one/two-step derivation of
# a variable, a join, a constant) under two different name-keeping contexts on the two sides of a comparison.
def decided_cond(rng, vw, annos, u):
    """a comparison of variable u with a constant; about half of them are decided by u's annotation"""
    w = vw[u]
    if annos is not None and rng.random() < 0.7:
        t = annos[u]
        lo, hi = (t[2], t[3]) if t[2] <= t[3] else (0, M(w))
        return rng.choice([("cmp", "ULE", ("var", u), ("const", hi, w)), ("cmp", "UGE", ("var", u), ("const", lo, w)),
                           ("cmp", "UGT", ("var", u), ("const", hi, w)), ("cmp", "ULT", ("var", u), ("const", lo, w)),
                           ("cmp", "ULE", ("var", u), ("const", rng.randrange(1 << w), w))])
    return ("cmp", rng.choice(CMP_OPS), ("var", u), ("const", rng.randrange(1 << w), w))


def gen_shared(rng, vw, annos=None):
    """a Boolean tree comparing two name-keeping contexts of ONE derived node"""
    v = rng.randrange(len(vw))
    w = vw[v]
    others = [i for i, x in enumerate(vw) if x == w and i != v]
    u = rng.choice(others) if others else v
    r = rng.random()
    # the shared node d (dw bits)
    if r < 0.35 and w >= 2:
        j = rng.randrange(1, w)                      # an extraction: the top cut is non-negative when the variable is small
        lo = rng.choice([0, w - j, rng.randrange(0, w - j + 1)])
        d, dw = ("extract", lo + j - 1, lo, ("var", v)), j
    elif r < 0.75:
        d, dw = derive(rng, vw, v, rng.choice([1, 1, 2])), w
    elif r < 0.9:
        d, dw = ("if", decided_cond(rng, vw, None, u), ("var", v), ("var", u) if u != v else ("const", rng.randrange(1 << w), w)), w
    else:
        d, dw = ("const", rng.randrange(1 << w), w), w
    k = rng.randrange(1, 3)
    j = rng.randrange(1, 3)
    z = ("const", rng.randrange(1 << dw), dw)
    sel = lambda t: ("if", decided_cond(rng, vw, annos, u), t, z) if rng.random() < 0.5 else ("if", decided_cond(rng, vw, annos, u), z, t)  # noqa: E731
    ext = lambda: rng.choice(["zext", "sext"])  # noqa: E731
    shape = rng.choice(["ext-ext", "ext-ext", "ext-ext", "extract-full", "ext-ext-ext", "ext-ext-ext", "select", "select-ext", "shift", "two-selects"])
    if shape == "ext-ext":              # zext(k, d) cmp sext(k, d)  (the witness of the thorough sweep)
        L, R = (ext(), k, d), (ext(), k, d)
    elif shape == "extract-full":       # a full-width extract (claripy removes it when it can) against a selecting If
        L, R = ("extract", dw - 1, 0, d), sel(d)
    elif shape == "ext-ext-ext":        # two extensions of different width, compared after another extension
        L, R = (ext(), j, (ext(), k, d)), (ext(), j + k, d)
    elif shape == "select":             # d against an If that (often) selects d
        L, R = d, sel(d)
    elif shape == "select-ext":
        L, R = (ext(), k, sel(d)), (ext(), k, d)
    elif shape == "shift":              # a shift keeps the name only of an empty operand
        L, R = ("bin", rng.choice(["shl", "lshr", "ashr"]), d, ("const", rng.randrange(0, dw + 1) & M(dw), dw)), d
    else:
        L, R = sel(d), sel(d)
    if rng.random() < 0.3:
        L, R = R, L
    t = ("cmp", rng.choice(["eq", "ne", "eq", "ne", "eq", "ne"] + CMP_OPS), L, R)
    r = rng.random()
    if r < 0.8:
        return t
    if r < 0.9:
        return ("not", t)
    return (rng.choice(["and", "or"]), t, gen_bool(rng, vw, 1))


# ------------------------------------------------------------------------------------------------ stateful sequences through the backend
# The backend keeps the converted object of every AST (Backend._object_cache, keyed by the AST's hash; is_true/is_false keep
# their own tables): ONE StridedInterval object serves every expression an annotated variable occurs in, and every query of
# it.  All other cases of this check convert an expression over fresh variables once, so anything the object remembers from
# an earlier query is invisible.  A *sequence* is a list of items over the SAME variables, executed in order:
#   (kind, tree, param)   kind = "abs" (convert; the abstract value must contain every value of the tree)
#                                | "min" | "max" (param = signed) | "eval" (param = n) | "card" | "sol" (param = value)
#                                | "is_true" | "is_false" | "has_true" | "has_false" (Boolean trees)
# built as: query x -> query every derivation d(x) (unary operations, width changes, shifts/arithmetic by constants) -> query x
# again -> the same two levels deep.  Oracle: the concrete values of the tree over every assignment (ev).  A failing item is
# re-run alone over fresh variables: passing there = the failure depends on what was asked before (state-dependent).
_SEQ_TAG = [0]


def seq_apply(step, t):
    k = step[0]
    if k in ("zext", "sext"):
        return (k, step[1], t)
    if k == "extract":
        return ("extract", step[1], step[2], t)
    if k == "un":
        return ("un", step[1], t)
    if k == "binc":
        c = ("const", step[2], step[3])
        return ("bin", step[1], t, c) if step[4] == "r" else ("bin", step[1], c, t)
    if k == "concat":
        c = ("const", step[1], step[2])
        return ("concat", t, c) if step[3] == "r" else ("concat", c, t)
    raise ValueError(k)


def seq_step_width(w, step):
    k = step[0]
    if k in ("zext", "sext"):
        return w + step[1]
    if k == "extract":
        return step[1] - step[2] + 1
    if k == "concat":
        return w + step[2]
    return w


def seq_steps(rng, w):
    out = [("un", "neg"), ("un", "not")]
    for k in sorted({1, 2, w, rng.choice([3, 8, 16])}):
        out += [("zext", k), ("sext", k)]
    ex = {(w - 1, 0), (0, 0), (w - 1, w - 1)}
    if w >= 2:
        ex |= {(w - 1, 1), (w - 2, 0)}
    out += [("extract", hi, lo) for hi, lo in sorted(ex)]
    for op in ("shl", "lshr", "ashr"):
        for c in sorted({1, max(1, w - 1)}):
            out.append(("binc", op, c & M(w), w, "r"))
    for op in rng.sample(["add", "sub", "mul", "and", "or", "xor"], 3):
        out.append(("binc", op, rng.choice([1, M(w), 1 << (w - 1), rng.randrange(1 << w)]) & M(w), w, rng.choice("lr")))
    out.append(("concat", rng.randrange(2), 1, rng.choice("lr")))
    return out


def seq_battery(rng, t, w, widths=(), light=False):
    """the items put to the bit-vector term t (w bits)"""
    half = 1 << (w - 1)
    consts = {0, 1, M(w), half, half - 1, rng.randrange(1 << w)}
    for a in widths:
        if a < w:
            consts |= {1 << (a - 1), M(a), 1 << a}
    consts = sorted(c & M(w) for c in consts)
    chosen = sorted({0} | set(rng.sample(consts, min(len(consts), 1 if light else 2))))
    items = []
    for c in chosen:
        for op in CMP_OPS:
            for tree in (("cmp", op, t, ("const", c, w)), ("cmp", op, ("const", c, w), t)):
                r = rng.random()
                items.append(("abs" if r < 0.7 else rng.choice(["is_true", "is_false", "has_true", "has_false"]), tree, None))
    items.append(("abs", t, None))
    for sg in (False, True):
        items += [("min", t, sg), ("max", t, sg)]
    items += [("eval", t, rng.choice([1, 2, 5, 300])), ("card", t, None), ("sol", t, rng.choice(consts)), ("sol", t, rng.randrange(1 << w))]
    rng.shuffle(items)
    return items


def gen_sequences(rng, rand_anno, n_fan, n_deep):
    """-> list of (annos, items, stream)"""
    out = []
    x = ("var", 0)
    for i in range(n_fan):
        w = rng.choice([1, 2, 2, 3, 3, 4, 4, 5, 6, 8, 8])
        anno = rand_anno(rng, w, rng.random() < 0.9)
        items = seq_battery(rng, x, w)
        for s in seq_steps(rng, w):
            items += seq_battery(rng, seq_apply(s, x), seq_step_width(w, s), widths=(w,), light=rng.random() < 0.5)
        items += seq_battery(rng, x, w)
        out.append(([anno], items, "seq-fan"))
    for i in range(n_deep):
        w = rng.choice([1, 2, 2, 3, 3, 4, 4, 5, 6, 8, 8])
        anno = rand_anno(rng, w, rng.random() < 0.9)
        s1 = rng.choice(seq_steps(rng, w)); w1 = seq_step_width(w, s1); y = seq_apply(s1, x)
        s2 = rng.choice(seq_steps(rng, w1)); w2 = seq_step_width(w1, s2); z = seq_apply(s2, y)
        first = seq_battery(rng, x, w)
        if rng.random() < 0.4:
            first = first[:rng.randrange(1, 4)]
        items = first + seq_battery(rng, y, w1, widths=(w,), light=rng.random() < 0.3) + seq_battery(rng, z, w2, widths=(w, w1)) + \
            seq_battery(rng, y, w1, widths=(w,), light=True) + seq_battery(rng, x, w, light=True)
        out.append(([anno], items, "seq-deep"))
    return out


def seq_values(tree, annos, memo):
    if tree not in memo:
        vw = [a[0] for a in annos]
        import itertools
        vals = set()
        for env in itertools.product(*[vsa.gamma(a) for a in annos]):
            v = ev(tree, env, vw)
            if v is not None:
                vals.add(v)
        memo[tree] = vals
    return memo[tree]


def seq_item_run(kind, e, param, w):
    import claripy
    b = claripy.backends.vsa
    try:
        if kind == "abs":
            return abstract(e)
        if kind == "min":
            return ("val", b.min(e, signed=param))
        if kind == "max":
            return ("val", b.max(e, signed=param))
        if kind == "eval":
            return ("list", tuple(b.eval(e, param)))
        if kind == "card":
            return ("val", b.cardinality(e))
        if kind == "sol":
            return ("val", b.solution(e, claripy.BVV(param, w)))
        return ("val", getattr(b, kind)(e))
    except RecursionError:
        return ("err", "RecursionError")
    except Exception as ex:  # noqa
        return ("err", type(ex).__name__)


def seq_item_judge(kind, param, r, vals, w):
    """-> None | (failure kind, detail)"""
    if r == ("err", "ClaripyZeroDivisionError") or not vals:
        return None
    if r[0] == "err":
        return ("err:" + r[1], "raises " + r[1])
    if kind == "abs":
        for v in sorted(vals, key=lambda z: (isinstance(z, bool), z)):
            if not contains(r, v):
                return ("unsound", "the value %r occurs and is not in the abstract value %s" % (v, r[1] if r[0] != "dsis" else r))
        return None
    x = r[1]
    if kind in ("min", "max"):
        sv = [sgn(v, w) for v in vals] if param else list(vals)
        if not isinstance(x, int):
            return ("malformed", "%s returns %r" % (kind, x))
        if kind == "min" and x > min(sv):
            return ("min-too-large", "min(signed=%s) = %d but the value %d occurs" % (param, x, min(sv)))
        if kind == "max" and x < max(sv):
            return ("max-too-small", "max(signed=%s) = %d but the value %d occurs" % (param, x, max(sv)))
    elif kind == "eval":
        if len(x) < param and any(v not in x for v in vals):
            return ("eval-misses-value", "eval(%d) lists %d value(s) %r and misses %d" % (param, len(x), x[:6], min(v for v in vals if v not in x)))
    elif kind == "card":
        if not isinstance(x, int) or x < len(vals):
            return ("cardinality-too-small", "cardinality = %r but %d different values occur" % (x, len(vals)))
    elif kind == "sol":
        if param in vals and x is not True:
            return ("solution-false-for-a-value", "solution(%d) = %r but the value occurs" % (param, x))
    elif kind == "is_true":
        if x and False in vals:
            return ("unsound", "is_true although False occurs")
    elif kind == "is_false":
        if x and True in vals:
            return ("unsound", "is_false although True occurs")
    elif kind == "has_true":
        if not x and True in vals:
            return ("unsound", "has_true is False although True occurs")
    elif kind == "has_false":
        if not x and False in vals:
            return ("unsound", "has_false is False although False occurs")
    return None


def seq_run(annos, items, only_last=False):
    """execute the items in order over ONE set of variables -> list of (index, failure kind, detail, observed)"""
    _SEQ_TAG[0] += 1
    xs = mk_vars(annos, "sq%d" % _SEQ_TAG[0])
    vw = [a[0] for a in annos]
    memo = {}
    fails = []
    for k, (kind, tree, param) in enumerate(items):
        try:
            e = build(tree, xs)
        except Exception:  # noqa  (constant folding raises while building: exempt)
            continue
        w = None if is_bool(tree) else width(tree, vw)
        r = seq_item_run(kind, e, param, w)
        if only_last and k < len(items) - 1:
            continue
        bad = seq_item_judge(kind, param, r, seq_values(tree, annos, memo), w)
        if bad:
            fails.append((k, bad[0], bad[1], r))
    return fails


def seq_subject(tree):
    """the bit-vector term an item is about (the non-constant side of a comparison)"""
    if tree[0] == "cmp":
        return tree[3] if tree[2][0] == "const" else tree[2]
    return tree


def seq_qname(kind, tree):
    if tree[0] == "cmp":
        return tree[1] if kind == "abs" else kind
    return "convert" if kind == "abs" else kind


def seq_outer(t):
    return t[1] if t[0] in ("bin", "un") else {"var": "variable"}.get(t[0], t[0])


def seq_shrink(annos, items, k, fkind):
    """a shorter sequence ending in item k that still fails the same way: one earlier item if one suffices, else halves"""
    last = items[k]

    def still(seq):
        return any(f[0] == len(seq) - 1 and f[1] == fkind for f in seq_run(annos, seq, only_last=True))
    for j in range(k):
        if still([items[j], last]):
            return [items[j], last]
    pre = list(items[:k])
    n = 2
    budget = 120
    while len(pre) >= 2 and budget > 0:
        size = max(1, len(pre) // n)
        for i in range(0, len(pre), size):
            cand = pre[:i] + pre[i + size:]
            budget -= 1
            if still(cand + [last]):
                pre = cand
                n = max(n - 1, 2)
                break
        else:
            if size == 1:
                break
            n = min(len(pre), n * 2)
    return pre + [last]


def seq_show(annos, items):
    def one(kind, tree, param):
        if kind == "abs":
            return show(tree)
        if kind in ("min", "max"):
            return "%s(%s, signed=%s)" % (kind, show(tree), param)
        if kind in ("eval", "sol"):
            return "%s(%s, %d)" % ({"sol": "solution"}.get(kind, kind), show(tree), param)
        return "%s(%s)" % ({"card": "cardinality"}.get(kind, kind), show(tree))
    return "v0 = %s: " % ", ".join(vsa.show(a) for a in annos) + "; then ".join(one(*i) for i in items)
