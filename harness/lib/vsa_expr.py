"""C24: expression trees over variables annotated with strided intervals: generator, claripy AST builder,
independent concrete evaluator, abstract evaluation through the real VSA backend, blame of the failing node."""
from lib import vsa
from lib.vsa import M, sgn

BIN_OPS = ["add", "sub", "mul", "and", "or", "xor", "udiv", "mod", "shl", "lshr", "ashr"]
CMP_OPS = ["ULT", "ULE", "UGT", "UGE", "SLT", "SLE", "SGT", "SGE", "eq", "ne"]
UN_OPS = ["neg", "not"]

# ------------------------------------------------------------------------------------------------ trees
# bit-vector nodes: ("var", i) ("const", v, w) ("bin", op, a, b) ("un", op, a) ("zext", k, a) ("sext", k, a)
#                   ("extract", hi, lo, a) ("concat", a, b) ("if", c, a, b)
# boolean nodes:    ("cmp", op, a, b) ("not", c) ("and", c, d) ("or", c, d) ("bool", b)


def width(t, vw):
    k = t[0]
    if k == "var":
        return vw[t[1]]
    if k == "const":
        return t[2]
    if k == "bin":
        return width(t[2], vw)
    if k == "un":
        return width(t[2], vw)
    if k in ("zext", "sext"):
        return t[1] + width(t[2], vw)
    if k == "extract":
        return t[1] - t[2] + 1
    if k == "concat":
        return width(t[1], vw) + width(t[2], vw)
    if k == "if":
        return width(t[2], vw)
    raise ValueError(k)


def is_bool(t):
    return t[0] in ("cmp", "not", "and", "or", "bool")


def gen_bv(rng, vw, w, depth):
    """a random bit-vector tree of width w over variables with widths vw"""
    cands = [i for i, x in enumerate(vw) if x == w]
    if depth <= 0 or rng.random() < 0.15:
        if cands and rng.random() < 0.8:
            return ("var", rng.choice(cands))
        return ("const", rng.choice([0, 1, M(w), 1 << (w - 1), rng.randrange(1 << w)]) & M(w), w)
    r = rng.random()
    if r < 0.50:
        op = rng.choice(BIN_OPS)
        b = gen_bv(rng, vw, w, depth - 1)
        if op in ("shl", "lshr", "ashr", "udiv", "mod") and rng.random() < 0.6:
            b = ("const", rng.randrange(0, w + 2) & M(w), w)
        return ("bin", op, gen_bv(rng, vw, w, depth - 1), b)
    if r < 0.60:
        return ("un", rng.choice(UN_OPS), gen_bv(rng, vw, w, depth - 1))
    if r < 0.70 and w >= 2:
        k = rng.randrange(1, w)
        return (rng.choice(["zext", "sext"]), k, gen_bv(rng, vw, w - k, depth - 1))
    if r < 0.80:
        src = w + rng.randrange(1, 4)
        lo = rng.randrange(0, src - w + 1)
        return ("extract", lo + w - 1, lo, gen_bv(rng, vw, src, depth - 1))
    if r < 0.88 and w >= 2:
        k = rng.randrange(1, w)
        return ("concat", gen_bv(rng, vw, k, depth - 1), gen_bv(rng, vw, w - k, depth - 1))
    if r < 0.97:
        return ("if", gen_bool(rng, vw, depth - 1), gen_bv(rng, vw, w, depth - 1), gen_bv(rng, vw, w, depth - 1))
    return ("var", rng.choice(cands)) if cands else ("const", rng.randrange(1 << w), w)


def gen_bool(rng, vw, depth):
    r = rng.random()
    if depth <= 0 or r < 0.7:
        w = rng.choice(vw + [rng.choice(vw)])
        return ("cmp", rng.choice(CMP_OPS), gen_bv(rng, vw, w, depth - 1), gen_bv(rng, vw, w, depth - 1))
    if r < 0.8:
        return ("not", gen_bool(rng, vw, depth - 1))
    if r < 0.9:
        return ("and", gen_bool(rng, vw, depth - 1), gen_bool(rng, vw, depth - 1))
    return ("or", gen_bool(rng, vw, depth - 1), gen_bool(rng, vw, depth - 1))


def size(t):
    return 1 + sum(size(x) for x in t[1:] if isinstance(x, tuple))


# ------------------------------------------------------------------------------------------------ concrete evaluation
def ev(t, env, vw):
    """value of the tree under the assignment env (list of ints); None = division by zero somewhere (exempt)"""
    k = t[0]
    if k == "var":
        return env[t[1]]
    if k == "const":
        return t[1]
    if k == "bool":
        return t[1]
    if k == "bin":
        a, b = ev(t[2], env, vw), ev(t[3], env, vw)
        if a is None or b is None:
            return None
        return vsa.BIN[t[1]][1](a, b, width(t[2], vw))
    if k == "un":
        a = ev(t[2], env, vw)
        if a is None:
            return None
        w = width(t[2], vw)
        return (-a) & M(w) if t[1] == "neg" else a ^ M(w)
    if k == "zext":
        return ev(t[2], env, vw)
    if k == "sext":
        a = ev(t[2], env, vw)
        if a is None:
            return None
        w = width(t[2], vw)
        return sgn(a, w) & M(w + t[1])
    if k == "extract":
        a = ev(t[3], env, vw)
        if a is None:
            return None
        return (a >> t[2]) & M(t[1] - t[2] + 1)
    if k == "concat":
        a, b = ev(t[1], env, vw), ev(t[2], env, vw)
        if a is None or b is None:
            return None
        return (a << width(t[2], vw)) | b
    if k == "if":
        c = ev(t[1], env, vw)
        if c is None:
            return None
        return ev(t[2], env, vw) if c else ev(t[3], env, vw)
    if k == "cmp":
        a, b = ev(t[2], env, vw), ev(t[3], env, vw)
        if a is None or b is None:
            return None
        return bool(vsa.CMP[t[1]][1](a, b, width(t[2], vw)))
    if k == "not":
        c = ev(t[1], env, vw)
        return None if c is None else (not c)
    if k in ("and", "or"):
        c, d = ev(t[1], env, vw), ev(t[2], env, vw)
        if c is None or d is None:
            return None
        return (c and d) if k == "and" else (c or d)
    raise ValueError(k)


# ------------------------------------------------------------------------------------------------ claripy ASTs
def build(t, xs):
    import claripy
    k = t[0]
    if k == "var":
        return xs[t[1]]
    if k == "const":
        return claripy.BVV(t[1], t[2])
    if k == "bool":
        return claripy.BoolV(t[1])
    if k == "bin":
        a, b = build(t[2], xs), build(t[3], xs)
        op = t[1]
        return {"add": lambda: a + b, "sub": lambda: a - b, "mul": lambda: a * b, "and": lambda: a & b, "or": lambda: a | b,
                "xor": lambda: a ^ b, "udiv": lambda: a // b, "mod": lambda: a % b, "shl": lambda: a << b,
                "lshr": lambda: claripy.LShR(a, b), "ashr": lambda: a >> b}[op]()
    if k == "un":
        a = build(t[2], xs)
        return -a if t[1] == "neg" else ~a
    if k == "zext":
        return build(t[2], xs).zero_extend(t[1])
    if k == "sext":
        return build(t[2], xs).sign_extend(t[1])
    if k == "extract":
        return build(t[3], xs)[t[1]:t[2]]
    if k == "concat":
        return claripy.Concat(build(t[1], xs), build(t[2], xs))
    if k == "if":
        return claripy.If(build(t[1], xs), build(t[2], xs), build(t[3], xs))
    if k == "cmp":
        a, b = build(t[2], xs), build(t[3], xs)
        op = t[1]
        if op == "eq":
            return a == b
        if op == "ne":
            return a != b
        return getattr(claripy, op)(a, b)
    if k == "not":
        return claripy.Not(build(t[1], xs))
    if k == "and":
        return claripy.And(build(t[1], xs), build(t[2], xs))
    if k == "or":
        return claripy.Or(build(t[1], xs), build(t[2], xs))
    raise ValueError(k)


def mk_vars(annos, tag):
    """annotated variables; annos = list of interval tuples"""
    import claripy
    from claripy.annotation import StridedIntervalAnnotation
    return [claripy.BVS("v%d_%s" % (i, tag), t[0], explicit_name=True).annotate(StridedIntervalAnnotation(t[1], t[2], t[3]))
            for i, t in enumerate(annos)]


def abstract(e):
    """canonical abstract value of an AST through the real VSA backend"""
    import claripy
    from lib import vsa_sets
    try:
        return vsa_sets.canon_obj(claripy.backends.vsa.convert(e))
    except RecursionError:
        return ("err", "RecursionError")
    except Exception as ex:  # noqa
        return ("err", type(ex).__name__)


def contains(c, v):
    """does the canonical abstract value c contain the concrete value v (int or bool)?"""
    from lib import vsa_sets
    if isinstance(v, bool):
        return c[0] == "bool" and ("T" if v else "F") in c[1]
    return vsa_sets.res_member(c, v)


def subtrees(t):
    """post-order list of subtrees"""
    out = []
    for x in t[1:]:
        if isinstance(x, tuple) and x and isinstance(x[0], str) and x[0] in (
                "var", "const", "bin", "un", "zext", "sext", "extract", "concat", "if", "cmp", "not", "and", "or", "bool"):
            out += subtrees(x)
    out.append(t)
    return out


def show(t):
    k = t[0]
    if k == "var":
        return "v%d" % t[1]
    if k == "const":
        return "%d#%d" % (t[1], t[2])
    if k == "bool":
        return str(t[1])
    if k == "bin":
        return "(%s %s %s)" % (show(t[2]), t[1], show(t[3]))
    if k == "un":
        return "%s(%s)" % (t[1], show(t[2]))
    if k in ("zext", "sext"):
        return "%s(%d, %s)" % (k, t[1], show(t[2]))
    if k == "extract":
        return "%s[%d:%d]" % (show(t[3]), t[1], t[2])
    if k == "concat":
        return "(%s .. %s)" % (show(t[1]), show(t[2]))
    if k == "if":
        return "If(%s, %s, %s)" % (show(t[1]), show(t[2]), show(t[3]))
    if k == "cmp":
        return "(%s %s %s)" % (show(t[2]), t[1], show(t[3]))
    if k == "not":
        return "!%s" % show(t[1])
    return "(%s %s %s)" % (show(t[1]), k, show(t[2]))


# ------------------------------------------------------------------------------------------------ real AST -> driver syntax
_FOLD = {"__add__": "add", "__sub__": "sub", "__mul__": "mul", "__and__": "and", "__or__": "or", "__xor__": "xor",
         "__floordiv__": "udiv", "__mod__": "mod", "__lshift__": "shl", "__rshift__": "ashr", "LShR": "lshr"}
_CMP = {"ULT": "ULT", "ULE": "ULE", "UGT": "UGT", "UGE": "UGE", "SLT": "SLT", "SLE": "SLE", "SGT": "SGT", "SGE": "SGE",
        "__eq__": "eq", "__ne__": "ne", "__lt__": "ULT", "__le__": "ULE", "__gt__": "UGT", "__ge__": "UGE"}


class Unmodelled(Exception):
    pass


def serialize(ast, var_index):
    """prefix tokens of the AST the VSA backend evaluates (after excavate_ite) and the recorded set orders of its udiv
    nodes in evaluation order.  Raises Unmodelled for operators outside the model's vocabulary."""
    import claripy
    from lib import vsa_check
    orders = []

    def abs_tuple(node):
        r = claripy.backends.vsa.convert(node)
        t = vsa.tup(r)
        if not isinstance(t, (tuple, str)):
            raise Unmodelled("non-interval operand of udiv")
        return t

    def go(n):
        op = n.op
        if op == "BVS":
            if n.args[0] not in var_index:
                raise Unmodelled("unknown variable")
            from claripy.annotation import StridedIntervalAnnotation
            if not any(isinstance(a, StridedIntervalAnnotation) for a in n.annotations):
                return ["free", str(var_index[n.args[0]]), str(n.size())]     # the annotation was lost on the way (sound: TOP)
            return ["var", str(var_index[n.args[0]]), str(n.size())]
        if op == "BVV":
            return ["const", str(n.args[0]), str(n.args[1])]
        if op == "BoolV":
            return ["lit", "1" if n.args[0] else "0"]
        if op in _FOLD:
            toks = go(n.args[0])
            for i, a in enumerate(n.args[1:]):
                rhs = go(a)
                toks = ["bin", _FOLD[op]] + toks + rhs
                if op == "__floordiv__":
                    left = n.args[0] if i == 0 else None
                    if left is None:
                        raise Unmodelled("n-ary udiv")
                    orders.append(vsa_check.set_order("udiv", abs_tuple(left), abs_tuple(a)))
            return toks
        if op == "__neg__":
            return ["neg"] + go(n.args[0])
        if op == "__invert__":
            return ["not"] + go(n.args[0])
        if op == "ZeroExt":
            return ["zext", str(n.args[0])] + go(n.args[1])
        if op == "SignExt":
            return ["sext", str(n.args[0])] + go(n.args[1])
        if op == "Extract":
            return ["extract", str(n.args[0]), str(n.args[1])] + go(n.args[2])
        if op == "Concat":
            toks = go(n.args[0])
            for a in n.args[1:]:
                toks = ["concat"] + toks + go(a)
            return toks
        if op == "If":
            return ["ite"] + go(n.args[0]) + go(n.args[1]) + go(n.args[2])
        if op in _CMP:
            return ["cmp", _CMP[op]] + go(n.args[0]) + go(n.args[1])
        if op == "Not":
            return ["bnot"] + go(n.args[0])
        if op in ("And", "Or"):
            toks = go(n.args[0])
            for a in n.args[1:]:
                toks = ["band" if op == "And" else "bor"] + toks + go(a)
            return toks
        raise Unmodelled(op)

    if any(getattr(x, "annotations", ()) and x.op != "BVS" for x in ast.children_asts()) or (ast.annotations and ast.op != "BVS"):
        raise Unmodelled("annotation on an inner node")
    toks = go(ast)
    return toks, orders


# ------------------------------------------------------------------------------------------------ concrete evaluation of claripy ASTs
def ev_ast(n, env):
    """value of a claripy AST under env (dict variable name -> int); independent of claripy's backends.
    None = division by zero.  Raises Unmodelled for operators outside the vocabulary."""
    op = n.op
    if op == "BVS":
        return env[n.args[0]]
    if op == "BVV":
        return n.args[0]
    if op == "BoolV":
        return bool(n.args[0])
    a = [ev_ast(x, env) if hasattr(x, "op") else x for x in n.args]
    if any(x is None for x in a):
        return None
    if op in ("__add__", "__mul__", "__and__", "__or__", "__xor__"):
        w = n.size()
        r = a[0]
        for x in a[1:]:
            r = {"__add__": r + x, "__mul__": r * x, "__and__": r & x, "__or__": r | x, "__xor__": r ^ x}[op] & M(w)
        return r
    if op == "__sub__":
        w = n.size()
        r = a[0]
        for x in a[1:]:
            r = (r - x) & M(w)
        return r
    if op == "__floordiv__":
        return None if a[1] == 0 else a[0] // a[1]
    if op == "__mod__":
        return None if a[1] == 0 else a[0] % a[1]
    if op == "__lshift__":
        return vsa.c_shl(a[0], a[1], n.size())
    if op == "LShR":
        return vsa.c_lshr(a[0], a[1], n.size())
    if op == "__rshift__":
        return vsa.c_ashr(a[0], a[1], n.size())
    if op == "__neg__":
        return (-a[0]) & M(n.size())
    if op == "__invert__":
        return a[0] ^ M(n.size())
    if op == "ZeroExt":
        return a[1]
    if op == "SignExt":
        w = n.args[1].size()
        return sgn(a[1], w) & M(w + n.args[0])
    if op == "Extract":
        return (a[2] >> n.args[1]) & M(n.args[0] - n.args[1] + 1)
    if op == "Concat":
        r = 0
        for x, node in zip(a, n.args):
            r = (r << node.size()) | x
        return r
    if op == "If":
        return a[1] if a[0] else a[2]
    if op in _CMP:
        w = n.args[0].size() if hasattr(n.args[0], "size") and n.args[0].op not in _BOOL_OPS else None
        if w is None:       # Boolean (dis)equality
            return (a[0] == a[1]) if op == "__eq__" else (a[0] != a[1])
        return bool(vsa.CMP[_CMP[op]][1](a[0], a[1], w))
    if op == "Not":
        return not a[0]
    if op == "And":
        return all(a)
    if op == "Or":
        return any(a)
    if op == "Reverse":
        w = n.size()
        return int.from_bytes(a[0].to_bytes(w // 8, "big"), "little")
    raise Unmodelled(op)


_BOOL_OPS = {"BoolV", "BoolS", "And", "Or", "Not", "ULT", "ULE", "UGT", "UGE", "SLT", "SLE", "SGT", "SGE", "__eq__", "__ne__",
             "__lt__", "__le__", "__gt__", "__ge__"}


# ------------------------------------------------------------------------------------------------ directed shapes: the NAME dimension
# An abstract value carries the name of the variable it came from and `==`/`!=` answer by name first.  These shapes put two
# different derivations of the SAME variable on the two sides of a comparison (f(x) cmp x, f(x) cmp g(x), two joins
# If(c1, x, y) cmp If(c2, x, y) with different conditions - a single If is excavated above the comparison).
def derive(rng, vw, v, depth=1):
    """a term of the width of variable v built from one operation on v (depth 1) or on such a term (depth 2)"""
    w = vw[v]
    base = ("var", v) if depth <= 1 else derive(rng, vw, v, depth - 1)
    others = [i for i, x in enumerate(vw) if x == w and i != v]
    def second():
        r = rng.random()
        if others and r < 0.35:
            return ("var", rng.choice(others))
        if r < 0.45:
            return ("var", v)
        return ("const", rng.choice([0, 1, 1, 2, w - 1, M(w), 1 << (w - 1), rng.randrange(1 << w)]) & M(w), w)
    k = rng.random()
    if k < 0.50:
        op = rng.choice(BIN_OPS)
        s = second()
        return ("bin", op, base, s) if rng.random() < 0.7 else ("bin", op, s, base)
    if k < 0.58:
        return ("un", rng.choice(UN_OPS), base)
    if k < 0.72 and w >= 2:
        j = rng.randrange(1, w)
        lo = rng.choice([0, j])
        return (rng.choice(["zext", "sext"]), j, ("extract", lo + w - j - 1, lo, base))
    if k < 0.80:
        j = rng.randrange(1, 3)
        lo = rng.randrange(0, j + 1)
        return ("extract", lo + w - 1, lo, (rng.choice(["zext", "sext"]), j, base))
    if k < 0.86 and w >= 2:
        j = rng.randrange(1, w)
        hi_, lo_ = ("extract", w - 1, j, base), ("extract", j - 1, 0, base)
        return ("concat", hi_, lo_) if rng.random() < 0.5 else ("concat", lo_, hi_)
    # a join: If over a condition that does not decide it
    c = ("cmp", rng.choice(CMP_OPS), ("var", rng.choice(others + [v])), ("const", rng.randrange(1 << w), w))
    s = second()
    return ("if", c, base, s) if rng.random() < 0.5 else ("if", c, s, base)


def gen_named(rng, vw, nested=None):
    """a Boolean tree (or a bit-vector tree around one) comparing two derivations of the same variable"""
    v = rng.randrange(len(vw))
    w = vw[v]
    k = rng.random()
    if k < 0.35:
        L, R = derive(rng, vw, v, rng.choice([1, 1, 2])), ("var", v)
    elif k < 0.55:
        L, R = derive(rng, vw, v, rng.choice([1, 1, 2])), derive(rng, vw, v, 1)
    elif k < 0.85 and len(vw) >= 2:
        # two joins of the same two variables under different conditions
        others = [i for i, x in enumerate(vw) if x == w and i != v]
        u = ("var", rng.choice(others)) if others else ("const", rng.randrange(1 << w), w)
        def cond():
            a = rng.choice([("var", v), u if u[0] == "var" else ("var", v)])
            return ("cmp", rng.choice(CMP_OPS), a, ("const", rng.randrange(1 << w), w))
        L = ("if", cond(), ("var", v), u)
        R = ("if", cond(), ("var", v), u) if rng.random() < 0.7 else ("if", cond(), u, ("var", v))
        if rng.random() < 0.2:
            R = ("var", v) if rng.random() < 0.5 else u
    else:
        e = rng.randrange(1, 3)
        d = derive(rng, vw, v, 1)
        L, R = rng.choice([
            ((rng.choice(["zext", "sext"]), e, d), (rng.choice(["zext", "sext"]), e, ("var", v))),
            (("concat", d, ("var", v)), ("concat", ("var", v), ("var", v))),
            (("extract", w - 1, w - 1, d), ("extract", w - 1, w - 1, ("var", v))),
        ])
    if rng.random() < 0.3:
        L, R = R, L
    op = rng.choice(CMP_OPS + ["eq", "ne", "eq", "ne"])
    t = ("cmp", op, L, R)
    r = rng.random()
    if r < 0.75:
        return t
    if r < 0.83:
        return ("not", t)
    if r < 0.91:
        return (rng.choice(["and", "or"]), t, gen_bool(rng, vw, 1))
    return ("if", t, derive(rng, vw, v, 1), ("var", v))
