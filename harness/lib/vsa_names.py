"""The NAME / identity dimension of strided intervals (C21, interval level).

A StridedInterval carries a name; `eq` answers True for two operands of equal name ("they are the same guy"), so an
operation whose result keeps the name of its operand although the value changes makes `f(x) == x` (True,) whatever the
values.  Each operation checked alone on fresh operands is sound; the defect needs a SEQUENCE: derive y = f(x, b) from a
named interval x, then compare y with x (or with another derivation of x).

Terms (tuples, same alphabet as lib/vsa_expr plus `union`):
  ("var", i) ("const", v, w) ("bin", op, a, b) ("un", op, a) ("zext", k, a) ("sext", k, a) ("extract", hi, lo, a)
  ("concat", a, b) ("union", a, b)
evaluated (1) on the real StridedInterval objects, method by method (no AST, no backend), the variables being ONE object
each, and (2) concretely on every joint assignment of the variables (`union` = either operand).  The property: the
BoolResult of `cmp(L, R)` contains the truth value of `cmp(L(env), R(env))` for every assignment env — the weakest
reading (operands correlated through the shared variable); drawing the operands independently only adds truth values.
"""
import itertools

from lib import vsa
from lib.vsa import M, sgn


# ---------------------------------------------------------------------------------------------- terms
def twidth(t, vw):
    k = t[0]
    if k == "var":
        return vw[t[1]]
    if k == "const":
        return t[2]
    if k in ("bin", "un"):
        return twidth(t[2], vw)
    if k in ("zext", "sext"):
        return t[1] + twidth(t[2], vw)
    if k == "extract":
        return t[1] - t[2] + 1
    if k == "concat":
        return twidth(t[1], vw) + twidth(t[2], vw)
    if k == "union":
        return twidth(t[1], vw)
    raise ValueError(k)


def show(t):
    k = t[0]
    if k == "var":
        return "xyz"[t[1]]
    if k == "const":
        return "%d#%d" % (t[1], t[2])
    if k == "bin":
        return "%s(%s, %s)" % (t[1], show(t[2]), show(t[3]))
    if k == "un":
        return "%s(%s)" % (t[1], show(t[2]))
    if k in ("zext", "sext"):
        return "%s(%d, %s)" % (k, t[1], show(t[2]))
    if k == "extract":
        return "%s[%d:%d]" % (show(t[3]), t[1], t[2])
    if k == "concat":
        return "concat(%s, %s)" % (show(t[1]), show(t[2]))
    if k == "union":
        return "union(%s, %s)" % (show(t[1]), show(t[2]))
    raise ValueError(k)


def skeleton(t):
    """operator shape of a term: variables by letter, constants as `c` (the predicate part of a signature)"""
    k = t[0]
    if k == "var":
        return "xyz"[t[1]]
    if k == "const":
        return "c"
    if k == "bin":
        return "%s(%s,%s)" % (t[1], skeleton(t[2]), skeleton(t[3]))
    if k == "un":
        return "%s(%s)" % (t[1], skeleton(t[2]))
    if k in ("zext", "sext"):
        return "%s(%s)" % (k, skeleton(t[2]))
    if k == "extract":
        return "extract(%s)" % skeleton(t[3])
    return "%s(%s,%s)" % (k, skeleton(t[1]), skeleton(t[2]))


def si_eval(t, objs, memo):
    """the term on the real objects (objs[i] is THE object of variable i); exceptions propagate"""
    if t in memo:
        return memo[t]
    k = t[0]
    if k == "var":
        r = objs[t[1]]
    elif k == "const":
        r = vsa.mk((t[2], 0, t[1], t[1]))
    elif k == "bin":
        r = vsa.BIN[t[1]][0](si_eval(t[2], objs, memo), si_eval(t[3], objs, memo))
    elif k == "un":
        r = vsa.UN[t[1]][0](si_eval(t[2], objs, memo))
    elif k == "zext":
        a = si_eval(t[2], objs, memo)
        r = a.zero_extend(a.bits + t[1])
    elif k == "sext":
        a = si_eval(t[2], objs, memo)
        r = a.sign_extend(a.bits + t[1])
    elif k == "extract":
        r = si_eval(t[3], objs, memo).extract(t[1], t[2])
    elif k == "concat":
        r = si_eval(t[1], objs, memo).concat(si_eval(t[2], objs, memo))
    elif k == "union":
        r = si_eval(t[1], objs, memo).union(si_eval(t[2], objs, memo))
    else:
        raise ValueError(k)
    memo[t] = r
    return r


def ev(t, env, vw, ch):
    """the value of the term under the assignment env; `ch` maps every `union` term to the operand it takes (0 | 1) -
    equal terms are ONE object on the real side (memo of si_eval), hence one choice.  None = exempt (division by zero)"""
    k = t[0]
    if k == "var":
        return env[t[1]]
    if k == "const":
        return t[1]
    if k == "union":
        return ev(t[1 + ch[t]], env, vw, ch)
    if k == "bin":
        p, q = ev(t[2], env, vw, ch), ev(t[3], env, vw, ch)
        if p is None or q is None:
            return None
        return vsa.BIN[t[1]][1](p, q, twidth(t[2], vw))
    if k == "concat":
        p, q = ev(t[1], env, vw, ch), ev(t[2], env, vw, ch)
        if p is None or q is None:
            return None
        return (p << twidth(t[2], vw)) | q
    p = ev(t[3] if k == "extract" else t[2], env, vw, ch)
    if p is None:
        return None
    if k == "un":
        return vsa.UN[t[1]][1](p, twidth(t[2], vw))
    if k == "zext":
        return p
    if k == "sext":
        w = twidth(t[2], vw)
        return sgn(p, w) & M(w + t[1])
    if k == "extract":
        return (p >> t[2]) & M(t[1] - t[2] + 1)
    raise ValueError(k)


def unions(t, acc):
    if t[0] == "union" and t not in acc:
        acc.append(t)
    for c in t[1:]:
        if isinstance(c, tuple):
            unions(c, acc)
    return acc


# ---------------------------------------------------------------------------------------------- derivations of x
X = ("var", 0)
Y = ("var", 1)


def derivations(w, second, rng=None, consts=()):
    """every one-step derivation of x at width w: each unary and binary operation (x op s, s op x, x op x; s = the second
    variable and a few constants), the join, and the width round trips (extension of an extraction, extraction of an
    extension / concatenation, re-concatenation of the halves)."""
    out = [("un", op, X) for op in vsa.UN]
    seconds = ([Y] if second else []) + [("const", c & M(w), w) for c in consts]
    for op in vsa.BIN:
        out.append(("bin", op, X, X))
        for s in seconds:
            out.append(("bin", op, X, s))
            out.append(("bin", op, s, X))
    for s in seconds:
        out.append(("union", X, s))
        out.append(("union", s, X))
    for k in range(1, w):
        out.append(("zext", k, ("extract", w - 1, k, X)))            # x >> k
        out.append(("zext", k, ("extract", w - 1 - k, 0, X)))        # x & mask
        out.append(("sext", k, ("extract", w - 1 - k, 0, X)))
        out.append(("sext", k, ("extract", w - 1, k, X)))            # x >>s k
        out.append(("concat", ("extract", w - 1, k, X), ("extract", k - 1, 0, X)))      # = x
        out.append(("concat", ("extract", k - 1, 0, X), ("extract", w - 1, k, X)))      # rotation
    for k in (1, 2):
        for j in range(0, k + 1):
            out.append(("extract", w - 1 + j, j, ("zext", k, X)))
            out.append(("extract", w - 1 + j, j, ("sext", k, X)))
    if second:
        for j in (0, 1, w):
            out.append(("extract", w - 1 + j, j, ("concat", X, Y)))
            out.append(("extract", w - 1 + j, j, ("concat", Y, X)))
    return out


def subst(t, by):
    """replace the variable x by the term `by`"""
    if t == X:
        return by
    return tuple(subst(c, by) if isinstance(c, tuple) else c for c in t)


# ---------------------------------------------------------------------------------------------- the check of one (L, R) pair
def members(t, rng, limit):
    g, _ = vsa.members_for(t, rng, limit)
    return g


def truth_pairs(L, R, annos, rng, limit):
    """(value of L, value of R) for every joint assignment of the variables (sampled for wide intervals) and every
    choice of the joins"""
    vw = [a[0] for a in annos]
    doms = [members(a, rng, limit) for a in annos]
    us = unions(R, unions(L, []))
    pairs = set()
    vl_all, vr_all = set(), set()
    for bits in itertools.product((0, 1), repeat=len(us)):
        ch = dict(zip(us, bits))
        for env in itertools.product(*doms):
            p, q = ev(L, env, vw, ch), ev(R, env, vw, ch)
            if p is not None:
                vl_all.add(p)
            if q is not None:
                vr_all.add(q)
            if p is not None and q is not None:
                pairs.add((p, q))
    return pairs, vl_all, vr_all


def check_pair(L, R, annos, rng, cmps=None, limit=24):
    """-> (status, list of failures).  status: 'ok' | 'skip:<why>'.  A failure is
    (cmp, order, kind, detail, name_dependent, observed)."""
    vw = [a[0] for a in annos]
    objs = [vsa.mk(a, name="n%d" % i) for i, a in enumerate(annos)]
    memo = {}
    try:
        ol, orr = si_eval(L, objs, memo), si_eval(R, objs, memo)
    except RecursionError:
        return "skip:derivation-raises", []
    except Exception:  # noqa  (the operation raises on these operands with fresh names too: the plain stream reports it)
        return "skip:derivation-raises", []
    tl, tr = vsa.tup(ol), vsa.tup(orr)
    pairs, vl, vr = truth_pairs(L, R, annos, rng, limit)
    if not pairs:
        return "skip:no-defined-value", []
    # a derivation that is itself unsound (or malformed) is the plain stream's finding, not a matter of names
    for t, vals in ((tl, vl), (tr, vr)):
        if not isinstance(t, (tuple, str)) or not vsa.wf(t) or any(not vsa.member(t, v) for v in vals):
            return "skip:derivation-unsound", []
    w = twidth(L, vw)
    fails = []
    for cmp in (cmps or vsa.CMP):
        real, conc = vsa.CMP[cmp]
        for order, (oa, ob) in (("LR", (ol, orr)), ("RL", (orr, ol))):
            r = vsa.call(real, oa, ob)
            if order == "LR":
                need = {"T" if conc(p, q, w) else "F" for p, q in pairs}
            else:
                need = {"T" if conc(q, p, w) else "F" for p, q in pairs}
            if isinstance(r, str) and r.startswith("bool:") and need <= set(r[5:]):
                continue
            if isinstance(r, str) and r.startswith("err:"):
                kind, detail = r, "comparison raises " + r
            elif not (isinstance(r, str) and r.startswith("bool:")):
                kind, detail = "malformed", "not a BoolResult: %r" % (r,)
            else:
                miss = sorted(need - set(r[5:]))[0]
                wit = next((p, q) for p, q in sorted(pairs) if ("T" if (conc(p, q, w) if order == "LR" else conc(q, p, w)) else "F") == miss)
                kind, detail = "unsound", "left=%d right=%d gives %s, result is {%s}" % (wit[0], wit[1], miss, r[5:])
            # the same comparison on fresh (nameless) copies of the two operands: still failing = not a matter of names
            r2 = vsa.call(real, oa.nameless_copy(), ob.nameless_copy()) if hasattr(oa, "nameless_copy") else r
            name_dep = (r2 != r) and isinstance(r2, str) and r2.startswith("bool:") and need <= set(r2[5:])
            fails.append((cmp, order, kind, detail, name_dep, r))
    return "ok", fails


def outer(t):
    return {"var": "operand-itself", "const": "constant"}.get(t[0], t[1] if t[0] in ("bin", "un") else t[0])


def signature2(cmp, order, kind, L, R, name_dep, tl, tr):
    """finding signature of a failing comparison of two derivations.  Not name dependent (fresh copies of the two
    intervals compare wrongly as well): exactly the signature the plain stream gives to this comparison.  Name dependent:
    property / comparison / kind / the operations whose results share a name although their values differ."""
    if not name_dep:
        args = [tl, tr] if order == "LR" else [tr, tl]
        if all(isinstance(t, tuple) for t in args):
            return vsa.classify(cmp, kind, args)
        return "C21/%s/%s/bottom-operand" % (cmp, kind)
    return "C21/%s/%s/same-name-different-value:%s" % (cmp, kind, "+".join(sorted({outer(L), outer(R)})))


# ---------------------------------------------------------------------------------------------- the stream
def gen_pairs(ctx):
    """-> list of (L, R, annos, stream)"""
    rng = ctx.rng
    out = []

    def one_step(x, b, w, stream, consts):
        for d in derivations(w, True, consts=consts):
            out.append((d, X, [x, b], stream))

    # (1) every interval (pair) at width 1, every interval with sampled partners at width 2, samples at 3 and 4
    for w, nx, nb in ((1, None, None), (2, None, ctx.pick(2, 8)), (3, ctx.pick(40, 400), 2), (4, ctx.pick(25, 300), 2)):
        pool = vsa.all_sis(w)
        xs = pool if nx is None else [rng.choice(pool) for _ in range(nx)]
        for x in xs:
            bs = pool if nb is None else [rng.choice(pool) for _ in range(nb)]
            for b in bs:
                one_step(x, b, w, "name-exh" if w <= 2 else "name-small", (0, 1, M(w), rng.randrange(1 << w)))
    # (2) wide intervals: small shift amounts / masks as constants
    for _ in range(ctx.pick(40, 500)):
        w = rng.choice(vsa.WIDE_WIDTHS)
        x, b = vsa.rand_si(rng, w), vsa.rand_si(rng, w)
        if rng.random() < 0.5:      # a non-wrapping operand with few members (every assignment enumerated)
            lb = rng.randrange(1 << w); s = rng.choice([1, 2, 4, 8, 16]); n = rng.randrange(1, 9)
            if lb + n * s <= M(w):
                x = vsa.norm(w, s, lb, lb + n * s)
        one_step(x, b, w, "name-wide", (0, 1, rng.randrange(1, w), M(w), 1 << (w - 1), rng.randrange(1 << w)))
    # (3) two derivations of the same interval against each other; two-step derivations; width-changing contexts
    for _ in range(ctx.pick(500, 6000)):
        w = rng.choice([2, 2, 3, 3, 4, 5, 8])
        pool = vsa.all_sis(w) if w <= 4 else None
        x = rng.choice(pool) if pool else vsa.rand_si(rng, w)
        b = rng.choice(pool) if pool else vsa.rand_si(rng, w)
        D = derivations(w, True, consts=(0, 1, M(w), rng.randrange(1 << w)))
        d1, d2 = rng.choice(D), rng.choice(D)
        k = rng.randrange(6)
        if k == 0:
            L, R = d1, d2
        elif k == 1:
            L, R = subst(d1, d2), X
        elif k == 2:
            L, R = subst(d1, d2), d2
        elif k == 3:
            e = rng.randrange(1, 4)
            L, R = (rng.choice(["zext", "sext"]), e, d1), (rng.choice(["zext", "sext"]), e, rng.choice([X, d2]))
        elif k == 4 and w >= 2:
            lo = rng.randrange(w); hi = rng.randrange(lo, w)
            L, R = ("extract", hi, lo, d1), ("extract", hi, lo, rng.choice([X, d2]))
        else:
            L, R = (("concat", d1, Y), ("concat", X, Y)) if rng.random() < 0.5 else (("concat", Y, d1), ("concat", Y, rng.choice([X, d2])))
        out.append((L, R, [x, b], "name-two-step"))
    return out


def run_stream(ctx, prop="C21"):
    """the name stream of C21: oracle only (the Lean model of the interval operations has no names; the name-based `eq`
    of the backend is modelled and tied in C24)."""
    import collections
    pairs = gen_pairs(ctx)
    fails = collections.defaultdict(list)
    stats = collections.Counter()
    streams = collections.Counter()
    for L, R, annos, stream in pairs:
        st, fl = check_pair(L, R, annos, ctx.rng)
        stats[st] += 1
        streams[stream] += 1
        ctx.count()
        ctx.distinct(("name", L, R, tuple(annos)))
        if not fl:
            continue
        objs = [vsa.mk(a, name="n%d" % i) for i, a in enumerate(annos)]
        memo = {}
        tl, tr = vsa.tup(si_eval(L, objs, memo)), vsa.tup(si_eval(R, objs, memo))
        for cmp, order, kind, detail, name_dep, r in fl:
            sig = signature2(cmp, order, kind, L, R, name_dep, tl, tr)
            fails[sig].append((L, R, annos, cmp, order, kind, detail, r, tl, tr))
    for sig, lst in sorted(fails.items()):
        L, R, annos, cmp, order, kind, detail, r, tl, tr = min(
            lst, key=lambda c: (sum(a[0] * 1000 + min(vsa.card(a), 999) for a in c[2]), len(show(c[0])) + len(show(c[1])), str(c[2])))
        a, b = (L, R) if order == "LR" else (R, L)
        what = "%s(%s, %s) = %s with x = %s, y = %s (left interval %s, right interval %s): %s  [%d case(s) of this class in this run]" % (
            cmp, show(a), show(b), r, vsa.show(annos[0]), vsa.show(annos[1]),
            vsa.show(tl if order == "LR" else tr), vsa.show(tr if order == "LR" else tl), detail, len(lst))
        ctx.violation(sig, what, {"name_case": True, "L": L, "R": R, "annos": [list(t) for t in annos], "cmp": cmp, "order": order,
                                  "observed": r, "kind": kind, "detail": detail})
    ctx.cov["name_stream"] = {"pairs": len(pairs), "comparisons": len(pairs) * 2 * len(vsa.CMP), "status": dict(stats), "streams": dict(streams),
                              "rule": "y = f(x, b) for every unary/binary operation, the join and the width round trips, then all ten comparisons of y "
                                      "with x (both orders), of two derivations of x, under extensions/extractions/concatenations; x is ONE named object"}
    fc = ctx.cov.setdefault("failing_classes_seen", {})
    for k, v in fails.items():
        fc[k] = fc.get(k, 0) + len(v)
    return fails


def _tuplify(x):
    return tuple(_tuplify(y) for y in x) if isinstance(x, list) else x


def replay_name_case(ctx, prop, obj):
    import random
    r = obj["replay"]
    L, R = _tuplify(r["L"]), _tuplify(r["R"])
    annos = [tuple(t) for t in r["annos"]]
    print("case: %s(%s | %s) with x = %s, y = %s" % (r["cmp"], show(L), show(R), vsa.show(annos[0]), vsa.show(annos[1])))
    st, fl = check_pair(L, R, annos, random.Random(0), cmps=[r["cmp"]], limit=256)
    objs = [vsa.mk(a, name="n%d" % i) for i, a in enumerate(annos)]
    bad = 0
    for cmp, order, kind, detail, name_dep, res in fl:
        memo = {}
        tl, tr = vsa.tup(si_eval(L, objs, memo)), vsa.tup(si_eval(R, objs, memo))
        print("VIOLATION property=%s replay=(given)" % prop)
        print("failure:", kind, "-", "order", order, detail, " signature:", signature2(cmp, order, kind, L, R, name_dep, tl, tr))
        bad = 1
    if not bad:
        print("no failure on the current tree (%s)" % st)
    return bad
