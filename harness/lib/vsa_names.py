"""The NAME / identity dimension of strided intervals (C21, interval level).

A StridedInterval carries a name; `eq` answers True for two operands of equal name ("they are the same guy"), so an
operation whose result keeps the name of its operand although the value changes makes `f(x) == x` (True,) whatever the
values.  Each operation checked alone on fresh operands is sound; the defect needs a SEQUENCE: derive y = f(x, b) from a
named interval x, then compare y with x (or with another derivation of x).

Terms (tuples, same alphabet as lib/vsa_expr plus `union`):
  ("var", i) ("const", v, w) ("bin", op, a, b) ("un", op, a) ("zext", k, a) ("sext", k, a) ("extract", hi, lo, a)
  ("concat", a, b) ("union", a, b)
evaluated (1) on the real StridedInterval objects, method by method (no AST, no backend), the variables being ONE object
each, and (2) concretely on every joint assignment of the variables (`union` = either operand).  The property: the
BoolResult of `cmp(L, R)` contains the truth value of `cmp(L(env), R(env))` for every assignment env — the weakest
reading (operands correlated through the shared variable); drawing the operands independently only adds truth values.
"""
import itertools

from lib import vsa
from lib.vsa import M, sgn


# ---------------------------------------------------------------------------------------------- terms
def twidth(t, vw):
    k = t[0]
    if k == "var":
        return vw[t[1]]
    if k == "const":
        return t[2]
    if k in ("bin", "un"):
        return twidth(t[2], vw)
    if k in ("zext", "sext"):
        return t[1] + twidth(t[2], vw)
    if k == "extract":
        return t[1] - t[2] + 1
    if k == "concat":
        return twidth(t[1], vw) + twidth(t[2], vw)
    if k == "union":
        return twidth(t[1], vw)
    raise ValueError(k)


def show(t):
    k = t[0]
    if k == "var":
        return "xyz"[t[1]]
    if k == "const":
        return "%d#%d" % (t[1], t[2])
    if k == "bin":
        return "%s(%s, %s)" % (t[1], show(t[2]), show(t[3]))
    if k == "un":
        return "%s(%s)" % (t[1], show(t[2]))
    if k in ("zext", "sext"):
        return "%s(%d, %s)" % (k, t[1], show(t[2]))
    if k == "extract":
        return "%s[%d:%d]" % (show(t[3]), t[1], t[2])
    if k == "concat":
        return "concat(%s, %s)" % (show(t[1]), show(t[2]))
    if k == "union":
        return "union(%s, %s)" % (show(t[1]), show(t[2]))
    raise ValueError(k)


def skeleton(t):
    """operator shape of a term: variables by letter, constants as `c` (the predicate part of a signature)"""
    k = t[0]
    if k == "var":
        return "xyz"[t[1]]
    if k == "const":
        return "c"
    if k == "bin":
        return "%s(%s,%s)" % (t[1], skeleton(t[2]), skeleton(t[3]))
    if k == "un":
        return "%s(%s)" % (t[1], skeleton(t[2]))
    if k in ("zext", "sext"):
        return "%s(%s)" % (k, skeleton(t[2]))
    if k == "extract":
        return "extract(%s)" % skeleton(t[3])
    return "%s(%s,%s)" % (k, skeleton(t[1]), skeleton(t[2]))


def si_eval(t, objs, memo):
    """the term on the real objects (objs[i] is THE object of variable i); exceptions propagate"""
    if t in memo:
        return memo[t]
    k = t[0]
    if k == "var":
        r = objs[t[1]]
    elif k == "const":
        r = vsa.mk((t[2], 0, t[1], t[1]))
    elif k == "bin":
        r = vsa.BIN[t[1]][0](si_eval(t[2], objs, memo), si_eval(t[3], objs, memo))
    elif k == "un":
        r = vsa.UN[t[1]][0](si_eval(t[2], objs, memo))
    elif k == "zext":
        a = si_eval(t[2], objs, memo)
        r = a.zero_extend(a.bits + t[1])
    elif k == "sext":
        a = si_eval(t[2], objs, memo)
        r = a.sign_extend(a.bits + t[1])
    elif k == "extract":
        r = si_eval(t[3], objs, memo).extract(t[1], t[2])
    elif k == "concat":
        r = si_eval(t[1], objs, memo).concat(si_eval(t[2], objs, memo))
    elif k == "union":
        r = si_eval(t[1], objs, memo).union(si_eval(t[2], objs, memo))
    else:
        raise ValueError(k)
    memo[t] = r
    return r


def ev(t, env, vw, ch):
    """the value of the term under the assignment env; `ch` maps every `union` term to the operand it takes (0 | 1) -
    equal terms are ONE object on the real side (memo of si_eval), hence one choice.  None = exempt (division by zero)"""
    k = t[0]
    if k == "var":
        return env[t[1]]
    if k == "const":
        return t[1]
    if k == "union":
        return ev(t[1 + ch[t]], env, vw, ch)
    if k == "bin":
        p, q = ev(t[2], env, vw, ch), ev(t[3], env, vw, ch)
        if p is None or q is None:
            return None
        return vsa.BIN[t[1]][1](p, q, twidth(t[2], vw))
    if k == "concat":
        p, q = ev(t[1], env, vw, ch), ev(t[2], env, vw, ch)
        if p is None or q is None:
            return None
        return (p << twidth(t[2], vw)) | q
    p = ev(t[3] if k == "extract" else t[2], env, vw, ch)
    if p is None:
        return None
    if k == "un":
        return vsa.UN[t[1]][1](p, twidth(t[2], vw))
    if k == "zext":
        return p
    if k == "sext":
        w = twidth(t[2], vw)
        return sgn(p, w) & M(w + t[1])
    if k == "extract":
        return (p >> t[2]) & M(t[1] - t[2] + 1)
    raise ValueError(k)


def unions(t, acc):
    if t[0] == "union" and t not in acc:
        acc.append(t)
    for c in t[1:]:
        if isinstance(c, tuple):
            unions(c, acc)
    return acc


# ---------------------------------------------------------------------------------------------- derivations of x
X = ("var", 0)
Y = ("var", 1)


def derivations(w, second, rng=None, consts=()):
    """every one-step derivation of x at width w: each unary and binary operation (x op s, s op x, x op x; s = the second
    variable and a few constants), the join, and the width round trips (extension of an extraction, extraction of an
    extension / concatenation, re-concatenation of the halves)."""
    out = [("un", op, X) for op in vsa.UN]
    seconds = ([Y] if second else []) + [("const", c & M(w), w) for c in consts]
    for op in vsa.BIN:
        out.append(("bin", op, X, X))
        for s in seconds:
            out.append(("bin", op, X, s))
            out.append(("bin", op, s, X))
    for s in seconds:
        out.append(("union", X, s))
        out.append(("union", s, X))
    for k in range(1, w):
        out.append(("zext", k, ("extract", w - 1, k, X)))            # x >> k
        out.append(("zext", k, ("extract", w - 1 - k, 0, X)))        # x & mask
        out.append(("sext", k, ("extract", w - 1 - k, 0, X)))
        out.append(("sext", k, ("extract", w - 1, k, X)))            # x >>s k
        out.append(("concat", ("extract", w - 1, k, X), ("extract", k - 1, 0, X)))      # = x
        out.append(("concat", ("extract", k - 1, 0, X), ("extract", w - 1, k, X)))      # rotation
    for k in (1, 2):
        for j in range(0, k + 1):
            out.append(("extract", w - 1 + j, j, ("zext", k, X)))
            out.append(("extract", w - 1 + j, j, ("sext", k, X)))
    if second:
        for j in (0, 1, w):
            out.append(("extract", w - 1 + j, j, ("concat", X, Y)))
            out.append(("extract", w - 1 + j, j, ("concat", Y, X)))
    return out


def subst(t, by):
    """replace the variable x by the term `by`"""
    if t == X:
        return by
    return tuple(subst(c, by) if isinstance(c, tuple) else c for c in t)


# ---------------------------------------------------------------------------------------------- the check of one (L, R) pair
def members(t, rng, limit):
    g, _ = vsa.members_for(t, rng, limit)
    return g


def truth_pairs(L, R, annos, rng, limit):
    """(value of L, value of R) for every joint assignment of the variables (sampled for wide intervals) and every
    choice of the joins"""
    vw = [a[0] for a in annos]
    doms = [members(a, rng, limit) for a in annos]
    us = unions(R, unions(L, []))
    pairs = set()
    vl_all, vr_all = set(), set()
    for bits in itertools.product((0, 1), repeat=len(us)):
        ch = dict(zip(us, bits))
        for env in itertools.product(*doms):
            p, q = ev(L, env, vw, ch), ev(R, env, vw, ch)
            if p is not None:
                vl_all.add(p)
            if q is not None:
                vr_all.add(q)
            if p is not None and q is not None:
                pairs.add((p, q))
    return pairs, vl_all, vr_all


def check_pair(L, R, annos, rng, cmps=None, limit=24):
    """-> (status, list of failures).  status: 'ok' | 'skip:<why>'.  A failure is
    (cmp, order, kind, detail, name_dependent, observed)."""
    vw = [a[0] for a in annos]
    objs = [vsa.mk(a, name="n%d" % i) for i, a in enumerate(annos)]
    memo = {}
    try:
        ol, orr = si_eval(L, objs, memo), si_eval(R, objs, memo)
    except RecursionError:
        return "skip:derivation-raises", []
    except Exception:  # noqa  (the operation raises on these operands with fresh names too: the plain stream reports it)
        return "skip:derivation-raises", []
    tl, tr = vsa.tup(ol), vsa.tup(orr)
    pairs, vl, vr = truth_pairs(L, R, annos, rng, limit)
    if not pairs:
        return "skip:no-defined-value", []
    # a derivation that is itself unsound (or malformed) is the plain stream's finding, not a matter of names
    for t, vals in ((tl, vl), (tr, vr)):
        if not isinstance(t, (tuple, str)) or not vsa.wf(t) or any(not vsa.member(t, v) for v in vals):
            return "skip:derivation-unsound", []
    w = twidth(L, vw)
    fails = []
    for cmp in (cmps or vsa.CMP):
        real, conc = vsa.CMP[cmp]
        for order, (oa, ob) in (("LR", (ol, orr)), ("RL", (orr, ol))):
            r = vsa.call(real, oa, ob)
            if order == "LR":
                need = {"T" if conc(p, q, w) else "F" for p, q in pairs}
            else:
                need = {"T" if conc(q, p, w) else "F" for p, q in pairs}
            if isinstance(r, str) and r.startswith("bool:") and need <= set(r[5:]):
                continue
            if isinstance(r, str) and r.startswith("err:"):
                kind, detail = r, "comparison raises " + r
            elif not (isinstance(r, str) and r.startswith("bool:")):
                kind, detail = "malformed", "not a BoolResult: %r" % (r,)
            else:
                miss = sorted(need - set(r[5:]))[0]
                wit = next((p, q) for p, q in sorted(pairs) if ("T" if (conc(p, q, w) if order == "LR" else conc(q, p, w)) else "F") == miss)
                kind, detail = "unsound", "left=%d right=%d gives %s, result is {%s}" % (wit[0], wit[1], miss, r[5:])
            # the same comparison on fresh (nameless) copies of the two operands: still failing = not a matter of names
            r2 = vsa.call(real, oa.nameless_copy(), ob.nameless_copy()) if hasattr(oa, "nameless_copy") else r
            name_dep = (r2 != r) and isinstance(r2, str) and r2.startswith("bool:") and need <= set(r2[5:])
            fails.append((cmp, order, kind, detail, name_dep, r))
    return "ok", fails


def outer(t):
    return {"var": "operand-itself", "const": "constant"}.get(t[0], t[1] if t[0] in ("bin", "un") else t[0])


def signature2(cmp, order, kind, L, R, name_dep, tl, tr):
    """finding signature of a failing comparison of two derivations.  Not name dependent (fresh copies of the two
    intervals compare wrongly as well): exactly the signature the plain stream gives to this comparison.  Name dependent:
    property / comparison / kind / the operations whose results share a name although their values differ."""
    if not name_dep:
        args = [tl, tr] if order == "LR" else [tr, tl]
        if all(isinstance(t, tuple) for t in args):
            return vsa.classify(cmp, kind, args)
        return "C21/%s/%s/bottom-operand" % (cmp, kind)
    return "C21/%s/%s/same-name-different-value:%s" % (cmp, kind, "+".join(sorted({outer(L), outer(R)})))


# ---------------------------------------------------------------------------------------------- the stream
def gen_pairs(ctx):
    """-> list of (L, R, annos, stream)"""
    rng = ctx.rng
    out = []

    def one_step(x, b, w, stream, consts):
        for d in derivations(w, True, consts=consts):
            out.append((d, X, [x, b], stream))

    # (1) every interval (pair) at width 1, every interval with sampled partners at width 2, samples at 3 and 4
    for w, nx, nb in ((1, None, None), (2, None, ctx.pick(2, 8)), (3, ctx.pick(40, 400), 2), (4, ctx.pick(25, 300), 2)):
        pool = vsa.all_sis(w)
        xs = pool if nx is None else [rng.choice(pool) for _ in range(nx)]
        for x in xs:
            bs = pool if nb is None else [rng.choice(pool) for _ in range(nb)]
            for b in bs:
                one_step(x, b, w, "name-exh" if w <= 2 else "name-small", (0, 1, M(w), rng.randrange(1 << w)))
    # (2) wide intervals: small shift amounts / masks as constants
    for _ in range(ctx.pick(40, 500)):
        w = rng.choice(vsa.WIDE_WIDTHS)
        x, b = vsa.rand_si(rng, w), vsa.rand_si(rng, w)
        if rng.random() < 0.5:      # a non-wrapping operand with few members (every assignment enumerated)
            lb = rng.randrange(1 << w); s = rng.choice([1, 2, 4, 8, 16]); n = rng.randrange(1, 9)
            if lb + n * s <= M(w):
                x = vsa.norm(w, s, lb, lb + n * s)
        one_step(x, b, w, "name-wide", (0, 1, rng.randrange(1, w), M(w), 1 << (w - 1), rng.randrange(1 << w)))
    # (3) two derivations of the same interval against each other; two-step derivations; width-changing contexts
    for _ in range(ctx.pick(500, 6000)):
        w = rng.choice([2, 2, 3, 3, 4, 5, 8])
        pool = vsa.all_sis(w) if w <= 4 else None
        x = rng.choice(pool) if pool else vsa.rand_si(rng, w)
        b = rng.choice(pool) if pool else vsa.rand_si(rng, w)
        D = derivations(w, True, consts=(0, 1, M(w), rng.randrange(1 << w)))
        d1, d2 = rng.choice(D), rng.choice(D)
        k = rng.randrange(6)
        if k == 0:
            L, R = d1, d2
        elif k == 1:
            L, R = subst(d1, d2), X
        elif k == 2:
            L, R = subst(d1, d2), d2
        elif k == 3:
            e = rng.randrange(1, 4)
            L, R = (rng.choice(["zext", "sext"]), e, d1), (rng.choice(["zext", "sext"]), e, rng.choice([X, d2]))
        elif k == 4 and w >= 2:
            lo = rng.randrange(w); hi = rng.randrange(lo, w)
            L, R = ("extract", hi, lo, d1), ("extract", hi, lo, rng.choice([X, d2]))
        else:
            L, R = (("concat", d1, Y), ("concat", X, Y)) if rng.random() < 0.5 else (("concat", Y, d1), ("concat", Y, rng.choice([X, d2])))
        out.append((L, R, [x, b], "name-two-step"))
    return out


def run_stream(ctx, prop="C21"):
    """the name stream of C21: oracle only (the Lean model of the interval operations has no names; the name-based `eq`
    of the backend is modelled and tied in C24)."""
    import collections
    pairs = gen_pairs(ctx)
    fails = collections.defaultdict(list)
    stats = collections.Counter()
    streams = collections.Counter()
    for L, R, annos, stream in pairs:
        st, fl = check_pair(L, R, annos, ctx.rng)
        stats[st] += 1
        streams[stream] += 1
        ctx.count()
        ctx.distinct(("name", L, R, tuple(annos)))
        if not fl:
            continue
        objs = [vsa.mk(a, name="n%d" % i) for i, a in enumerate(annos)]
        memo = {}
        tl, tr = vsa.tup(si_eval(L, objs, memo)), vsa.tup(si_eval(R, objs, memo))
        for cmp, order, kind, detail, name_dep, r in fl:
            sig = signature2(cmp, order, kind, L, R, name_dep, tl, tr)
            fails[sig].append((L, R, annos, cmp, order, kind, detail, r, tl, tr))
    for sig, lst in sorted(fails.items()):
        L, R, annos, cmp, order, kind, detail, r, tl, tr = min(
            lst, key=lambda c: (sum(a[0] * 1000 + min(vsa.card(a), 999) for a in c[2]), len(show(c[0])) + len(show(c[1])), str(c[2])))
        a, b = (L, R) if order == "LR" else (R, L)
        what = "%s(%s, %s) = %s with x = %s, y = %s (left interval %s, right interval %s): %s  [%d case(s) of this class in this run]" % (
            cmp, show(a), show(b), r, vsa.show(annos[0]), vsa.show(annos[1]),
            vsa.show(tl if order == "LR" else tr), vsa.show(tr if order == "LR" else tl), detail, len(lst))
        ctx.violation(sig, what, {"name_case": True, "L": L, "R": R, "annos": [list(t) for t in annos], "cmp": cmp, "order": order,
                                  "observed": r, "kind": kind, "detail": detail})
    ctx.cov["name_stream"] = {"pairs": len(pairs), "comparisons": len(pairs) * 2 * len(vsa.CMP), "status": dict(stats), "streams": dict(streams),
                              "rule": "y = f(x, b) for every unary/binary operation, the join and the width round trips, then all ten comparisons of y "
                                      "with x (both orders), of two derivations of x, under extensions/extractions/concatenations; x is ONE named object"}
    fc = ctx.cov.setdefault("failing_classes_seen", {})
    for k, v in fails.items():
        fc[k] = fc.get(k, 0) + len(v)
    return fails


def _tuplify(x):
    return tuple(_tuplify(y) for y in x) if isinstance(x, list) else x


def replay_name_case(ctx, prop, obj):
    import random
    r = obj["replay"]
    L, R = _tuplify(r["L"]), _tuplify(r["R"])
    annos = [tuple(t) for t in r["annos"]]
    print("case: %s(%s | %s) with x = %s, y = %s" % (r["cmp"], show(L), show(R), vsa.show(annos[0]), vsa.show(annos[1])))
    st, fl = check_pair(L, R, annos, random.Random(0), cmps=[r["cmp"]], limit=256)
    objs = [vsa.mk(a, name="n%d" % i) for i, a in enumerate(annos)]
    bad = 0
    for cmp, order, kind, detail, name_dep, res in fl:
        memo = {}
        tl, tr = vsa.tup(si_eval(L, objs, memo)), vsa.tup(si_eval(R, objs, memo))
        print("VIOLATION property=%s replay=(given)" % prop)
        print("failure:", kind, "-", "order", order, detail, " signature:", signature2(cmp, order, kind, L, R, name_dep, tl, tr))
        bad = 1
    if not bad:
        print("no failure on the current tree (%s)" % st)
    return bad


# ============================================================================================== stateful sequences on ONE object
# Every case of the plain streams is one operation on FRESH objects, and the name stream looks at the fields and names of
# results.  A value that an object memoises (pole-split bounds, a cardinality, a last answer ...) and that survives into an
# object derived from it - by a copy that clones the instance, then edits bits/bounds in place - is invisible to both: all
# fields of every result are right.  It shows only when the SAME object is queried, then derived from, and the derived object
# (and the original) is queried again.  A *program* is such a sequence over a heap of objects (object 0 is x):
#   ("q", i, query)   query = ("cmp", name, partner interval, "l" | "r") | ("max", signed) | ("min", signed) | ("card",)
#                             | ("eval", n, signed) | ("sol", v) | ("fields",)
#   ("d", i, step)    append the object step(object i);  step = ("zext", k) ("sext", k) ("agn", k) ("extract", hi, lo)
#                             ("cast_low", tok) ("un", op) ("binc", op, constant, "l" | "r") ("copy",) ("nameless_copy",)
#                             ("reverse",) ("reverse2",)
# Oracle: every answer must be right for the interval the queried object IS - the description (bits, stride, lb, ub) read from
# its fields when it was created (byte-swapped for a reversed constant) - judged by the brute-force oracles of the plain
# streams (vsa.oracle / vsa.query_oracle: truth values over the members, exact min/max/cardinality/eval/membership); the
# description itself must contain the image of x's members under the concrete meaning of the steps and must not change later.
# A wrong answer is re-asked on a freshly built interval with the same description (fresh partner): right there = the failure
# depends on the object's HISTORY (signature `…/state-dependent:<last step>`); wrong there too = the plain stream's finding.
import random as _random

STEP_NAMES = {"un": lambda s: s[1], "binc": lambda s: s[1]}


def step_name(step):
    return STEP_NAMES.get(step[0], lambda s: s[0])(step)


def step_show(step, inner):
    k = step[0]
    if k in ("zext", "sext", "agn"):
        return "%s(%d, %s)" % (k, step[1], inner)
    if k == "extract":
        return "%s[%d:%d]" % (inner, step[1], step[2])
    if k == "cast_low":
        return "cast_low(%s, %d)" % (inner, step[1])
    if k == "un":
        return "%s(%s)" % (step[1], inner)
    if k == "binc":
        return "%s(%s, %d)" % (step[1], inner, step[2]) if step[3] == "r" else "%s(%d, %s)" % (step[1], step[2], inner)
    return "%s(%s)" % (k, inner)


def step_width(w, step):
    k = step[0]
    if k in ("zext", "sext", "agn"):
        return w + step[1]
    if k == "extract":
        return step[1] - step[2] + 1
    if k == "cast_low":
        return step[1]
    return w


def step_real(o, step):
    k = step[0]
    if k == "zext":
        return o.zero_extend(o.bits + step[1])
    if k == "sext":
        return o.sign_extend(o.bits + step[1])
    if k == "agn":
        return o.agnostic_extend(o.bits + step[1])
    if k == "extract":
        return o.extract(step[1], step[2])
    if k == "cast_low":
        return o.cast_low(step[1])
    if k == "un":
        return vsa.UN[step[1]][0](o)
    if k == "binc":
        p = vsa.mk((o.bits, 0, step[2], step[2]))
        return vsa.BIN[step[1]][0](o, p) if step[3] == "r" else vsa.BIN[step[1]][0](p, o)
    if k == "copy":
        return o.copy()
    if k == "nameless_copy":
        return o.nameless_copy()
    if k == "reverse":
        return o.reverse()
    if k == "reverse2":
        return o.reverse().reverse()
    raise ValueError(k)


NOMAP = "nomap"     # a step without a concrete meaning of its own (agnostic_extend): only the description is judged


def step_conc(v, w, step):
    """concrete meaning of a step on a member v of a w-bit object; None = exempt (division by zero), NOMAP = none"""
    k = step[0]
    if k == "zext":
        return v
    if k == "sext":
        return sgn(v, w) & M(w + step[1])
    if k == "agn":
        return NOMAP
    if k == "extract":
        return (v >> step[2]) & M(step[1] - step[2] + 1)
    if k == "cast_low":
        return v & M(step[1])
    if k == "un":
        return vsa.UN[step[1]][1](v, w)
    if k == "binc":
        return vsa.BIN[step[1]][1](v, step[2], w) if step[3] == "r" else vsa.BIN[step[1]][1](step[2], v, w)
    if k == "reverse":
        return int.from_bytes(v.to_bytes(w // 8, "big"), "little")
    return v          # copy, nameless_copy, reverse2


def describe(o):
    """the interval an object IS, read from its fields: (bits, stride, lb, ub) | 'bottom:<bits>' | None (a reversed
    non-constant: its meaning is exempt from the property)"""
    t = vsa.tup(o)
    if not isinstance(t, tuple):
        return t if isinstance(t, str) and t.startswith("bottom") else None
    if getattr(o, "reversed", False):
        if t[1] == 0 and t[2] == t[3] and t[0] % 8 == 0:
            v = int.from_bytes(t[2].to_bytes(t[0] // 8, "big"), "little")
            return (t[0], 0, v, v)
        return None
    return t


def query_name(q):
    return q[1] if q[0] == "cmp" else {"card": "cardinality", "sol": "solution"}.get(q[0], q[0])


def query_show(q, who):
    k = q[0]
    if k == "cmp":
        return "%s(%s, %s)" % ((q[1], who, vsa.show(q[2])) if q[3] == "l" else (q[1], vsa.show(q[2]), who))
    if k in ("max", "min"):
        return "%s.%s(signed=%s)" % (who, k, bool(q[1]))
    if k == "card":
        return "%s.cardinality" % who
    if k == "eval":
        return "%s.eval(%d, signed=%s)" % (who, q[1], bool(q[2]))
    if k == "sol":
        return "%s.solution(%d)" % (who, q[1])
    return "fields of %s" % who


def query_real(o, q, partner):
    k = q[0]
    if k == "cmp":
        f = vsa.CMP[q[1]][0]
        p = partner(q[2])
        return vsa.call(f, o, p) if q[3] == "l" else vsa.call(f, p, o)
    if k in ("max", "min"):
        return vsa.call(vsa.QUERIES[k], o, q[1])
    if k == "card":
        return vsa.call(vsa.QUERIES["cardinality"], o)
    if k == "eval":
        return vsa.call(vsa.QUERIES["eval"], o, q[1], q[2])
    if k == "sol":
        return vsa.call(vsa.QUERIES["solution"], o, q[1])
    if k == "fields":
        return describe(o)
    raise ValueError(k)


def query_judge(q, t, r, seed, limit):
    """-> None | (kind, detail): the answer r of query q against the members of the description t"""
    k = q[0]
    if k == "cmp":
        return vsa.oracle(q[1], [t, q[2]] if q[3] == "l" else [q[2], t], r, _random.Random(seed), limit=limit)
    if k in ("max", "min"):
        return vsa.query_oracle(k, [t, q[1]], r)
    if k == "card":
        return vsa.query_oracle("cardinality", [t], r)
    if k == "eval":
        return vsa.query_oracle("eval", [t, q[1], q[2]], r)
    if k == "sol":
        return vsa.query_oracle("solution", [t, q[1]], r)
    if k == "fields":
        return None if r == t else ("changed", "the object was %s when it was created and is %s now" % (
            vsa.show(t), vsa.show(r) if r is not None else "a reversed non-constant"))
    raise ValueError(k)


def chain_of(par, stp, i):
    out = []
    while par[i] is not None:
        out.append(stp[i])
        i = par[i]
    return out[::-1]


def fresh_chain(anno, chain):
    """the same derivations on fresh objects, nothing queried in between -> description | 'err:<Type>'"""
    try:
        o = vsa.mk(anno)
        for s in chain:
            o = step_real(o, s)
        return describe(o)
    except RecursionError:
        return "err:RecursionError"
    except Exception as e:  # noqa
        return "err:" + type(e).__name__


def run_program(anno, prog, limit=12, only_last=False):
    """execute a program on the real objects -> (failures, stats).  A failure is a dict(k = index of the instruction,
    q, kind, detail, observed, state_dep, chain, desc).  only_last: judge only the last instruction (used by the shrinker)."""
    import collections
    objs = [vsa.mk(anno, name="n0")]
    desc = [describe(objs[0])]
    img = [set(vsa.sample_members(anno, _random.Random(1), limit))]
    width = [anno[0]]
    par, stp = [None], [None]
    partners = {}
    stats = collections.Counter()
    fails = []

    def partner(pt):
        if pt not in partners:
            partners[pt] = vsa.mk(pt)
        return partners[pt]

    for k, ins in enumerate(prog):
        last = k == len(prog) - 1
        if ins[0] == "d":
            _, i, step = ins
            par.append(i); stp.append(step)
            width.append(step_width(width[i], step))
            if objs[i] is None:
                objs.append(None); desc.append(None); img.append(None)
                continue
            try:
                o = step_real(objs[i], step)
                t = describe(o)
                err = None
            except RecursionError:
                o, t, err = None, None, "err:RecursionError"
            except Exception as e:  # noqa
                o, t, err = None, None, "err:" + type(e).__name__
            vals = None
            if img[i] is not None:
                vals = set()
                for v in img[i]:
                    z = step_conc(v, width[i], step)
                    if z is NOMAP:
                        vals = None
                        break
                    if z is not None:
                        vals.add(z)
            bad = None
            if err:
                bad = (err, "the derivation raises " + err)
            elif t is None:
                pass        # a reversed non-constant: exempt
            elif isinstance(t, str):
                if vals:
                    bad = ("unsound", "the result is empty, member %d of x gives %d" % (min(img[0]), min(vals)))
            elif not vsa.wf(t) or t[0] != width[-1]:
                bad = ("malformed", "the result %s is not a well-formed interval of %d bits" % (t, width[-1]))
            elif vals is not None and any(not vsa.member(t, z) for z in vals):
                bad = ("unsound", "value %d of the derivation is not a member of %s" % (min(z for z in vals if not vsa.member(t, z)), vsa.show(t)))
            stats["derivations"] += 1
            if (bad or (only_last is False and stats["derivations"] % 4 == 0)) and not (only_last and not last):
                ft = fresh_chain(anno, chain_of(par, stp, len(par) - 1))
                same = (ft == (err or t))
                if not same:
                    stats["derivation-differs-from-fresh"] += 1
                if bad and not same:
                    fails.append(dict(k=k, q=("derive",) + tuple(step), kind=bad[0], detail=bad[1] + "; the same derivations on fresh objects give %s" % (
                        vsa.show(ft) if ft is not None else ft), observed=err or t, state_dep=True, chain=chain_of(par, stp, len(par) - 1), desc=desc[i]))
                elif bad:
                    stats["skip:derivation-unsound-on-fresh-objects-too"] += 1
            if bad or t is None or isinstance(t, str):
                objs.append(None); desc.append(None); img.append(None)
            else:
                objs.append(o); desc.append(t); img.append(vals)
            continue
        _, i, q = ins
        if objs[i] is None:
            continue
        if only_last and not last:
            query_real(objs[i], q, partner)
            continue
        t = desc[i]
        r = query_real(objs[i], q, partner)
        stats["queries"] += 1
        bad = query_judge(q, t, r, k, limit)
        if not bad:
            continue
        # the same question to a freshly built interval with the same description (fresh partner)
        r2 = query_real(vsa.mk(t), q, vsa.mk)
        bad2 = query_judge(q, t, r2, k, limit) if q[0] != "fields" else None
        flagged = bool(getattr(objs[i], "reversed", False))       # a constant carrying the delayed-reversal flag: not a matter of history
        fails.append(dict(k=k, q=q, kind=bad[0], detail=bad[1], observed=r, state_dep=bad2 is None and not flagged, fresh=r2,
                          chain=chain_of(par, stp, i), desc=t, flagged=flagged))
    return fails, stats


def seq_signature(f):
    """finding signature of a failure of a sequence.  Wrong on a fresh interval too: the plain stream's signature of the
    comparison (None for the exact queries - they are C22's subject and its plain stream reports them).  Otherwise
    property / query / kind / state-dependent:<the step that produced the queried object>."""
    q = f["q"]
    if f.get("flagged"):
        return "C21/%s/%s/reversed-constant-operand" % (query_name(q), f["kind"])
    if not f["state_dep"]:
        if q[0] == "cmp":
            return vsa.classify(q[1], f["kind"], [f["desc"], q[2]] if q[3] == "l" else [q[2], f["desc"]])
        return None
    where = step_name(f["chain"][-1]) if f["chain"] else "operand-itself"
    if q[0] == "derive":
        return "C21/%s/%s/state-dependent:derived-from-%s" % (step_name(q[1:]), f["kind"],
                                                               step_name(f["chain"][-2]) if len(f["chain"]) > 1 else "operand-itself")
    return "C21/%s/%s/state-dependent:%s" % (query_name(q), f["kind"], where)


# ---------------------------------------------------------------------------------------------- generation
def battery(i, w, rng, widths=(), pool=None, light=False):
    """the queries put to object i (w bits): all ten comparisons, both orders, against a few constants (poles of this and of
    the ancestors' widths) and one interval; min/max signed and unsigned; cardinality; eval; membership; the fields"""
    half = 1 << (w - 1)
    consts = {0, 1, M(w), half, half - 1, rng.randrange(1 << w)}
    for a in widths:
        if a < w:
            consts |= {1 << (a - 1), M(a), 1 << a}
    consts = sorted(c & M(w) for c in consts)
    chosen = {0} | set(rng.sample(consts, min(len(consts), 1 if light else 3)))
    parts = [(w, 0, c, c) for c in sorted(chosen)]
    if not light:
        parts.append(rng.choice(pool) if pool else vsa.rand_si(rng, w))
    qs = []
    for p in parts:
        for name in vsa.CMP:
            qs.append(("cmp", name, p, "l"))
            qs.append(("cmp", name, p, "r"))
    for sg in (0, 1):
        qs += [("max", sg), ("min", sg), ("eval", rng.choice([1, 2, 5, 300]), sg)]
    qs += [("card",), ("sol", rng.choice(consts)), ("sol", rng.randrange(1 << w)), ("fields",)]
    rng.shuffle(qs)
    return [("q", i, q) for q in qs]


def steps_for(w, rng, anno=None):
    """every unary operation and width change applicable to a w-bit object (parameters: the boundary values and one random)"""
    out = [("un", op) for op in vsa.UN] + [("copy",), ("nameless_copy",), ("reverse2",)]
    for k in sorted({1, 2, w, rng.choice([3, 5, 8, 16, 32])}):
        out += [("zext", k), ("sext", k), ("agn", k)]
    ex = {(w - 1, 0), (0, 0), (w - 1, w - 1)}
    if w >= 2:
        ex |= {(w - 1, 1), (w - 2, 0)}
        lo = rng.randrange(w); ex.add((rng.randrange(lo, w), lo))
    out += [("extract", hi, lo) for hi, lo in sorted(ex)]
    out += [("cast_low", tok) for tok in sorted({1, w, max(1, w - 1), rng.randrange(1, w + 1)})]
    for op in ("shl", "lshr", "ashr"):
        for c in sorted({1, max(1, w - 1), rng.randrange(0, w + 1)}):
            out.append(("binc", op, c & M(w), "r"))
    for op in rng.sample(["add", "sub", "mul", "and", "or", "xor", "udiv", "mod"], 3):
        c = rng.choice([1, M(w), 1 << (w - 1), rng.randrange(1, 1 << w) if w > 1 else 1]) & M(w)
        out.append(("binc", op, c or 1, rng.choice("lr")))
    if w % 8 == 0 and w > 8 and anno is not None and anno[1] == 0:
        out.append(("reverse",))
    return out


def gen_programs(ctx):
    """-> list of (anno, prog, stream)"""
    rng = ctx.rng
    out = []

    def fan(x, stream, nsteps=None):
        # query x; then every derivation of x, each queried at once; the fields of x after each; x again at the end
        w = x[0]
        pool = vsa.all_sis(w) if w <= 4 else None
        prog = battery(0, w, rng, pool=pool)
        steps = steps_for(w, rng, x)
        if nsteps is not None and len(steps) > nsteps:
            steps = rng.sample(steps, nsteps) + [s for s in steps if s == ("reverse",)]
        n = 0
        for s in steps:
            n += 1
            wn = step_width(w, s)
            prog.append(("d", 0, s))
            prog += battery(n, wn, rng, widths=(w,), pool=vsa.all_sis(wn) if wn <= 3 else None, light=rng.random() < 0.5)
            prog.append(("q", 0, ("fields",)))
        prog += battery(0, w, rng, pool=pool)
        out.append((x, prog, stream))

    def deep(x, stream):
        # two levels: query x, derive y, query y, derive z from y, query z, y and x again; a sibling derived from x last
        w = x[0]
        s1 = rng.choice(steps_for(w, rng, x))
        w1 = step_width(w, s1)
        s2 = rng.choice(steps_for(w1, rng))
        w2 = step_width(w1, s2)
        s3 = rng.choice(steps_for(w, rng, x))
        w3 = step_width(w, s3)
        first = battery(0, w, rng) if rng.random() < 0.6 else battery(0, w, rng)[:rng.randrange(1, 4)]
        prog = first + [("d", 0, s1)] + battery(1, w1, rng, widths=(w,), light=rng.random() < 0.3) + [("d", 1, s2)] + \
            battery(2, w2, rng, widths=(w, w1)) + battery(1, w1, rng, widths=(w,), light=True) + battery(0, w, rng, light=True) + \
            [("d", 0, s3)] + battery(3, w3, rng, widths=(w,), light=True)
        out.append((x, prog, stream))

    for w in (1, 2):
        for x in vsa.all_sis(w):
            fan(x, "seq-exh")
    for w, n in ((3, ctx.pick(12, 120)), (4, ctx.pick(10, 120))):
        pool = vsa.all_sis(w)
        for _ in range(n):
            fan(rng.choice(pool), "seq-small", nsteps=ctx.pick(16, 99))
    for _ in range(ctx.pick(30, 400)):
        w = rng.choice(vsa.WIDE_WIDTHS)
        x = vsa.rand_si(rng, w)
        if rng.random() < 0.4:      # few members around a pole: the image of every member is checked
            s = rng.choice([1, 2, 3, 4, 16]); n = rng.randrange(1, 9)
            lb = (rng.choice([0, 1 << (w - 1)]) - rng.randrange(0, n + 1) * s) & M(w)
            x = vsa.norm(w, s, lb, lb + n * s)
        fan(x, "seq-wide", nsteps=ctx.pick(12, 99))
    for _ in range(ctx.pick(8, 80)):      # constants of whole bytes: the only intervals whose byte reversal is not exempt
        w = rng.choice([16, 16, 24, 32, 64])
        v = rng.choice([1, 0xFF, 1 << (w - 1), M(w) - 1, rng.randrange(1 << w), 0xFF << (w - 8)]) & M(w)
        fan((w, 0, v, v), "seq-const", nsteps=ctx.pick(10, 99))
    for _ in range(ctx.pick(250, 4000)):
        w = rng.choice([1, 2, 2, 3, 3, 4, 5, 8, 8, 16, 32])
        x = rng.choice(vsa.all_sis(w)) if w <= 4 else vsa.rand_si(rng, w)
        deep(x, "seq-deep")
    return out


# ---------------------------------------------------------------------------------------------- shrinking
def _reindex(prog, keep):
    """the sub-program of the instructions `keep` (indices); a derivation whose parent is dropped drops out with its queries"""
    new = {0: 0}
    out = []
    obj = n = 0
    for k, ins in enumerate(prog):
        if ins[0] == "d":
            obj += 1
            if k in keep and ins[1] in new:
                n += 1
                new[obj] = n
                out.append(("d", new[ins[1]], ins[2]))
        elif k in keep and ins[1] in new:
            out.append(("q", new[ins[1]], ins[2]))
    return out


def _still(anno, prog, sig):
    if not prog:
        return False
    fails, _ = run_program(anno, prog, only_last=True)
    return any(f["k"] == len(prog) - 1 and seq_signature(f) == sig for f in fails)


def shrink_program(anno, prog, k, sig):
    """a shorter program ending in the failing instruction k with the same signature: the ancestors' instructions only,
    then a single earlier query if one suffices, else one instruction dropped at a time"""
    prog = prog[:k + 1]
    # objects: ancestors of the object of the last instruction
    parent = {0: None}
    n = 0
    for ins in prog:
        if ins[0] == "d":
            n += 1
            parent[n] = ins[1]
    target = prog[-1][1] if prog[-1][0] == "q" else n
    anc = set()
    i = target
    while i is not None:
        anc.add(i)
        i = parent[i]
    keep, n = set(), 0
    for j, ins in enumerate(prog):
        if ins[0] == "d":
            n += 1
            if n in anc:
                keep.add(j)
        elif ins[1] in anc:
            keep.add(j)
    keep.add(len(prog) - 1)
    cand = _reindex(prog, keep)
    if _still(anno, cand, sig):
        prog = cand
    elif len(prog) > 600:
        return prog
    ds = [j for j, ins in enumerate(prog[:-1]) if ins[0] == "d"]
    qs = [j for j, ins in enumerate(prog[:-1]) if ins[0] == "q"]
    # no earlier query at all / one earlier query
    for sub in [()] + [(j,) for j in qs]:
        keep = set(ds) | set(sub) | {len(prog) - 1}
        cand = _reindex(prog, keep)
        if _still(anno, cand, sig):
            prog = cand
            break
    changed = True
    while changed and len(prog) <= 400:
        changed = False
        for j in range(len(prog) - 2, -1, -1):
            cand = _reindex(prog, set(range(len(prog))) - {j})
            if cand and cand[-1][0] == prog[-1][0] and cand[-1][2] == prog[-1][2] and len(cand) < len(prog) and _still(anno, cand, sig):
                prog = cand
                changed = True
                break
    return prog


def program_show(anno, prog):
    names = ["x"]
    lines = []
    for ins in prog:
        if ins[0] == "d":
            names.append(step_show(ins[2], names[ins[1]]))
            lines.append("derive " + names[-1])
        else:
            lines.append(query_show(ins[2], names[ins[1]]))
    return "x = %s; " % vsa.show(anno) + "; then ".join(lines)


# ---------------------------------------------------------------------------------------------- the stream
def run_seq_stream(ctx, prop="C21"):
    """stateful sequences on one object (oracle only: the Lean model is a function of the fields, it has no hidden state)"""
    import collections
    progs = gen_programs(ctx)
    found = collections.defaultdict(list)
    stats = collections.Counter()
    streams = collections.Counter()
    skipped = collections.Counter()
    for anno, prog, stream in progs:
        fails, st = run_program(anno, prog)
        stats.update(st)
        streams[stream] += 1
        ctx.count(st["queries"] + st["derivations"])
        ctx.distinct(("seq", anno, len(prog), str(prog[-1])))
        for f in fails:
            sig = seq_signature(f)
            if sig is None:
                skipped["C22/%s/%s (wrong on a fresh interval too: C22's plain stream)" % (query_name(f["q"]), f["kind"])] += 1
                continue
            found[sig].append((anno, prog, f))
    for sig, lst in sorted(found.items()):
        anno, prog, f = min(lst, key=lambda c: (c[0][0] * 1000 + min(vsa.card(c[0]), 999), len(c[2]["chain"]), c[2]["k"], str(c[0])))
        if f["state_dep"]:
            small = shrink_program(anno, prog, f["k"], sig)
        else:       # not a matter of history: the derivations of the queried object and the query
            small = shrink_program(anno, [i for i in prog[:f["k"]] if i[0] == "d"] + [prog[f["k"]]], f["k"], sig)
            small = [i for i in small[:-1] if i[0] == "d"] + [small[-1]]
        fl, _ = run_program(anno, small)
        g = next((h for h in fl if h["k"] == len(small) - 1 and seq_signature(h) == sig), None)
        if g is None:               # the shrunk program must fail the same way, else keep the original
            small, g = prog[:f["k"] + 1], f
        what = "%s: the last answer is %s - %s; the object is %s%s  [%d case(s) of this class in this run]" % (
            program_show(anno, small), g["observed"] if not isinstance(g["observed"], tuple) else vsa.show(g["observed"]), g["detail"],
            vsa.show(g["desc"]) if g["desc"] is not None else "?",
            "; a freshly built interval with the same fields answers %s" % (g.get("fresh"),) if g["state_dep"] and "fresh" in g else "", len(lst))
        ctx.violation(sig, what, {"seq_case": True, "anno": list(anno), "prog": small, "kind": g["kind"], "detail": g["detail"],
                                  "observed": g["observed"]})
    ctx.cov["sequence_stream"] = {
        "programs": len(progs), "streams": dict(streams), "status": dict(stats), "not_reported": dict(skipped),
        "rule": "program = query x (ten comparisons both orders against pole constants and an interval, min/max signed/unsigned, cardinality, "
                "eval, membership, fields) -> derive (every unary operation and width change: zero/sign/agnostic extension, extract, cast_low, "
                "neg, not, shifts and arithmetic by constants, copy, nameless_copy, reverse) -> query the derived object and x again; the same two "
                "levels deep; every answer judged against the members of the interval the object's fields describe"}
    fc = ctx.cov.setdefault("failing_classes_seen", {})
    for k, v in found.items():
        fc[k] = fc.get(k, 0) + len(v)
    return found


def replay_seq_case(ctx, prop, obj):
    r = obj["replay"]
    anno = tuple(r["anno"])
    prog = [_tuplify(i) for i in r["prog"]]
    print("case:", program_show(anno, prog))
    fails, _ = run_program(anno, prog, limit=64)
    bad = 0
    for f in fails:
        sig = seq_signature(f)
        if sig is None:
            continue
        print("VIOLATION property=%s replay=(given)" % prop)
        print("failure: instruction %d %s answers %s: %s - %s  signature: %s" % (
            f["k"], f["q"], f["observed"], f["kind"], f["detail"], sig))
        bad = 1
    if not bad:
        print("no failure on the current tree")
    return bad
