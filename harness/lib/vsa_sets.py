"""C23: discrete strided-interval sets (DSIS) and region value sets (ValueSet) on the REAL code:
construction, concretisation, operation tables, oracles."""
from lib import vsa
from lib.vsa import M, sgn


def DS():
    from claripy.backends.backend_vsa.discrete_strided_interval_set import DiscreteStridedIntervalSet
    return DiscreteStridedIntervalSet


def VS():
    from claripy.backends.backend_vsa.valueset import ValueSet
    return ValueSet


# ---------------------------------------------------------------------------------------------- DSIS
def mk_dsis(w, tuples):
    """the real object for a list of interval tuples (one element -> still a DSIS, as the constructor allows)"""
    return DS()(bits=w, si_set={vsa.mk(t) for t in tuples})


def canon_obj(o):
    """canonical description of a result: ('si', tuple) | ('dsis', sorted tuples) | ('bool', 'FT') | ('err', kind) | ..."""
    S = vsa.SI()
    if isinstance(o, DS()):
        return ("dsis", o.bits, tuple(sorted(vsa.tup(x) if not isinstance(vsa.tup(x), str) else (x.bits, -1, 0, 0) for x in o._si_set)))
    if isinstance(o, S):
        return ("si", vsa.tup(o))
    if isinstance(o, VS()):
        return ("vs", o.bits, tuple(sorted((r, vsa.tup(s)) for r, s in o.regions.items())), vsa.tup(o._si))
    t = vsa.tup(o)
    if isinstance(t, str) and t.startswith("bool:"):
        return ("bool", t[5:])
    if isinstance(t, list):
        return ("list", tuple(t))
    return ("val", t)


def call(fn, *a):
    try:
        return canon_obj(fn(*a))
    except RecursionError:
        return ("err", "RecursionError")
    except Exception as e:  # noqa
        return ("err", type(e).__name__)


def res_member(c, x):
    """is the value x in the concretisation of the canonical result c (an interval or a set of intervals)?"""
    if c[0] == "si":
        return vsa.member(c[1], x)
    if c[0] == "dsis":
        return any(t[1] >= 0 and vsa.member(t, x) for t in c[2])
    return False


def res_wf(c):
    if c[0] == "si":
        return vsa.wf(c[1])
    if c[0] == "dsis":
        return all(t[1] < 0 or vsa.wf(t) for t in c[2])
    return True


def res_bits(c):
    if c[0] == "si":
        return int(c[1].split(":")[1]) if isinstance(c[1], str) else c[1][0]
    if c[0] == "dsis":
        return c[1]
    return None


def gamma_set(tuples, limit=96):
    """all members when an interval has at most `limit`, else a deterministic boundary-biased sample"""
    import random
    out = set()
    for t in tuples:
        if vsa.card(t) <= limit:
            out |= set(vsa.gamma(t))
        else:
            out |= set(vsa.sample_members(t, random.Random(hash(t) & 0xffff), 14))
    return out


def exhaustive(X, limit=96):
    ts = X[2] if X[0] == "d" else ([X[1]] if X[0] == "s" else list(X[2].values()))
    return all(vsa.card(t) <= limit for t in ts)


# operations of a DSIS with another DSIS / an interval: name -> (real callable, concrete function or None)
DS_BIN = {
    "add": (lambda a, b: a + b, lambda x, y, w: (x + y) & M(w)),
    "sub": (lambda a, b: a - b, lambda x, y, w: (x - y) & M(w)),
    "and": (lambda a, b: a & b, lambda x, y, w: x & y),
    "or": (lambda a, b: a | b, lambda x, y, w: x | y),
    "xor": (lambda a, b: a ^ b, lambda x, y, w: x ^ y),
    "udiv": (lambda a, b: a // b, lambda x, y, w: None if y == 0 else x // y),
    "mod": (lambda a, b: a % b, lambda x, y, w: None if y == 0 else x % y),
    "shl": (lambda a, b: a << b, vsa.c_shl),
    "ashr": (lambda a, b: a >> b, vsa.c_ashr),
    "mul": (lambda a, b: a * b, lambda x, y, w: (x * y) & M(w)),
    "lshr": (lambda a, b: a.LShR(b), vsa.c_lshr),
}
# reflected operations: an interval (first operand of the expression) with a set; the Python protocol lands in DSIS.__rsub__ etc.
DS_RBIN = {
    "rsub": (lambda a, b: b - a, lambda x, y, w: (y - x) & M(w)),
    "radd": (lambda a, b: b + a, lambda x, y, w: (y + x) & M(w)),
    "rmul": (lambda a, b: b * a, lambda x, y, w: (y * x) & M(w)),
    "rudiv": (lambda a, b: b // a, lambda x, y, w: None if x == 0 else y // x),
    "rmod": (lambda a, b: b % a, lambda x, y, w: None if x == 0 else y % x),
}
DS_QUERY = ("min", "max", "smin", "smax", "hull", "bk")
DS_CMP = {
    "SLT": (lambda a, b: a.SLT(b), lambda x, y, w: sgn(x, w) < sgn(y, w)),
    "SLE": (lambda a, b: a.SLE(b), lambda x, y, w: sgn(x, w) <= sgn(y, w)),
    "SGT": (lambda a, b: a.SGT(b), lambda x, y, w: sgn(x, w) > sgn(y, w)),
    "SGE": (lambda a, b: a.SGE(b), lambda x, y, w: sgn(x, w) >= sgn(y, w)),
    "eq": (lambda a, b: a == b, lambda x, y, w: x == y),
    "ne": (lambda a, b: a != b, lambda x, y, w: x != y),
    "ULT": (lambda a, b: a.ULT(b), lambda x, y, w: x < y),
    "ULE": (lambda a, b: a.ULE(b), lambda x, y, w: x <= y),
    "UGT": (lambda a, b: a.UGT(b), lambda x, y, w: x > y),
    "UGE": (lambda a, b: a.UGE(b), lambda x, y, w: x >= y),
}
DS_UN = {
    "opneg": (lambda a: -a, lambda x, w: (-x) & M(w)),
    "not": (lambda a: ~a, lambda x, w: x ^ M(w)),
}
DS_SET = {
    "union": lambda a, b: a.union(b),
    "intersection": lambda a, b: a.intersection(b),
    "widen": lambda a, b: a.widen(b),
}


def ds_case_real(op, A, B=None, extra=()):
    """A, B: ('d', w, [tuples]) or ('s', tuple)."""
    def obj(X):
        return mk_dsis(X[1], X[2]) if X[0] == "d" else vsa.mk(X[1])
    if op in DS_BIN:
        return call(DS_BIN[op][0], obj(A), obj(B))
    if op in DS_CMP:
        return call(DS_CMP[op][0], obj(A), obj(B))
    if op in DS_UN:
        return call(DS_UN[op][0], obj(A))
    if op in DS_SET:
        return call(DS_SET[op], obj(A), obj(B))
    if op in DS_RBIN:
        return call(DS_RBIN[op][0], obj(A), obj(B))
    if op in DS_QUERY:
        return ds_query_real(op, obj(A), A)
    if op == "collapse":
        return call(lambda a: a.collapse(), obj(A))
    if op == "normalize":
        return call(lambda a: a.normalize(), obj(A))
    if op == "cardinality":
        return call(lambda a: a.cardinality, obj(A))
    if op == "eval":
        return call(lambda a: a.eval(extra[0]), obj(A))
    if op == "zext":
        return call(lambda a: a.zero_extend(extra[0]), obj(A))
    if op == "sext":
        return call(lambda a: a.sign_extend(extra[0]), obj(A))
    if op == "extract":
        return call(lambda a: a.extract(extra[0], extra[1]), obj(A))
    if op == "concat":
        return call(lambda a, b: a.concat(b), obj(A), obj(B))
    raise KeyError(op)


def ds_query_real(op, a, A):
    """queries on a set: min/max (unsigned, signed), the hull attributes, and the same through the AST / backend API"""
    try:
        if op == "min":
            return ("val", a.min())
        if op == "max":
            return ("val", a.max())
        if op == "smin":
            return ("val", a.min(signed=True))
        if op == "smax":
            return ("val", a.max(signed=True))
        if op == "hull":
            return ("val", (a.lower_bound, a.upper_bound))
        if op == "bk":
            import claripy
            from claripy.backends.backend_vsa import strided_interval as si_mod
            with si_mod._allow_dsis(True):
                u = None
                for (w, st, lb, ub) in A[2]:
                    e = claripy.SI(bits=w, stride=st, lower_bound=lb, upper_bound=ub)
                    u = e if u is None else u.union(e)
                B = claripy.backends.vsa
                sol = claripy.SolverVSA()
                return ("val", (B.min(u), B.max(u), B.min(u, signed=True), B.max(u, signed=True), tuple(sorted(B.eval(u, 300))),
                                sol.min(u), sol.max(u), type(B.convert(u)).__name__))
    except RecursionError:
        return ("err", "RecursionError")
    except Exception as e:  # noqa
        return ("err", type(e).__name__)
    raise KeyError(op)


def members_of(X):
    return gamma_set(X[2]) if X[0] == "d" else gamma_set([X[1]])


def width_of(X):
    return X[1] if X[0] == "d" else X[1][0]


def ds_oracle(op, A, B, extra, r):
    """-> None | (kind, detail)"""
    if r[0] == "err":
        return ("err:" + r[1], "raises " + r[1])
    w = width_of(A)
    ga = members_of(A)
    gb = members_of(B) if B is not None else None
    if op in DS_CMP:
        if r[0] != "bool":
            return ("malformed", "not a BoolResult: %r" % (r,))
        c = DS_CMP[op][1]
        for x in ga:
            for y in gb:
                v = "T" if c(x, y, w) else "F"
                if v not in r[1]:
                    return ("unsound", "x=%d y=%d gives %s, result {%s}" % (x, y, v, r[1]))
        return None
    if op in DS_QUERY:
        if r[0] != "val":
            return ("malformed", "%s returned %r" % (op, r))
        v = r[1]
        sg = [sgn(x, w) for x in ga]
        if op == "min" and not (isinstance(v, int) and v <= min(ga)):
            return ("wrong", "min() = %r but %d is a member" % (v, min(ga)))
        if op == "max" and not (isinstance(v, int) and v >= max(ga)):
            return ("wrong", "max() = %r but %d is a member" % (v, max(ga)))
        if op == "smin" and not (isinstance(v, int) and v <= min(sg)):
            return ("wrong", "min(signed) = %r but %d is a member" % (v, min(sg)))
        if op == "smax" and not (isinstance(v, int) and v >= max(sg)):
            return ("wrong", "max(signed) = %r but %d is a member" % (v, max(sg)))
        if op == "hull":
            lo, hi = v
            out = [x for x in ga if ((x - lo) & M(w)) > ((hi - lo) & M(w))]
            if out:
                return ("wrong", "lower_bound/upper_bound = [%d, %d] do not enclose the member %d" % (lo, hi, out[0]))
        if op == "bk":
            mn, mx, smn, smx, ev, smin_, smax_, kind = v
            if mn > min(ga) or mx < max(ga) or smn > min(sg) or smx < max(sg) or smin_ > min(ga) or smax_ < max(ga):
                return ("wrong", "backend min/max/signed min/signed max/solver min/max = %r on a %s with members %d..%d (signed %d..%d)" % (
                    (mn, mx, smn, smx, smin_, smax_), kind, min(ga), max(ga), min(sg), max(sg)))
            if exhaustive(A) and len(ga) <= 300:
                if not ga <= set(ev):
                    return ("wrong", "backend eval misses the member %d" % sorted(ga - set(ev))[0])
                if kind == "DiscreteStridedIntervalSet" and set(ev) != ga:
                    return ("wrong", "backend eval of the set lists the non-member %d" % sorted(set(ev) - ga)[0])
        return None
    if op in DS_RBIN:
        if r[0] not in ("si", "dsis"):
            return ("malformed", "unexpected result %r" % (r,))
        c = DS_RBIN[op][1]
        for x in ga:
            for y in gb:
                z = c(x, y, w)
                if z is not None and not res_member(r, z):
                    return ("unsound", "set value x=%d, interval value y=%d: %d missing" % (x, y, z))
        return None
    if op == "cardinality":
        if r[0] != "val" or not isinstance(r[1], int) or r[1] < len(ga):
            return ("wrong", "cardinality %r is below the number of members %d" % (r[1], len(ga)))
        return None
    if op == "eval":
        n = extra[0]
        if r[0] != "list":
            return ("wrong", "eval returned %r" % (r,))
        vals = r[1]
        ism = lambda v: any(vsa.member(t, v) for t in A[2])  # noqa: E731
        if any(not ism(v) for v in vals):
            return ("wrong", "eval lists a non-member: %r" % ([v for v in vals if not ism(v)][:4],))
        if len(set(vals)) != len(vals) or len(vals) > n:
            return ("wrong", "eval(%d) lists %r" % (n, vals))
        if len(vals) < min(n, len(ga)):
            return ("wrong", "eval(%d) lists only %d of %d members" % (n, len(vals), len(ga)))
        return None
    if r[0] not in ("si", "dsis"):
        return ("malformed", "unexpected result %r" % (r,))
    if not res_wf(r):
        return ("malformed", "result %r is not well formed" % (r,))
    if op in DS_BIN:
        c = DS_BIN[op][1]
        for x in ga:
            for y in gb:
                z = c(x, y, w)
                if z is not None and not res_member(r, z):
                    return ("unsound", "x=%d y=%d: %d missing" % (x, y, z))
    elif op in DS_UN:
        c = DS_UN[op][1]
        for x in ga:
            if not res_member(r, c(x, w)):
                return ("unsound", "x=%d: %d missing" % (x, c(x, w)))
    elif op in ("union", "widen"):
        for x in ga | gb:
            if not res_member(r, x):
                return ("unsound", "member %d missing" % x)
    elif op == "intersection":
        for x in ga & gb:
            if not res_member(r, x):
                return ("unsound", "common member %d missing" % x)
    elif op in ("collapse", "normalize"):
        for x in ga:
            if not res_member(r, x):
                return ("unsound", "member %d missing" % x)
    elif op == "zext":
        for x in ga:
            if not res_member(r, x):
                return ("unsound", "x=%d missing" % x)
    elif op == "sext":
        for x in ga:
            if not res_member(r, sgn(x, w) & M(extra[0])):
                return ("unsound", "x=%d: %d missing" % (x, sgn(x, w) & M(extra[0])))
    elif op == "extract":
        hi, lo = extra
        for x in ga:
            if not res_member(r, (x >> lo) & M(hi - lo + 1)):
                return ("unsound", "x=%d: %d missing" % (x, (x >> lo) & M(hi - lo + 1)))
    elif op == "concat":
        wb = width_of(B)
        for x in ga:
            for y in gb:
                if not res_member(r, (x << wb) | y):
                    return ("unsound", "x=%d y=%d: %d missing" % (x, y, (x << wb) | y))
    return None


# ---------------------------------------------------------------------------------------------- ValueSet
def mk_vs(w, regions):
    """regions: dict region -> interval tuple.  Built like BackendVSA.apply_annotation does (_merge_si, base 0)."""
    v = VS()(bits=w)
    for r, t in regions.items():
        v._merge_si(r, 0, vsa.mk(t))
    return v


VS_OPS_SI = {   # value set (op) interval -> per-region results
    "add": (lambda a, b: a + b, lambda x, y, w: (x + y) & M(w)),
    "sub": (lambda a, b: a - b, lambda x, y, w: (x - y) & M(w)),
    "mod": (lambda a, b: a % b, lambda x, y, w: None if y == 0 else x % y),
    "and": (lambda a, b: a & b, lambda x, y, w: x & y),
}


def vs_real(op, A, B=None, extra=()):
    """A: ('v', w, {region: tuple});  B: ('v', ...) or ('s', tuple)"""
    def obj(X):
        return mk_vs(X[1], X[2]) if X[0] == "v" else vsa.mk(X[1])
    a = obj(A)
    if op.startswith("hist_"):
        return vs_hist_real(op, A, B)
    if op in VS_OPS_SI:
        return call(VS_OPS_SI[op][0], a, obj(B))
    if op == "subvs":
        return call(lambda x, y: x - y, a, obj(B))
    if op in ("union", "intersection", "widen"):
        return call(lambda x, y: getattr(x, op)(y), a, obj(B))
    if op == "eval":
        return call(lambda x: x.eval(extra[0]), a)
    if op == "cardinality":
        return call(lambda x: x.cardinality, a)
    if op in ("min", "max"):
        return call(lambda x: getattr(x, op)(), a)
    if op == "extract":
        return call(lambda x: x.extract(extra[0], extra[1]), a)
    if op == "concat":
        return call(lambda x, y: x.concat(y), a, obj(B))
    if op == "lshr":
        return call(lambda x, y: x.LShR(y), a, obj(B))
    if op == "eq":
        return call(lambda x, y: x == y, a, obj(B))
    if op == "ne":
        return call(lambda x, y: x != y, a, obj(B))
    if op.startswith("ast_"):
        return vs_ast_real(op[4:], A, B)
    raise KeyError(op)


def vs_ast(X):
    """the claripy AST of a value set / interval description (union of one ValueSet leaf per region)"""
    import claripy
    if X[0] == "s":
        w, st, lb, ub = X[1]
        return claripy.SI(bits=w, stride=st, lower_bound=lb, upper_bound=ub)
    u = None
    for reg, (w, st, lb, ub) in X[2].items():
        e = claripy.ValueSet(w, reg, 0, claripy.SI(bits=w, stride=st, lower_bound=lb, upper_bound=ub))
        u = e if u is None else u.union(e)
    return u


def vs_ast_real(op, A, B):
    """union / intersection / widen of two value sets built as ASTs, evaluated by the VSA backend"""
    import claripy
    try:
        aa, bb = vs_ast(A), vs_ast(B)
        if aa is None or bb is None:
            return ("val", "empty-operand")
        return canon_obj(claripy.backends.vsa.convert(getattr(aa, op)(bb)))
    except RecursionError:
        return ("err", "RecursionError")
    except Exception as e:  # noqa
        return ("err", type(e).__name__)


VS_HIST = {"union": lambda a, b: a.union(b), "intersection": lambda a, b: a.intersection(b), "widen": lambda a, b: a.widen(b),
           "sub": lambda a, b: a - b, "mod": lambda a, b: a % b, "and": lambda a, b: a & b, "add": lambda a, b: a + b}


def vs_hist_real(op, A, B):
    """a history, as an analysis produces it: look at the operands (cardinality, eval), combine them, look at the result.
    Returned: for the object level and for the AST / backend level, the cardinality the result reports and the number of
    offsets its regions hold (plus single-/multi-valuedness as the backend reports it)."""
    import claripy
    fn = VS_HIST[op[5:]]
    try:
        a = mk_vs(A[1], A[2])
        b = mk_vs(B[1], B[2]) if B[0] == "v" else vsa.mk(B[1])
        _ = (a.cardinality, len(a), a.is_empty, a.eval(4))
        _ = b.cardinality
        r = fn(a, b)
        if isinstance(r, VS()):
            obj = (r.cardinality, sum(si.cardinality for si in r.regions.values()), len(r))
        else:
            obj = (r.cardinality, r.cardinality, len(r))
        Bk = claripy.backends.vsa

        def ast_of(X):
            if X[0] == "s":
                w, st, lb, ub = X[1]
                return claripy.SI(bits=w, stride=st, lower_bound=lb, upper_bound=ub)
            u = None
            for reg, (w, st, lb, ub) in X[2].items():
                e = claripy.ValueSet(w, reg, 0, claripy.SI(bits=w, stride=st, lower_bound=lb, upper_bound=ub))
                u = e if u is None else u.union(e)
            return u
        aa, bb = ast_of(A), ast_of(B)
        _ = (Bk.cardinality(aa), Bk.cardinality(bb), Bk.eval(aa, 4))
        u = fn(aa, bb)
        m = Bk.convert(u)
        held = sum(si.cardinality for si in m.regions.values()) if isinstance(m, VS()) else m.cardinality
        ast = (Bk.cardinality(u), held, bool(Bk.singlevalued(u)), bool(Bk.multivalued(u)), len(Bk.eval(u, 4096)))
        return ("val", (obj, ast))
    except RecursionError:
        return ("err", "RecursionError")
    except Exception as e:  # noqa
        return ("err", type(e).__name__)


def vs_region_member(c, region, x):
    """c canonical ('vs', bits, ((region, tuple), ...), si)"""
    for r, t in c[2]:
        if r == region:
            return vsa.member(t, x)
    return False


def vs_oracle(op, A, B, extra, r):
    w = A[1]
    regs = A[2]
    if op in ("min", "max") and len(regs) != 1:
        # documented: only defined for single-region value sets (raises ClaripyVSAOperationError otherwise)
        return None if r == ("err", "ClaripyVSAOperationError") else ("wrong", "multi-region %s returned %r" % (op, r))
    if op.startswith("hist_"):
        if r[0] == "err":
            # the operations raise on the same operands without the preceding queries (checked by the plain cases)
            return None
        (card, held, ln), (acard, aheld, single, multi, nev) = r[1]
        if card != held:
            return ("wrong", "after reading the operands' cardinality, the result reports cardinality %d but its regions hold %d offsets" % (card, held))
        if acard != aheld or nev > acard or single != (acard == 1) or multi != (acard > 1):
            return ("wrong", "backend: cardinality %d, regions hold %d offsets, eval lists %d, singlevalued %s, multivalued %s" % (acard, aheld, nev, single, multi))
        return None
    if r[0] == "err":
        return ("err:" + r[1], "raises " + r[1])
    if op in VS_OPS_SI:
        c = VS_OPS_SI[op][1]
        gb = vsa.gamma(B[1])
        for reg, t in regs.items():
            for x in vsa.gamma(t):
                for y in gb:
                    z = c(x, y, w)
                    if z is None:
                        continue
                    if r[0] == "vs":
                        if not vs_region_member(r, reg, z):
                            return ("unsound", "region %s: x=%d y=%d: %d missing" % (reg, x, y, z))
                    elif r[0] == "si":       # the operation collapsed the regions into one interval
                        if not vsa.member(r[1], z):
                            return ("unsound", "x=%d y=%d: %d missing in %s" % (x, y, z, r[1]))
                    else:
                        return ("malformed", "unexpected result %r" % (r,))
        return None
    if op == "subvs":
        if r[0] != "si":
            return ("malformed", "pointer difference is not an interval: %r" % (r,))
        for reg, t in regs.items():
            for x in vsa.gamma(t):
                for y in vsa.gamma(B[2][reg]):
                    if not vsa.member(r[1], (x - y) & M(w)):
                        return ("unsound", "region %s: %d - %d missing" % (reg, x, y))
        return None
    if op in ("eq", "ne"):
        # members of a value set are (region, offset) pairs; an interval operand is an offset in the region "global"
        if r[0] != "bool":
            return ("malformed", "not a BoolResult: %r" % (r,))
        ma = {(reg, x) for reg, t in regs.items() for x in vsa.gamma(t)}
        mb = {(reg, x) for reg, t in B[2].items() for x in vsa.gamma(t)} if B[0] == "v" else {("global", x) for x in vsa.gamma(B[1])}
        if not ma or not mb:
            return None
        need = set()
        if ma & mb:
            need.add("T" if op == "eq" else "F")
        if len(ma | mb) > 1:
            need.add("F" if op == "eq" else "T")
        miss = need - set(r[1])
        if miss:
            if ("T" if op == "eq" else "F") in miss:
                p = sorted(ma & mb)[0]; q = p
            else:
                p, q = next((p, q) for p in sorted(ma) for q in sorted(mb) if p != q)
            return ("unsound", "left member %s, right member %s give %s, result {%s}" % (p, q, sorted(miss)[0], r[1]))
        return None
    if op.startswith("ast_"):
        if r == ("val", "empty-operand"):
            return None
        op = op[4:]
    if op in ("union", "widen", "intersection"):
        if r[0] != "vs":
            return ("malformed", "unexpected result %r" % (r,))
        if B[0] == "v":
            allr = set(regs) | set(B[2])
            for reg in allr:
                ga = set(vsa.gamma(regs[reg])) if reg in regs else set()
                gb = set(vsa.gamma(B[2][reg])) if reg in B[2] else set()
                need = (ga & gb) if op == "intersection" else (ga | gb)
                for x in need:
                    if not vs_region_member(r, reg, x):
                        return ("unsound", "region %s: member %d missing" % (reg, x))
        else:
            gb = set(vsa.gamma(B[1]))
            for reg, t in regs.items():
                ga = set(vsa.gamma(t))
                need = (ga & gb) if op == "intersection" else (ga | gb)
                for x in need:
                    if not vs_region_member(r, reg, x):
                        return ("unsound", "region %s: member %d missing" % (reg, x))
        return None
    allm = [x for t in regs.values() for x in vsa.gamma(t)]
    if op == "cardinality":
        if r[0] != "val" or r[1] != sum(vsa.card(t) for t in regs.values()):
            return ("wrong", "cardinality %r, regions hold %d offsets" % (r[1], len(allm)))
        return None
    if op == "eval":
        n = extra[0]
        if r[0] != "list":
            return ("wrong", "eval returned %r" % (r,))
        if any(v not in allm for v in r[1]) or len(r[1]) != min(n, len(allm)):
            return ("wrong", "eval(%d) = %r, offsets are %r" % (n, r[1], allm[:8]))
        return None
    if op in ("min", "max"):
        if len(regs) != 1:
            return None if r[0] == "err" else None
        want = (min if op == "min" else max)(allm)
        if r[0] != "val" or r[1] != want:
            return ("wrong", "%s = %r, want %d" % (op, r[1], want))
        return None
    if op == "extract":
        hi, lo = extra
        if r[0] == "vs":
            return None if hi - lo + 1 == w else ("malformed", "value set result for a partial extract")
        if r[0] != "si":
            return ("malformed", "unexpected %r" % (r,))
        for x in allm:
            if not vsa.member(r[1], (x >> lo) & M(hi - lo + 1)):
                return ("unsound", "x=%d: %d missing" % (x, (x >> lo) & M(hi - lo + 1)))
        return None
    if op == "concat":
        wb = B[1][0] if B[0] == "s" else B[1]
        if r[0] != "vs":
            return ("malformed", "unexpected %r" % (r,))
        for reg, t in regs.items():
            gb = vsa.gamma(B[1]) if B[0] == "s" else vsa.gamma(B[2].get(reg, "bottom:%d" % wb))
            for x in vsa.gamma(t):
                for y in gb:
                    if not vs_region_member(r, reg, (x << wb) | y):
                        return ("unsound", "region %s: %d missing" % (reg, (x << wb) | y))
        return None
    if op == "lshr":
        for x in allm:
            for y in vsa.gamma(B[1]):
                z = vsa.c_lshr(x, y, w)
                ok = vs_region_member(r, next(iter(regs)), z) if r[0] == "vs" else (r[0] == "si" and vsa.member(r[1], z))
                if r[0] == "vs":
                    ok = any(vs_region_member(r, reg, vsa.c_lshr(xx, y, w)) for reg in regs for xx in [x])
                if not ok:
                    return ("unsound", "x=%d y=%d: %d missing" % (x, y, z))
        return None
    return None


# ---------------------------------------------------------------------------------------------- sequences: a result compared with its own operand
# `==` on intervals answers by NAME first, sets and value sets compare through their member intervals: a result that keeps (the
# name of) an operand's interval although the value changed compares equal to it.  One object a, r = a OP b, then r cmp a.
SEQ_DS_OPS = ["add", "sub", "and", "or", "xor", "mul", "lshr", "shl", "ashr", "udiv", "mod", "opneg", "not", "union"]
SEQ_VS_OPS = ["add", "sub", "and", "mod", "union", "intersection"]


def seq_real(cont, op, A, B):
    """-> ('val', (canonical r, ((cmp, order, canonical BoolResult), ...))) | ('err', kind) when the derivation raises"""
    try:
        if cont == "d":
            a = mk_dsis(A[1], A[2])
            b = None if B is None else (mk_dsis(B[1], B[2]) if B[0] == "d" else vsa.mk(B[1]))
            if op in DS_UN:
                r = DS_UN[op][0](a)
            elif op == "union":
                r = a.union(b)
            else:
                r = DS_BIN[op][0](a, b)
            cmps = DS_CMP
        else:
            a = mk_vs(A[1], A[2])
            b = mk_vs(B[1], B[2]) if B[0] == "v" else vsa.mk(B[1])
            r = VS_HIST[op](a, b)
            cmps = {"eq": DS_CMP["eq"], "ne": DS_CMP["ne"]}
    except RecursionError:
        return ("err", "RecursionError")
    except Exception as e:  # noqa
        return ("err", type(e).__name__)
    out = []
    for c, (fn, _) in cmps.items():
        out.append((c, "LR", call(fn, r, a)))
        out.append((c, "RL", call(fn, a, r)))
    return ("val", (canon_obj(r), tuple(out)))


def seq_oracle(cont, op, A, B, r):
    """-> None | (kind, detail, cmp, canonical r).  The truth values over the joint choices: the member x of a (the same on
    both sides), the member y of b."""
    if r[0] == "err":
        return None                  # the plain case of this operation reports it
    cr, results = r[1]
    w = A[1]
    pairs = set()                    # (value of r, value of a); value-set members are (region, offset)
    if cont == "d":
        if cr[0] not in ("si", "dsis") or not res_wf(cr):
            return None
        ga = members_of(A)
        gb = members_of(B) if B is not None else [None]
        for x in ga:
            for y in gb:
                if op == "union":
                    zs = (x, y)
                elif op in DS_UN:
                    zs = (DS_UN[op][1](x, w),)
                else:
                    zs = (DS_BIN[op][1](x, y, w),)
                for z in zs:
                    if z is not None:
                        if not res_member(cr, z):
                            return None          # the derivation itself is unsound: the plain case reports it
                        pairs.add((z, x))
        conc = lambda c, p, q: DS_CMP[c][1](p, q, w)  # noqa: E731
    else:
        if cr[0] != "vs":
            return None
        mb = ([(reg, y) for reg, t in B[2].items() for y in vsa.gamma(t)] if B[0] == "v" else [(None, y) for y in vsa.gamma(B[1])])
        for reg, t in A[2].items():
            for x in vsa.gamma(t):
                for (rb, y) in mb:
                    if op in VS_OPS_SI:
                        if rb is not None:
                            return None
                        z = VS_OPS_SI[op][1](x, y, w)
                        zs = [] if z is None else [(reg, z)]
                    elif op == "union":
                        zs = [(reg, x), (rb if rb is not None else reg, y)]
                    else:       # intersection: the value is in both
                        zs = [(reg, x)] if (rb in (None, reg) and x == y) else []
                    for z in zs:
                        if not vs_region_member(cr, z[0], z[1]):
                            return None
                        pairs.add((z, (reg, x)))
        conc = lambda c, p, q: (p == q) if c == "eq" else (p != q)  # noqa: E731
    if not pairs:
        return None
    for c, order, res in results:
        if res[0] != "bool":
            continue                 # comparison raises / not defined for this pair of types: plain cases
        need = {"T" if (conc(c, p, q) if order == "LR" else conc(c, q, p)) else "F" for p, q in pairs}
        miss = need - set(res[1])
        if miss:
            p, q = next((p, q) for p, q in sorted(pairs, key=str) if ("T" if (conc(c, p, q) if order == "LR" else conc(c, q, p)) else "F") in miss)
            return ("unsound", "r = a %s b = %s; %s(%s): r=%s a=%s gives %s, result {%s}" % (
                op, cr, c, "r, a" if order == "LR" else "a, r", p, q, sorted(miss)[0], res[1]), c, cr)
    return None
