"""C25: tie between the Lean model of the balancer (lean/Claripy/VSA/BalancerModel.lean, driver command `balance`) and the
real `Balancer` / `constraint_to_si`: strict serialiser (binary nodes only), canonical form of the real result, the
reference run without the Extract / == / != construction-time simplifiers."""
import contextlib

from lib import vsa
from lib.vsa_expr import Unmodelled, _FOLD, _CMP

BV_CMP = {"ULT", "ULE", "UGT", "UGE", "SLT", "SLE", "SGT", "SGE", "__eq__", "__ne__", "__lt__", "__le__", "__gt__", "__ge__"}
SIMPLIFIERS_OFF = ("Extract", "__eq__", "__ne__")


def serialize(ast, var_index):
    """prefix tokens (the syntax of the driver's `ex` / `balance` commands) of an AST made of BINARY nodes only; raises
    Unmodelled for n-ary nodes, `/u` (its set order is not part of the balancer model), Reverse and anything else outside
    the model's AST type, and for annotations on inner nodes"""
    from claripy.annotation import StridedIntervalAnnotation

    def go(n):
        op = n.op
        if op == "BVS":
            if n.args[0] not in var_index:
                raise Unmodelled("unknown-variable")
            annos = [a for a in n.annotations if isinstance(a, StridedIntervalAnnotation)]
            if len(annos) != len(n.annotations):
                raise Unmodelled("other-annotation")
            return ["var" if annos else "free", str(var_index[n.args[0]]), str(n.size())]
        if n.annotations:
            raise Unmodelled("annotation-on-inner-node")
        if op == "BVV":
            return ["const", str(n.args[0]), str(n.args[1])]
        if op == "BoolV":
            return ["lit", "1" if n.args[0] else "0"]
        if op in _FOLD:
            if op == "__floordiv__":
                raise Unmodelled("udiv")
            if len(n.args) != 2:
                raise Unmodelled("n-ary-" + op)
            return ["bin", _FOLD[op]] + go(n.args[0]) + go(n.args[1])
        if op == "__neg__":
            return ["neg"] + go(n.args[0])
        if op == "__invert__":
            return ["not"] + go(n.args[0])
        if op == "ZeroExt":
            return ["zext", str(n.args[0])] + go(n.args[1])
        if op == "SignExt":
            return ["sext", str(n.args[0])] + go(n.args[1])
        if op == "Extract":
            return ["extract", str(n.args[0]), str(n.args[1])] + go(n.args[2])
        if op == "Concat":
            if len(n.args) != 2:
                raise Unmodelled("n-ary-Concat")
            return ["concat"] + go(n.args[0]) + go(n.args[1])
        if op == "If":
            return ["ite"] + go(n.args[0]) + go(n.args[1]) + go(n.args[2])
        if op in _CMP:
            if not all(getattr(a, "op", None) and hasattr(a, "size") for a in n.args):
                raise Unmodelled("comparison-of-booleans")
            return ["cmp", _CMP[op]] + go(n.args[0]) + go(n.args[1])
        if op == "Not":
            return ["bnot"] + go(n.args[0])
        if op in ("And", "Or"):
            if len(n.args) != 2:
                raise Unmodelled("n-ary-" + op)
            return ["band" if op == "And" else "bor"] + go(n.args[0]) + go(n.args[1])
        raise Unmodelled(op)

    return go(ast)


def is_single_comparison(e):
    """the model's fragment: after excavate_ite the constraint is one comparison of two bit-vector terms"""
    import claripy
    return e.op in BV_CMP and len(e.args) == 2 and all(isinstance(a, claripy.ast.BV) for a in e.args)


@contextlib.contextmanager
def simplifiers_off(names=SIMPLIFIERS_OFF):
    """the reference semantics of the model's guards: the construction-time simplifiers of Extract, == and != are
    switched off while the balancer runs (they only rewrite the syntax of `is_true(inner[h:l] == 0)` and of reversed
    equalities); nodes without symbolic leaves are still evaluated (that happens in Base.__new__)"""
    import claripy.simplifications as S
    saved = {k: S._all_simplifiers[k] for k in names}
    try:
        for k in names:
            S._all_simplifiers[k] = lambda *a: None
        yield
    finally:
        for k in names:
            S._all_simplifiers[k] = saved[k]


def real_result(c, var_index):
    """canonical result of the real constraint_to_si: 'unsat' | ('raise', Type) | ('sat', sorted [(target tokens, mn, mx, interval)])"""
    import claripy
    from claripy.annotation import StridedIntervalAnnotation
    from claripy.backends.backend_vsa.balancer import Balancer
    try:
        b = Balancer(c)
        if not b.sat:
            return "unsat"
        out = []
        for expr, bound in b.replacements:
            if bound.op != "intersection" or len(bound.args) != 2:
                return ("odd", "bound is %s" % bound.op)
            an = [a for a in bound.args[1].annotations if isinstance(a, StridedIntervalAnnotation)]
            if len(an) != 1 or an[0].stride != 1:
                return ("odd", "bound annotation")
            t = vsa.tup(claripy.backends.vsa.convert(bound))
            si = ("bottom %d" % expr.size()) if isinstance(t, str) else "%d %d %d %d" % t
            try:
                tgt = " ".join(serialize(expr, var_index))
            except Unmodelled as u:
                tgt = "?" + str(u) + ":" + str(expr)
            out.append("%s = %d %d : %s" % (tgt, an[0].lower_bound, an[0].upper_bound, si))
        return ("sat", sorted(out))
    except Exception as ex:  # noqa
        return ("raise", type(ex).__name__)


def model_result(line):
    """canonical form of one answer of the driver's `balance` command -> (result, path info)"""
    if line == "unsat":
        return "unsat", None
    if line.startswith("raise:"):
        return ("raise", line[6:]), None
    if line.startswith("unmodelled:"):
        return ("unmodelled", line[11:]), None
    if line.startswith("sat"):
        body, _, info = line[3:].partition("#")
        items = [x.strip() for x in body.split(";") if x.strip()]
        return ("sat", sorted(items)), info.strip()
    return ("bad", line), None


def fmt_annos(xs, annos):
    """the annotation list of the driver line: one interval per variable (a placeholder for plain variables)"""
    out = []
    for x, a in zip(xs, annos):
        out.append("%d %d %d %d" % tuple(a) if a is not None else "%d 1 0 %d" % (x.size(), (1 << x.size()) - 1))
    return " | ".join(out)
