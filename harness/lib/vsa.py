"""Shared machinery of the VSA family (C21..C25): strided-interval enumeration, the concretisation
(member set) of an interval defined independently of claripy, the concrete semantics of every
operation, the table of operations on the REAL code, and the soundness oracle.

Conventions
* an interval is the tuple (bits, stride, lb, ub) or the string 'bottom:<bits>';
* gamma((w,s,lb,ub)) = { (lb + k*s) mod 2^w : k*s <= (ub-lb) mod 2^w }   (s = 0: {lb}); this is what
  claripy's own `eval` enumerates (checked by C22), written here without using claripy;
* a result is *well formed* when lb,ub < 2^w and (stride = 0 <-> lb = ub).  A stride-0 non-singleton makes
  `cardinality` divide by zero, so closure under well-formedness is part of the properties.
"""
import itertools

M = lambda w: (1 << w) - 1  # noqa: E731


# ---------------------------------------------------------------------------------------------- intervals
def wf(t):
    if isinstance(t, str):
        return True
    w, s, lb, ub = t
    return w > 0 and 0 <= lb <= M(w) and 0 <= ub <= M(w) and s >= 0 and ((s == 0) == (lb == ub))


def norm(w, s, lb, ub):
    """what StridedInterval.normalize does to constructor arguments (used only to enumerate distinct inputs)"""
    lb &= M(w); ub &= M(w)
    if lb == ub:
        s = 0
    if s == 1 and lb == (ub + 1) & M(w):
        lb, ub = 0, M(w)
    return (w, s, lb, ub)


def all_sis(w, aligned_only=False):
    """every distinct normalised interval of width w: singletons + all (lb != ub, 1 <= stride <= 2^w - 1)"""
    out = []
    seen = set()
    for lb in range(1 << w):
        for ub in range(1 << w):
            for s in range(0, 1 << w):
                if (s == 0) != (lb == ub):
                    continue
                t = norm(w, s, lb, ub)
                if aligned_only and s and ((ub - lb) & M(w)) % s:
                    continue
                if t not in seen:
                    seen.add(t); out.append(t)
    return out


def span(t):
    w, s, lb, ub = t
    return (ub - lb) & M(w)


def aligned(t):
    if isinstance(t, str):
        return True
    w, s, lb, ub = t
    return s == 0 or span(t) % s == 0


def wraps(t):
    return (not isinstance(t, str)) and t[2] > t[3]


def is_top(t):
    return (not isinstance(t, str)) and t[1] == 1 and t[2] == (t[3] + 1) & M(t[0])


def card(t):
    if isinstance(t, str):
        return 0
    w, s, lb, ub = t
    return 1 if s == 0 else span(t) // s + 1


def member(t, x):
    if isinstance(t, str):
        return False
    w, s, lb, ub = t
    if not 0 <= x <= M(w):
        return False
    d = (x - lb) & M(w)
    if s == 0:
        return d == 0
    return d <= span(t) and d % s == 0


def gamma(t, limit=None):
    """member list in claripy's eval order (from lb upwards, wrapping)"""
    if isinstance(t, str):
        return []
    w, s, lb, ub = t
    if s == 0:
        return [lb]
    n = span(t) // s + 1
    if limit is not None:
        n = min(n, limit)
    return [(lb + k * s) & M(w) for k in range(n)]


def sample_members(t, rng, k):
    """boundary + random members for wide intervals"""
    if isinstance(t, str):
        return []
    n = card(t)
    if n <= k:
        return gamma(t)
    w, s, lb, ub = t
    idx = {0, 1, n - 1, n - 2, n // 2}
    # members next to the poles
    if s:
        for pole in (0, 1 << (w - 1)):
            d = (pole - lb) & M(w)
            for j in (d // s, d // s + 1, d // s - 1):
                if 0 <= j < n:
                    idx.add(j)
    while len(idx) < k:
        idx.add(rng.randrange(n))
    return [(lb + j * s) & M(w) for j in sorted(idx)]


def show(t):
    if isinstance(t, str):
        return t
    return "<%d>%d[%d,%d]" % t


# ---------------------------------------------------------------------------------------------- real code
def SI():
    from claripy.backends.backend_vsa.strided_interval import StridedInterval
    return StridedInterval


def mk(t, name=None):
    S = SI()
    if isinstance(t, str):
        return S.empty(int(t.split(":")[1]))
    w, s, lb, ub = t
    return S(bits=w, stride=s, lower_bound=lb, upper_bound=ub, name=name)


def tup(si):
    """canonical tuple of a result object of the real code"""
    S = SI()
    if isinstance(si, S):
        if si.is_empty:
            return "bottom:%d" % si.bits
        return (si.bits, si.stride, si.lower_bound, si.upper_bound)
    from claripy.backends.backend_vsa.bool_result import BoolResult
    if isinstance(si, BoolResult):
        return "bool:" + "".join(sorted("T" if v else "F" for v in set(si.value)))
    if si is NotImplemented:
        return "notimpl"
    if isinstance(si, (list, tuple)):
        return [tup(x) for x in si]
    if si is None:
        return "none"
    if isinstance(si, (bool, int)):
        return si
    return "other:" + type(si).__name__


def call(fn, *a):
    """run the real code; exceptions become 'err:<Type>'"""
    import logging
    try:
        return tup(fn(*a))
    except RecursionError:
        return "err:RecursionError"
    except Exception as e:  # noqa
        return "err:" + type(e).__name__


# ---------------------------------------------------------------------------------------------- concrete semantics
def sgn(x, w):
    return x - (1 << w) if x >> (w - 1) else x


def c_sdiv(x, y, w):
    if y == 0:
        return None
    a, b = sgn(x, w), sgn(y, w)
    q = abs(a) // abs(b)
    if (a < 0) != (b < 0):
        q = -q
    return q & M(w)


def c_shl(x, y, w):
    return (x << y) & M(w) if y < w else 0


def c_lshr(x, y, w):
    return x >> y if y < w else 0


def c_ashr(x, y, w):
    return (sgn(x, w) >> min(y, w)) & M(w)


# binary operations whose operands have the same width: name -> (real callable on two SIs, concrete fn)
BIN = {
    "add": (lambda a, b: a.add(b), lambda x, y, w: (x + y) & M(w)),
    "sub": (lambda a, b: a.sub(b), lambda x, y, w: (x - y) & M(w)),
    "mul": (lambda a, b: a.mul(b), lambda x, y, w: (x * y) & M(w)),
    "udiv": (lambda a, b: a.udiv(b), lambda x, y, w: None if y == 0 else x // y),
    "sdiv": (lambda a, b: a.sdiv(b), c_sdiv),
    "mod": (lambda a, b: a % b, lambda x, y, w: None if y == 0 else x % y),
    "and": (lambda a, b: a.bitwise_and(b), lambda x, y, w: x & y),
    "or": (lambda a, b: a.bitwise_or(b), lambda x, y, w: x | y),
    "xor": (lambda a, b: a.bitwise_xor(b), lambda x, y, w: x ^ y),
    "shl": (lambda a, b: a.lshift(b), c_shl),
    "lshr": (lambda a, b: a.rshift_logical(b), c_lshr),
    "ashr": (lambda a, b: a.rshift_arithmetic(b), c_ashr),
}
CMP = {
    "ULT": (lambda a, b: a.ULT(b), lambda x, y, w: x < y),
    "ULE": (lambda a, b: a.ULE(b), lambda x, y, w: x <= y),
    "UGT": (lambda a, b: a.UGT(b), lambda x, y, w: x > y),
    "UGE": (lambda a, b: a.UGE(b), lambda x, y, w: x >= y),
    "SLT": (lambda a, b: a.SLT(b), lambda x, y, w: sgn(x, w) < sgn(y, w)),
    "SLE": (lambda a, b: a.SLE(b), lambda x, y, w: sgn(x, w) <= sgn(y, w)),
    "SGT": (lambda a, b: a.SGT(b), lambda x, y, w: sgn(x, w) > sgn(y, w)),
    "SGE": (lambda a, b: a.SGE(b), lambda x, y, w: sgn(x, w) >= sgn(y, w)),
    "eq": (lambda a, b: a.eq(b), lambda x, y, w: x == y),
    "ne": (lambda a, b: a != b, lambda x, y, w: x != y),
}
UN = {
    "neg": (lambda a: a.neg(), lambda x, w: (-x) & M(w)),
    "opneg": (lambda a: -a, lambda x, w: (-x) & M(w)),
    "not": (lambda a: a.bitwise_not(), lambda x, w: x ^ M(w)),
}
# joins/meets (C22)
JOIN = {
    "union": (lambda a, b: a.union(b)),
    "lub": (lambda a, b: SI().least_upper_bound(a, b)),
    "widen": (lambda a, b: a.widen(b)),
}
